"""C20 — attention is a masked convex combination of values, blind to masked positions.

Three kinds of case:

* ``single``  one of Dot/Generalized/Concat soft attention on tensors whose shapes follow the
  documented broadcasting rules (query ``(A*, Q)``, key ``(B*, T, C*, K)``, value
  ``(B*, T, C*, D)``, mask ``(B*, T, C*)``, every batch axis of every tensor either full or 1,
  the sequence axis anywhere legal, named by a non-negative or a negative ``dim``).
* ``multi``   ``MultiHeadedAttention`` around one of the three, all 16 bias-flag combinations,
  batch size equal to / different from the head count, ``d_v`` / ``out_size`` passed or defaulted.
* ``shape``   malformed calls (wrong ranks, wrong sizes, illegal ``dim``, shapes that do not
  broadcast), every flavour: the documented error class, never a value.

MIXED DTYPES between the arguments (``mixed``): the value in every dtype other than that of query / key /
parameters (int64 / int32 / int16 / int8 / uint8 counts, bool features, float16 / bfloat16 / float64 /
float32), query and key in every pair of dtypes torch's type promotion admits for the flavour (dot: all
100; generalised: key = parameter dtype, any query; concat: promote(query, key) = parameter dtype); for
multi-headed attention the value path (W^V, W^C, value) in float64 beside float32 queries / keys.  Oracles:
the same call with the value converted (exactly) to the promoted dtype, the convexity bounds on the exact
contents, "result = sum_t a_t v_t" with the weights the softmax returned (to the precision of the promoted
dtype), and the Lean model on the exact contents.  Combinations torch's own operations reject (key dtype
other than the parameters', a mask that is not bool) are outside the domain: recorded, judged only if the
implementation accepts them.

Orthogonal options of ``single`` / ``multi`` cases: ``dtype`` (float32 / float64), memory ``layout``
(contiguous / strided / transposed / explicitly expanded stride-0 views), ``alias`` (value IS key, the
same tensor object), and ``mag`` — the LARGE-MAGNITUDE stream: integer valued queries, keys and
parameters chosen so that every score is an exact integer of size 1e4 .. 1e5 (float32) or up to 1e13
(float64), in four modes (``offset``: one large negative constant + an ordinary part; ``opposed``:
query and keys in opposite directions; ``random``; ``extreme``: scores equal to -/+ finfo.max).  With
such scores anything finite written into the masked positions (-1e4, -1e9, finfo.min, ...) is no
longer negligible, whereas with ordinary scores exp underflows to exactly 0 and hides it.

SIZE-TRIGGERED CODE PATHS (``_size_cases``): sequence lengths at and around the powers of two and their
multiples (31 .. 1025: 2^p - 1, 2^p, 2^p + 1, 3 * 2^p, 5 * 64, ...; every length of the grid in every run, the
exact multiples of 64 with every flavour), around round decimal lengths (99 .. 1001) and a few anywhere in
66 .. 1100; key / query / value / hidden sizes and batch axes of 31 .. 257 (64, 128, 256 in every run);
multi-headed attention with long sequences, 4 .. 32 heads, head vectors / model sizes / batches of 15 .. 129;
one call with every dimension moderately large and one HUGE call (>= 2^15 scores; judged by the model-free
predicates only, not shipped to the Lean driver).  Long sequences put the attention weight on chosen
stretches through ``window`` masks (only the last / first r positions kept, only the last block, everything
but the last block, only the block boundaries) or spread it (random mask, no mask); coordinate 0 of the
values is one constant (``vconst``: the hull is a point, the output must be that constant).  Permutations of
long sequences include the reversal, a rotation and the exchange of the first and the last block;
``C20.split``: the output equals the mixture of the implementation's outputs on the consecutive blocks of a
random split of the sequence, block B weighted with the sum of the captured softmax weights inside it
(theorem ``C20_split_merge``).

WHO CARRIES THE SEQUENCE AXIS (audit E, option ``kT``): the KEY has size 1 at the sequence axis.  With a mask of
the full length the scores get their T positions from ``masked_fill`` and everything is judged (inside the
guard ``seqAxisCarried`` of ``C20_broadcast_explicit``).  With a mask of size 1 there, or none, and T > 1 values
``check_input`` still accepts (jointly broadcastable) but the shape is not a documented one and ``forward``
returns the SUM of the values (softmax over one score, weight 1 broadcast along the values): such calls are
run and what the implementation does is RECORDED (``seq_axis_carried_by=nobody ...``), nothing is judged, the
model is not asked (``seq_carried``).

ARGUMENT SPELLINGS (improvement round f, seeded change C20-f2): every module is built, and every call made,
the way the case SPELLS it -- each optional constructor argument omitted (possible when its value is the
documented default: dim = 0, scale_factor = 1.0, bias = False, hidden_size = 1000, out_size / d_v = None, bias_W* =
False), passed positionally (documented order) or by keyword, the required ones positionally or by keyword,
scale_factor also as a python int; the call with positional / keyword arguments, the mask omitted instead of
passed as None, through ``__call__`` or ``forward``.  The spelling is drawn from the case's own seed in every
stream and enumerated in ``_spelling_cases`` (flavour x optional argument at its documented default x {omitted,
positional, keyword}, on its own and as the wrapped module of MultiHeadedAttention; out_size / d_v x {omitted,
None, the value the default stands for}; the bias flags).  The Lean model is sent the constructor arguments AS
SPELLED (null = omitted) and resolves the documented defaults itself (``SingleArgs.resolve`` /
``MultiArgs.resolve``); the configuration the module shows (dim, scale_factor, bias presence, hidden size, d_v,
out_size, d_q, d_k, rows of the projections) is compared with that resolution.  Predicates ``C20.ctor`` (the
module built with every argument by keyword / every argument positional / every default-valued argument omitted
/ out_size and d_v given as the values their defaults stand for / a deep copy returns the same output),
``C20.call`` (every spelling of the call returns the same output), ``C20.check_input`` (check_input called
directly accepts what forward accepts and raises what forward raises).  A USER-DEFINED subclass of
GlobalSoftAttention (``user_dot_class``) is attended with on its own and wrapped: the multi-head = composition
predicate calls the very module the MultiHeadedAttention holds, whatever its class.

ONE OBJECT, CALLS OF DIFFERENT SHAPES (improvement round h, seeded change C20-h1): the life of the object (below)
also has calls whose key has ANOTHER RANK / T / batch sizes / broadcasting pattern / mask mode, before
(``life["before"]``) and after (post step ``shape``) the case's call; see ``other_shape`` / ``_shape_call``.

MODULE LIFE CYCLE (improvement round g, seeded change C20-g1): every call belongs to the life of ONE module
object (field ``life``, drawn from the case's own seed in every stream, enumerated in ``_lifecycle_cases``).  The
case's call -- the one the Lean model and all predicates judge -- is made under one of {train, eval} x {grad,
no_grad, inference_mode}; now and then the object has a PAST: it held other parameters, was called with the very
tensor objects of the case's call (other contents now and then), and was then given the case's parameters by
load_state_dict / in-place copy_ / .data / reset_parameters + load_state_dict / load_state_dict(assign=True) /
rebinding the attributes, the arguments their contents in place / through .data / through a numpy alias (the last
two do not move the version counter); and a FUTURE: parameters changed (in place, .data, load_state_dict,
assign=True, reset_parameters, an SGD step, rebinding, requires_grad_(False)), arguments edited in place, a second
module object called with the same tensors -- each followed by a call with the SAME tensor objects.  Every call of
the past and the future must return what a freshly constructed module returns that was given the current
parameters (state_dict) and fresh copies of the current contents (``C20.lifecycle``); results returned earlier
must still be what they were at the end (no shared output buffers); ``C20.mode`` compares all six combinations on
the same tensor objects.  The model is stateless: it is given the parameters and contents of the case's call.

Correspondence: (a) every element of the broadcast batch (query vector, list of keys, list of
values, keep flags) goes to the Lean model (``attend`` / ``mhaForwardH``), which also evaluates
the declarative spec (``attendSpec`` / ``mhaSpecH``); (b) the raw arguments of the call go to the
model's tensor-level forward (``tensorApply``: ``check_input``, broadcasting as index arithmetic, the
axis ``dim`` names) and the whole result tensor is compared.  The driver exponentiates with
``exp(x - c)``, ``c`` the largest kept score (per head for multi-headed attention), as a
max-subtracting softmax does; ``C20_shift_invariant`` / ``C20_multihead_shift`` prove that this is the
same function.  Scores of the dot / generalised flavours with integer / dyadic parameters (and of the
concat flavour in the large stream) are compared EXACTLY; weights and outputs within 1e-5.

Property-only predicates on the implementation (no model needed): convexity bounds (single: the
output; multi: every head's output, observed with a forward hook), weights (captured from
``torch.nn.functional.softmax``, single and multi) are >= 0, sum to 1 and are exactly 0 on masked
positions, blindness (masked keys/values replaced by random finite values: ordinary, 1e3, 1e30, and
keys of +-finfo.max/2 whose scores overflow to inf / nan before they are masked), permutation
invariance, implicit broadcasting == explicit expansion, no mask == all-true mask, the call does not
depend on grad mode / training flag (all six combinations) and does not write to its arguments, it does not
depend on what the module object was called with or held before, multi-head == composition of
the module's own projections with the wrapped single-head attention per head, constructor defaults.
"""
import contextlib
import itertools
import json
import math
import random

from common.framework import PropertyCheck, frac_str, parse_frac

TOL = 1e-5
FLAVOURS = ("dot", "general", "concat")


# ------------------------------------------------------------------------------------ inputs
def _ints(rng, n, lo, hi):
    return [rng.randint(lo, hi) for _ in range(n)]


def _numel(shape):
    n = 1
    for s in shape:
        n *= s
    return n


def _dyadic(rng, n, lo=-4, hi=4, den=4):
    return [rng.randint(lo, hi) / den for _ in range(n)]


def _floats(rng, n, s=1.0):
    # float32-representable random values
    import struct
    out = []
    for _ in range(n):
        x = rng.uniform(-s, s)
        out.append(struct.unpack("f", struct.pack("f", x))[0])
    return out


def _mat(vals, r, c):
    return [vals[i * c:(i + 1) * c] for i in range(r)]


def flavour_params(rng, flavour, Q, K, mode, bias, hidden, scale):
    """JSON-able parameter dict of one single-head attention (numbers are python floats)."""
    gen = (lambda n: [float(x) for x in _ints(rng, n, -2, 2)]) if mode == "int" else \
        (lambda n: _dyadic(rng, n)) if mode == "dyadic" else (lambda n: _floats(rng, n))
    if flavour == "dot":
        return {"kind": "dot", "scale": float(parse_frac(scale))}
    if flavour == "general":
        return {"kind": "general", "W": _mat(gen(Q * K), Q, K), "b": gen(Q) if bias else None}
    if mode in ("sat", "sat128"):
        # SATURATING concat parameters for very wide hidden layers (the documented default hidden_size = 1000):
        # W multiples of `f` = 32 x the denominator of the inputs, b multiples of 32, so that every pre-activation is a
        # multiple of 32 and tanh is exactly -1 / 0 / 1 in float32 and in double; v in multiples of 1/64: every
        # score is an exact multiple of 1/64 of ordinary size (no rounding in a sum of 1000 terms, and the
        # softmax is not degenerate)
        f = 128.0 if mode == "sat128" else 32.0   # sat128: head queries / keys are multiples of 1/4
        fi = lambda n, lo, hi: [float(x) for x in _ints(rng, n, lo, hi)]  # noqa: E731
        return {"kind": "concat", "W": _mat([f * x for x in fi(hidden * (Q + K), -2, 2)], hidden, Q + K),
                "b": [32.0 * x for x in fi(hidden, -2, 2)] if bias else None,
                "v": [x / 64.0 for x in fi(hidden, -3, 3)]}
    return {"kind": "concat", "W": _mat(gen(hidden * (Q + K)), hidden, Q + K),
            "b": gen(hidden) if bias else None, "v": gen(hidden)}


FMAX = {"float32": 3.4028234663852886e38, "float64": 1.7976931348623157e308}


def _sgn(scale):
    return -1.0 if float(parse_frac(scale)) < 0 else 1.0


def large_flavour_params(rng, flavour, Q, K, mag, bias, hidden, scale, dtype):
    """Parameters of one single-head attention for the LARGE-MAGNITUDE stream: all integer valued
    (concat: pre-activations are multiples of 32, so tanh is exactly -1, 0 or 1 in float32 and in
    double), so that scores of size 1e4 .. 1e12 are exact in the tensor's dtype.

    modes: ``offset``  every score = one large negative constant + an ordinary-size part
           ``opposed`` query and keys point in opposite directions (all scores strongly negative)
           ``random``  large entries of random sign (scores of both signs, softmax nearly one-hot)
           ``extreme`` scores equal to the most negative / most positive finite number of the dtype
    """
    mode, M, M2 = mag["mode"], mag["M"], mag["M2"]
    fi = lambda n, lo, hi: [float(x) for x in _ints(rng, n, lo, hi)]  # noqa: E731
    if flavour == "dot":
        return {"kind": "dot", "scale": float(parse_frac(scale))}
    if flavour == "general":
        if mode == "opposed":
            W, b = _mat(fi(Q * K, 0, 2), Q, K), [-x for x in fi(Q, 0, 2)]
        else:
            W, b = _mat(fi(Q * K, -2, 2), Q, K), fi(Q, -2, 2)
        if mode in ("offset", "extreme"):
            # coordinate 0 of the key reaches coordinate 0 of W key (and nothing else)
            for r in range(Q):
                W[r][0] = 0.0
            W[0] = [float(rng.randint(1, 2)) if mode == "offset" else 1.0] + [0.0] * (K - 1)
            if mode == "extreme":
                b[0] = 0.0
        return {"kind": "general", "W": W, "b": b if bias else None}
    # concat: W and b multiples of 32 (integer inputs => tanh saturates exactly or is tanh(0) = 0)
    V = float(FMAX[dtype]) if mode == "extreme" else float(M * M2)
    if mode == "opposed":
        W = _mat([32 * x for x in fi(hidden * (Q + K), 0, 2)], hidden, Q + K)
        b = [32 * x for x in fi(hidden, 0, 2)]
        v = [-float(rng.randint(int(V) // 2, int(V))) for _ in range(hidden)]
    else:
        W = _mat([32 * x for x in fi(hidden * (Q + K), -2, 2)], hidden, Q + K)
        b = [32 * x for x in fi(hidden, -2, 2)]
        v = fi(hidden, -int(V), int(V)) if mode == "random" else fi(hidden, -3, 3)
    if mode == "offset":
        # unit 0: tanh(32 * w * q_0 + b_0) = 1 for every key; v_0 = -V is the common offset
        W[0] = [32.0 * rng.randint(1, 2)] + [0.0] * (Q - 1 + K)
        b[0] = 32.0 * rng.randint(0, 2)
        v[0] = -V
    elif mode == "extreme":
        # unit 0 looks at coordinate 0 of the key only: tanh(32 * k_0) in {-1, 0, 1}
        W[0] = [0.0] * Q + [32.0] + [0.0] * (K - 1)
        b[0] = 0.0
        v = [-V] + [0.0] * (hidden - 1)
    return {"kind": "concat", "W": W, "b": b if bias else None, "v": v}


def large_qk(rng, case, qs, ks, flavour, lim):
    """Integer valued query / key tensors (python lists, row-major) of the large-magnitude stream."""
    mag = case["mag"]
    mode, M, M2 = mag["mode"], mag["M"], mag["M2"]
    s = _sgn(case.get("scale", "1")) if flavour == "dot" else 1.0
    nq, nk, Q, K = _numel(qs), _numel(ks), qs[-1], ks[-1]
    if mode == "opposed":
        q = [float(x) for x in _ints(rng, nq, M, 2 * M)]
        ksign = 1.0 if flavour == "concat" else -s
        k = [ksign * x for x in _ints(rng, nk, M2, 2 * M2)]
    elif mode == "random":
        q = [float(x) for x in _ints(rng, nq, -2 * M, 2 * M)]
        k = [float(x) for x in _ints(rng, nk, -2 * M2, 2 * M2)]
    else:
        q = [float(x) for x in _ints(rng, nq, -lim, lim)]
        k = [float(x) for x in _ints(rng, nk, -lim, lim)]
        if mode == "offset":
            for j in range(0, nq, Q):
                q[j] = float(M)
            if flavour != "concat":
                for j in range(0, nk, K):
                    k[j] = -s * M2
        else:  # extreme
            big = FMAX[case.get("dtype", "float32")]
            if flavour != "concat":
                for j in range(nq):
                    q[j] = big if j % Q == 0 else 0.0
                for j in range(0, nk, K):
                    k[j] = rng.choice([-s, -s, -s, 0.0, s])
            else:
                for j in range(0, nk, K):
                    k[j] = rng.choice([1.0, 1.0, 1.0, 0.0, -1.0])
    return q, k


def eff_dims(case):
    """(d_v, out_size) of a multi-headed case; the constructor's defaults when not passed."""
    dv = max(1, case["D"] // case["H"]) if case.get("dv_default") else case["dv"]
    O = case["D"] if case.get("O_default") else case["O"]
    return dv, O


def _tdtype(case):
    import torch
    return torch.float64 if case.get("dtype") == "float64" else torch.float32


# ---- mixed dtypes between the arguments ---------------------------------------------------------
# `dtype` (float32 / float64) is the dtype of the module's parameters and the default dtype of every
# argument; `mixed` = {"q": name, "k": name, "v": name, "m": name} overrides single arguments.
FLOAT_DTYPES = ("float32", "float64", "float16", "bfloat16")
INT_DTYPES = ("int64", "int32", "int16", "int8", "uint8", "bool")
ALL_DTYPES = FLOAT_DTYPES + INT_DTYPES


def _td(name):
    import torch
    return getattr(torch, name)


def arg_dtypes(case):
    """names of the dtypes of (query, key, value, parameters)"""
    base = case.get("dtype", "float32")
    mx = case.get("mixed") or {}
    kn = mx.get("k", base)
    return mx.get("q", base), kn, kn if case.get("alias") else mx.get("v", base), base


def expected_dtypes(case):
    """(A, P, legal): dtype of the scores / attention weights, dtype of the result, and whether torch's type
    promotion makes the call legal -- from the rules of torch alone (NOT observed on the implementation, so
    that a changed implementation cannot widen its own tolerance):
      dot      (query * key).sum(-1) * python float: promote(q, k), the default dtype if that is integral;
      general  linear(key, W, b) needs key.dtype == W.dtype; then query * Wkey: promote(q, W);
      concat   cat([query, key]) has promote(q, k), which linear needs to be W.dtype; scores have W.dtype;
      result   weights.unsqueeze(-1) * value: promote(A, v).  The mask must be bool (masked_fill)."""
    import torch
    qd, kd, vd, pd = (_td(x) for x in arg_dtypes(case))
    legal = (case.get("mixed") or {}).get("m", "bool") == "bool"
    if case["kind"] == "multi":
        # every argument goes through a Linear first; `vpath`: W^V, W^C and value in float64
        P = torch.float64 if case.get("vpath") else pd
        return pd, P, legal
    fl = case["flavour"]
    if fl == "dot":
        A = torch.promote_types(qd, kd)
        if not A.is_floating_point:
            A = torch.float32
    elif fl == "general":
        legal = legal and kd == pd
        A = torch.promote_types(qd, pd)
    else:
        legal = legal and torch.promote_types(qd, kd) == pd
        A = pd
    return A, torch.promote_types(A, vd), legal


def _heps(dt):
    """machine epsilon of a half-precision dtype, 0 for float32 / float64 (their tolerance is TOL)"""
    import torch
    return float(torch.finfo(dt).eps) if dt in (torch.float16, torch.bfloat16) else 0.0


def case_tol(case, A=None, P=None):
    """relative tolerance of comparisons between calls / with the model: TOL, and 4 eps of the coarsest
    dtype in the chain scores -> weights -> result when that is float16 / bfloat16.  LONG sequences: the
    softmax normaliser and the weighted sum are sums of T terms; the textbook forward error bound of a sum of T
    terms is T * u, u = eps / 2, relative to the sum of the magnitudes -- twice (normaliser, weighted sum) that is
    (T + 2) * eps of the single / double precision dtype the sums are formed in.  It exceeds TOL = 1e-5 only for
    T > 82 in float32 (1.2e-4 at T = 1024), i.e. for none of the lengths generated before the size stream."""
    import torch
    if A is None:
        A, P, _ = expected_dtypes(case)
    single = any(d in (torch.float32, torch.float16, torch.bfloat16) for d in (A, P))
    long_ = (case.get("T", 1) + 2) * float(torch.finfo(torch.float32 if single else torch.float64).eps)
    return max(TOL, 4 * max(_heps(A), _heps(P)), long_)


def _to_dtype(ints, name):
    """integer valued python list -> tensor of the named dtype without wrap-around (unsigned: absolute
    value; bool: non-zero)"""
    import torch
    x = torch.tensor(ints, dtype=torch.float64)
    if name == "uint8":
        x = x.abs()
    if name == "bool":
        return x != 0
    return x.to(_td(name))


def _rand_like(rng, x, big):
    """random finite replacement contents of the dtype of `x`, of size up to `big`"""
    import torch
    n = x.numel()
    if x.dtype == torch.bool:
        return torch.tensor([rng.random() < 0.5 for _ in range(n)], dtype=torch.bool).reshape(x.shape)
    if x.dtype.is_floating_point:
        big = min(big, float(torch.finfo(x.dtype).max) / 4)
        return torch.tensor(_floats(rng, n, big), dtype=torch.float64).to(x.dtype).reshape(x.shape)
    info = torch.iinfo(x.dtype)
    lo, hi = max(info.min, -int(min(big, 2.0 ** 62))), min(info.max, int(min(big, 2.0 ** 62)))
    return torch.tensor([rng.randint(lo, hi) for _ in range(n)], dtype=x.dtype).reshape(x.shape)


def _top_like(rng, x):
    """contents of the dtype of `x` of the largest finite size / 2 (scores computed from them overflow)"""
    import torch
    if x.dtype == torch.bool:
        return _rand_like(rng, x, 1)
    if x.dtype.is_floating_point:
        top = float(torch.finfo(x.dtype).max) / 2
        return torch.tensor([rng.choice([-top, top]) for _ in range(x.numel())],
                            dtype=torch.float64).to(x.dtype).reshape(x.shape)
    info = torch.iinfo(x.dtype)
    return torch.tensor([rng.choice([info.min // 2, info.max // 2]) for _ in range(x.numel())],
                        dtype=x.dtype).reshape(x.shape)


def _layout(x, how, rng):
    """The same values in a tensor that is not contiguous in memory."""
    import torch
    if how is None or x is None or x.numel() == 0:
        return x
    if how == "transposed" and x.dim() >= 2:
        a = rng.randrange(x.dim() - 1)
        return x.transpose(a, -1).contiguous().transpose(a, -1)
    # every second element of a buffer twice as long
    buf = torch.zeros(list(x.shape[:-1]) + [2 * x.shape[-1]], dtype=x.dtype) if x.dim() else None
    if buf is None:
        return x
    y = buf[..., ::2]
    y.copy_(x)
    return y


# ---- size-triggered code paths ---------------------------------------------------------------------
# Lengths at and around powers of two and their multiples (block sizes of chunked / tiled / vectorised
# implementations), and around round decimal numbers: every one is a place where "the last block", "the
# remainder" or "the one-shot path for short inputs" begins or ends.
POW2_GRID = sorted({2 ** p + d for p in range(5, 11) for d in (-1, 0, 1)} |
                   {3 * 2 ** p for p in (5, 6, 7, 8)} | {320, 640, 960})
DEC_GRID = [99, 100, 101, 199, 200, 201, 250, 300, 500, 999, 1000, 1001]
FEATURE_GRID = [31, 32, 33, 63, 64, 65, 127, 128, 129, 255, 256, 257]


def length_class(T):
    """where a length sits relative to the powers of two (tag of the evidence histogram)"""
    if T <= 8:
        return "small(<=8)"
    if T & (T - 1) == 0:
        return "2^p"
    if (T + 1) & T == 0:
        return "2^p-1"
    if (T - 1) & (T - 2) == 0:
        return "2^p+1"
    if T % 64 == 0:
        return "multiple of 64"
    if T % 32 == 0:
        return "multiple of 32"
    if T % 50 == 0:
        return "multiple of 50"
    if (T + 1) % 100 == 0 or (T - 1) % 100 == 0:
        return "100m+-1"
    return "other"


def window_positions(win, T):
    """The positions of the sequence a `window` mask may keep (sorted list, never empty): the attention
    weight is confined to the last / first positions, to the last block, to everything but the last block, or
    to the positions next to the block boundaries."""
    kind, r, b = win["kind"], max(1, win.get("r", 1)), max(1, win.get("block", 64))
    if kind == "tail":
        pos = range(max(0, T - r), T)
    elif kind == "head":
        pos = range(0, min(r, T))
    elif kind == "lastblock":      # the final (full or partial) block of size b
        pos = range(((T - 1) // b) * b, T)
    elif kind == "notlast":        # everything except the final block
        pos = range(0, ((T - 1) // b) * b) if T > b else range(0, max(1, T - 1))
    else:                          # "edges": first and last position of every block, and the very last
        pos = [t for t in range(T) if t % b in (0, b - 1) or t == T - 1]
    return sorted(pos) or [T - 1]


def case_shapes(case):
    E, nb, T = case["E"], case["nb"], case["T"]

    def bs(flags):
        return [e if f else 1 for e, f in zip(E, flags)]
    bq, bk, bv, bm = bs(case["bq"]), bs(case["bk"]), bs(case["bv"]), bs(case["bm"])
    q = bq + [case["Q"]]
    k = bk[:nb] + [T if case.get("kT", True) else 1] + bk[nb:] + [case["K"]]
    v = bv[:nb] + [T if case.get("vT", True) else 1] + bv[nb:] + [case["D"]]
    m = None
    if case["mask"] != "none":
        m = bm[:nb] + [T if case.get("mT", True) else 1] + bm[nb:]
        drop = min(case.get("mdrop", 0), nb)  # never drop the sequence axis itself
        while drop > 0 and len(m) > 1 and m[0] == 1:
            m = m[1:]
            drop -= 1
    return q, k, v, m


def make_inputs(case):
    """Tensors + parameters, from the case alone (python RNG; no pydrobert import)."""
    import torch
    rng = random.Random(case["seed"])
    qs, ks, vs, ms = case_shapes(case)
    lim = case.get("lim", 3)
    mag = case.get("mag")
    dt = _tdtype(case)
    if mag:
        inner_fl = case["flavour"]
        ql, kl = large_qk(rng, case, qs, ks, inner_fl, lim)
        q = torch.tensor(ql, dtype=torch.float64).reshape(qs)
        k = torch.tensor(kl, dtype=torch.float64).reshape(ks)
    else:
        q = torch.tensor(_ints(rng, _numel(qs), -lim, lim), dtype=torch.float32).reshape(qs)
        k = torch.tensor(_ints(rng, _numel(ks), -lim, lim), dtype=torch.float32).reshape(ks)
    v = torch.tensor(_ints(rng, _numel(vs), -9, 9), dtype=torch.float32).reshape(vs)
    if case.get("vconst") is not None and not case.get("alias"):
        # coordinate 0 of every value is one constant: the hull of the kept values is the single point
        # [c, c], so the output coordinate must be c (the weights sum to one over exactly the kept positions)
        v[..., 0] = float(case["vconst"])
    mx = case.get("mixed")
    if mx:
        # every argument in its own dtype (integer valued contents: exact in every dtype, also bfloat16)
        qn, kn, vn, _ = arg_dtypes(case)
        q = q.to(dt) if "q" not in mx else _to_dtype(q.reshape(-1).tolist(), qn).reshape(qs)
        k = k.to(dt) if "k" not in mx else _to_dtype(k.reshape(-1).tolist(), kn).reshape(ks)
        if "v" not in mx:
            v = v.to(dt)
        elif mx.get("vfrac") and vn in FLOAT_DTYPES:
            # values that use the whole mantissa of their dtype (a cast to a narrower dtype is visible)
            frng = random.Random(case["seed"] ^ 0xD7)
            v = torch.tensor([frng.uniform(-9, 9) for _ in range(_numel(vs))],
                             dtype=torch.float64).to(_td(vn)).reshape(vs)
        else:
            v = _to_dtype(v.reshape(-1).tolist(), vn).reshape(vs)
    else:
        q, k, v = q.to(dt), k.to(dt), v.to(dt)
    if case["kind"] == "multi" and case.get("vpath"):
        v = v.to(torch.float64)
    if case.get("alias"):
        v = k  # the SAME tensor object
    mask = None
    if ms is not None:
        if case["mask"] == "all":
            mask = torch.ones(ms, dtype=torch.bool)
        else:
            bits = [rng.random() < 0.55 for _ in range(_numel(ms))]
            mask = torch.tensor(bits, dtype=torch.bool).reshape(ms)
            # at least one kept position in every column along the sequence axis
            ax = len(ms) - 1 - (len(case["E"]) - case["nb"])
            if ms[ax] == 1:
                mask[...] = True
            else:
                mm = mask.movedim(ax, -1).reshape(-1, ms[ax]).clone()
                allowed = None
                if case.get("window") and case["mask"] == "some":
                    allowed = window_positions(case["window"], ms[ax])
                    off = torch.ones(ms[ax], dtype=torch.bool)
                    off[allowed] = False
                    mm[:, off] = False
                for r in range(mm.shape[0]):
                    mm[r, rng.randrange(ms[ax]) if allowed is None else allowed[rng.randrange(len(allowed))]] = True
                    if ms[ax] >= 2 and case["mask"] == "some" and bool(mm[r].all()) and rng.random() < 0.7:
                        mm[r, rng.randrange(ms[ax])] = False
                mask = mm.reshape([s for j, s in enumerate(ms) if j != ax] + [ms[ax]]).movedim(-1, ax).contiguous()
        if (mx or {}).get("m", "bool") != "bool":
            mask = mask.to(_td(mx["m"]))  # outside the domain: masked_fill wants a bool mask
    params = None
    dtn = case.get("dtype", "float32")
    if case["kind"] == "single":
        if mag:
            params = large_flavour_params(rng, case["flavour"], case["Q"], case["K"], mag,
                                          case.get("bias", False), case.get("hidden", 2),
                                          case.get("scale", "1"), dtn)
        else:
            params = flavour_params(rng, case["flavour"], case["Q"], case["K"], case["pmode"],
                                    case.get("bias", False), case.get("hidden", 2), case.get("scale", "1"))
    elif case["kind"] == "multi":
        H, dq, dk = case["H"], case["dq"], case["dk"]
        dv, O = eff_dims(case)
        Q, K = case["Q"], case["K"]
        if mag:
            mode = mag["mode"]
            fi = lambda n, lo, hi: [float(x) for x in _ints(rng, n, lo, hi)]  # noqa: E731
            if mode == "opposed":
                WQ, WK = _mat(fi(H * dq * Q, 1, 2), H * dq, Q), _mat(fi(H * dk * K, 1, 2), H * dk, K)
                bQ, bK = fi(H * dq, 0, 2), [(1.0 if case["flavour"] == "concat" else -1.0) * x
                                            for x in fi(H * dk, 0, 2)]
            else:
                WQ, WK = _mat(fi(H * dq * Q, -1, 1), H * dq, Q), _mat(fi(H * dk * K, -1, 1), H * dk, K)
                bQ, bK = fi(H * dq, -2, 2), fi(H * dk, -2, 2)
            if mode == "offset":
                # coordinate 0 of query / key goes to coordinate 0 of every head (and nowhere else)
                for W_, d_, n_ in ((WQ, dq, Q), (WK, dk, K)):
                    for r in range(H * d_):
                        W_[r][0] = 0.0
                    for h in range(H):
                        W_[h * d_] = [1.0] + [0.0] * (n_ - 1)
            gen = lambda n: fi(n, -2, 2)  # noqa: E731
            params = {"H": H, "dq": dq, "dk": dk, "dv": dv, "WQ": WQ, "WK": WK,
                      "WV": _mat(gen(H * dv * case["D"]), H * dv, case["D"]),
                      "WC": _mat(gen(O * H * dv), O, H * dv),
                      "bQ": bQ, "bK": bK, "bV": gen(H * dv), "bC": gen(O),
                      "inner": large_flavour_params(rng, case["flavour"], dq, dk, mag, case.get("bias", False),
                                                    case.get("hidden", 2), case.get("scale", "1"), dtn)}
        else:
            gen = (lambda n: _dyadic(rng, n)) if case["pmode"] != "float" else (lambda n: _floats(rng, n))
            params = {
                "H": H, "dq": dq, "dk": dk, "dv": dv,
                "WQ": _mat(gen(H * dq * case["Q"]), H * dq, case["Q"]),
                "WK": _mat(gen(H * dk * case["K"]), H * dk, case["K"]),
                "WV": _mat(gen(H * dv * case["D"]), H * dv, case["D"]),
                "WC": _mat(gen(O * H * dv), O, H * dv),
                "bQ": gen(H * dq), "bK": gen(H * dk), "bV": gen(H * dv), "bC": gen(O),
                "inner": flavour_params(rng, case["flavour"], dq, dk, case["pmode"],
                                        case.get("bias", False), case.get("hidden", 2), case.get("scale", "1")),
            }
    if case.get("user") and case["flavour"] == "dot" and params is not None:
        (params if case["kind"] == "single" else params["inner"])["user"] = True
    how = case.get("layout")
    if how == "expanded":
        # the explicitly expanded tensors as stride-0 views
        i, ET, Eb = geometry(case, q, k, v, mask)
        alias = v is k
        q = q.broadcast_to(Eb + [q.shape[-1]])
        k = k.broadcast_to(ET + [k.shape[-1]])
        v = k if alias else v.broadcast_to(ET + [v.shape[-1]])
        mask = None if mask is None else mask.broadcast_to(ET)
    elif how is not None:
        lrng = random.Random(case["seed"] ^ 0xA11)
        alias = v is k
        q, k, v, mask = (_layout(x, how, lrng) for x in (q, k, v, mask))
        v = k if alias else v
    return q, k, v, mask, params


# ---- argument spellings -------------------------------------------------------------------------------
# The DOCUMENTED signatures (the "Parameters" sections of the class docstrings in _attn.py: order and
# defaults), written down here and NOT read from the implementation: (required arguments, ((optional
# argument, documented default), ...)).  out_size / d_v: None is the documented spelling of "unset"
# (out_size = value_size, d_v = max(1, value_size // num_heads)).
DOC_SIGNATURES = {
    "dot": (("size",), (("dim", 0), ("scale_factor", 1.0))),
    "general": (("query_size", "key_size"), (("dim", 0), ("bias", False))),
    "concat": (("query_size", "key_size"), (("dim", 0), ("bias", False), ("hidden_size", 1000))),
    "multi": (("query_size", "key_size", "value_size", "num_heads", "single_head_attention"),
              (("out_size", None), ("d_v", None), ("bias_WQ", False), ("bias_WK", False), ("bias_WV", False),
               ("bias_WC", False))),
}
# A spelling: {"req": "pos" | "kw", <optional argument>: "omit" | "pos" | "kw", "*": the spelling of the rest}.
LEGACY_SPELLING = {"req": "pos", "dim": "pos", "*": "kw"}   # how every module was built before this round
ALL_KW = {"req": "kw", "*": "kw"}
ALL_POS = {"req": "pos", "*": "pos"}
MINIMAL = {"req": "pos", "*": "omit"}
CTOR_ALTERNATIVES = (
    ("every argument passed by keyword", ALL_KW, False),
    ("every argument passed positionally (documented order)", ALL_POS, False),
    ("every argument that has its documented default value omitted", MINIMAL, False),
    ("out_size / d_v passed as the VALUES their documented defaults stand for", ALL_KW, True),
)
CALL_HOWS = ("pos", "kw", "mask_kw", "omit_mask", "kw_omit_mask")


def _is_default(val, default):
    if val is None or default is None:
        return val is None and default is None
    return type(val) is type(default) and val == default


def spell_args(kind, values, sp):
    """(args, kwargs, effective spelling) of a constructor call.  A requested spelling is normalised to one
    python and the documentation admit: an argument can be OMITTED only when its value is the documented
    default, and passed POSITIONALLY only when every argument before it is."""
    req, opt = DOC_SIGNATURES[kind]
    sp = sp or LEGACY_SPELLING
    rest = sp.get("*", "kw")
    args, kwargs, eff = [], {}, {}
    positional = sp.get("req", "pos") == "pos"
    eff["req"] = "pos" if positional else "kw"
    for n in req:
        if positional:
            args.append(values[n])
        else:
            kwargs[n] = values[n]
    for n, default in opt:
        how, val = sp.get(n, rest), values.get(n, default)
        if how == "omit" and not _is_default(val, default):
            how = "kw"
        if n == "scale_factor" and sp.get("int_scale") and float(val).is_integer():
            val = int(val)   # a python int where a float is documented ("usually 1"): argcheck.is_float admits it
            eff["scale_factor:type"] = "int"
        if how == "pos" and not positional:
            how = "kw"
        if how != "pos":
            positional = False
        if how == "pos":
            args.append(val)
        elif how == "kw":
            kwargs[n] = val
        eff[n] = how
    return args, kwargs, eff


def single_values(fl, Q, K, dim):
    if fl["kind"] == "dot":
        return {"size": Q, "dim": dim, "scale_factor": fl["scale"]}
    vals = {"query_size": Q, "key_size": K, "dim": dim, "bias": fl["b"] is not None}
    if fl["kind"] == "concat":
        vals["hidden_size"] = len(fl["v"])
    return vals


def multi_values(case, params, inner, explicit=False):
    f = case["flags"]
    dv, O = eff_dims(case)
    return {"query_size": case["Q"], "key_size": case["K"], "value_size": case["D"], "num_heads": params["H"],
            "single_head_attention": inner,
            "out_size": None if (case.get("O_default") and not explicit) else O,
            "d_v": None if (case.get("dv_default") and not explicit) else dv,
            "bias_WQ": f["wq"], "bias_WK": f["wk"], "bias_WV": f["wv"], "bias_WC": f["wc"]}


def case_spelling(case, which):
    if which == "inner" and case.get("user") and case["flavour"] == "dot":
        return LEGACY_SPELLING   # the user's own constructor: (size, dim, scale), everything passed
    return (case.get("ctor") or {}).get(which) or LEGACY_SPELLING


def fl_stub(case):
    """the constructor-relevant part of the flavour parameters, from the case alone"""
    if case["flavour"] == "dot":
        return {"kind": "dot", "scale": float(parse_frac(case.get("scale", "1")))}
    b = [] if case.get("bias", False) else None
    if case["flavour"] == "general":
        return {"kind": "general", "b": b}
    return {"kind": "concat", "b": b, "v": [0.0] * case.get("hidden", 2)}


def effective_spelling(case):
    """{"inner": ..., "outer": ...}: how the constructor arguments of the case are really spelled (after the
    normalisation of spell_args)"""
    fl = fl_stub(case)
    Q, K = (case["Q"], case["K"]) if case["kind"] == "single" else (case["dq"], case["dk"])
    out = {"inner": spell_args(fl["kind"], single_values(fl, Q, K, case["dim"]), case_spelling(case, "inner"))[2]}
    if case["kind"] == "multi":
        out["outer"] = spell_args("multi", multi_values(case, {"H": case["H"]}, None), case_spelling(case, "outer"))[2]
    return out


def ctor_args_json(case, params):
    """The optional constructor arguments AS SPELLED, for the Lean model (null = omitted / None): the model
    resolves them with the documented defaults (SingleArgs.resolve / MultiArgs.resolve)."""
    fl = params if case["kind"] == "single" else params["inner"]
    Q, K = (case["Q"], case["K"]) if case["kind"] == "single" else (params["dq"], params["dk"])
    vals = single_values(fl, Q, K, case["dim"])
    _, _, eff = spell_args(fl["kind"], vals, case_spelling(case, "inner"))

    def js(n, x):
        return frac_str(x) if n == "scale_factor" else x
    inner = {n: (None if eff[n] == "omit" else js(n, vals[n])) for n, _ in DOC_SIGNATURES[fl["kind"]][1]}
    if case["kind"] == "single":
        return inner
    mv = multi_values(case, params, None)
    _, _, eo = spell_args("multi", mv, case_spelling(case, "outer"))
    return {"inner": inner, "outer": {n: (None if eo[n] == "omit" else mv[n]) for n, _ in DOC_SIGNATURES["multi"][1]}}


def observed_ctor(mod):
    """what the constructed module shows of its configuration (compared with the model's resolution)"""
    o = {"dim": mod.dim}
    if hasattr(mod, "single_head_attention"):
        inner = mod.single_head_attention
        o.update({"inner": observed_ctor(inner), "out_size": mod.out_size, "d_v": mod.d_v, "d_q": mod.d_q,
                  "d_k": mod.d_k, "num_heads": mod.num_heads, "WC_rows": mod.WC.weight.shape[0],
                  "WV_rows": mod.WV.weight.shape[0], "WQ_rows": mod.WQ.weight.shape[0],
                  "WK_rows": mod.WK.weight.shape[0]})
        return o
    if hasattr(mod, "scale_factor"):
        o["scale_factor"] = frac_str(float(mod.scale_factor))
    else:
        o["bias"] = mod.bias is not None
        if hasattr(mod, "v"):
            o["hidden_size"] = mod.v.numel()
    return o


def invoke(mod, call, q, k, v, mask):
    """The call as the case spells it: positional / keyword arguments (documented names query, key, value,
    mask), the mask omitted instead of passed as None, through __call__ or forward."""
    call = call or {}
    how = call.get("how", "pos")
    entry = call.get("entry", "call")
    f = mod.forward if entry == "forward" else mod.check_input if entry == "check_input" else mod
    if how == "kw":
        return f(query=q, key=k, value=v, mask=mask)
    if how == "mask_kw":
        return f(q, k, v, mask=mask)
    if how == "omit_mask" and mask is None:
        return f(q, k, v)
    if how == "kw_omit_mask":
        return f(query=q, key=k, value=v) if mask is None else f(value=v, mask=mask, key=k, query=q)
    return f(q, k, v, mask)


# ---- module life cycle ---------------------------------------------------------------------------------
# One module OBJECT lives through several calls: under {train, eval} x {grad, no_grad, inference_mode}, with the
# same tensor objects passed again, with its parameters changed between the calls (in place, through .data, by
# load_state_dict, reset_parameters, an optimiser step, by rebinding the attribute), with the inputs edited in
# place between the calls (ordinary in-place operations, through .data or a numpy alias: the last two do not move
# the tensor's version counter), with the results of earlier calls still held.  The property speaks about ONE
# call with the module's CURRENT parameters and the arguments' CURRENT contents: every call of the life is
# judged as the call of a freshly constructed module that was given the current parameters (state_dict) and
# fresh copies of the current contents.
LIFE_MODES = ("train", "eval")
LIFE_GRADS = ("no_grad", "grad", "inference")
PRE_SET_HOWS = ("load_state_dict", "copy_", "data", "reset+load", "assign", "rebind")
PARAM_HOWS = ("inplace", "data", "load_state_dict", "assign", "reset_parameters", "sgd", "rebind", "freeze")
INPUT_HOWS = ("inplace", "data", "numpy")
LEGACY_LIFE = {"mode": "train", "grad": "no_grad"}   # how every call was made before this round


def grad_ctx(name):
    import torch
    return {"grad": torch.enable_grad, "no_grad": torch.no_grad, "inference": torch.inference_mode}[name]()


def life_call(mod, case, mode, grad, q, k, v, mask):
    """one call of the module's life, spelled like the case's call, in the given training mode / grad context;
    the module is left in the case's own mode"""
    mod.train(mode == "train")
    try:
        with grad_ctx(grad):
            return invoke(mod, case.get("call"), q, k, v, mask)
    finally:
        mod.train((case.get("life") or LEGACY_LIFE)["mode"] == "train")


def own_parameters(mod):
    """(owner module, attribute name, parameter) of every parameter of the module tree"""
    return [(m_, n, p) for m_ in mod.modules() for n, p in list(m_._parameters.items()) if p is not None]


def fresh_module(case, params, mod):
    """A freshly CONSTRUCTED module (the case's own constructor spelling) that is given the current parameters of
    `mod` through a copy of its state_dict: what every call of the life is judged against."""
    import copy
    if case["kind"] == "single":
        new = make_single(params, case["Q"], case["K"], case["dim"], _tdtype(case), case_spelling(case, "inner"))
    else:
        new = make_multi(case, params)
    new.load_state_dict(copy.deepcopy(mod.state_dict()))
    return new


def fresh_copies(q, k, v, mask):
    """new tensor objects with the current contents (value IS key stays so)"""
    kc = k.clone()
    return q.clone(), kc, kc if v is k else v.clone(), None if mask is None else mask.clone()


# ONE OBJECT, CALLS OF DIFFERENT SHAPES (round h).  A module is built once (dim, sizes) and then serves calls whose
# key has ANOTHER rank (a negative dim fixes the axes to the right of the sequence axis, a non-negative one the
# axes to its left: the other side is free), another sequence length, other batch sizes, another broadcasting
# pattern, another mask mode.  Such a call is described by a SHAPE SPEC {nb, E, T, bq, bk, bv, bm, mask, mdrop,
# seed} stored in the case's life: `life["before"]` = [[mode, grad, spec], ...] are made BEFORE the case's call
# (so the call that the Lean model and every predicate judge is made by an object that has seen other ranks), the
# step ["shape", mode, grad, spec] of `life["post"]` after it.  Every one of them is judged as the call of a
# freshly constructed module (see _judge_call) and its result must have the documented shape.
SHAPE_CASE_DROPS = ("mag", "mixed", "layout", "window", "alias", "vconst", "nomodel", "kT", "life")


def other_shape(r, c):
    """a shape spec for another legal call of the module of case `c` (random source `r`)"""
    nb0, nc0 = c["nb"], len(c["E"]) - c["nb"]
    if c["dim"] < 0:
        # dim = -(nc + 2): the number of axes to the right is fixed, the number to the left is free (>= 1)
        nc, nb = nc0, r.choice([x for x in (1, 2, 3) if x != nb0] * 3 + [nb0])
    else:
        nb, nc = nb0, r.choice([x for x in (0, 1, 2) if x != nc0] * 3 + [nc0])
    E = [r.randint(1, 3) for _ in range(nb + nc)]
    while _numel(E) > 12:
        E[r.randrange(len(E))] = 1
    nE = len(E)

    def flags(p):
        return [1 if r.random() < p else 0 for _ in range(nE)]
    pat = r.choice(["full", "full", "query_bcast", "key_bcast", "mixed"])
    if pat == "full":
        bq = bk = bv = bm = [1] * nE
    elif pat == "query_bcast":
        bq, bk, bv, bm = [0] * nE, [1] * nE, [1] * nE, [1] * nE
    elif pat == "key_bcast":
        bq, bk, bv, bm = [1] * nE, [0] * nE, flags(0.5), flags(0.7)
    else:
        bq, bk, bv, bm = flags(0.5), flags(0.5), flags(0.6), flags(0.6)
    return {"nb": nb, "E": E, "T": r.choice([t for t in (1, 2, 3, 4, 5, 6, 7) if t != c["T"]] + [c["T"]]),
            "bq": list(bq), "bk": list(bk), "bv": list(bv), "bm": list(bm),
            "mask": r.choice(["some", "some", "some", "none", "all"]), "mdrop": r.choice([0, 0, 1]),
            "seed": r.randrange(1 << 30)}


def shape_case(case, spec):
    """the case that describes the call of shape `spec` on the module of `case`: same construction (flavour, dim,
    sizes, dtype of the parameters), ordinary contents"""
    s = {a: b for a, b in case.items() if a not in SHAPE_CASE_DROPS}
    s.update(spec)
    s["mT"] = s["vT"] = True
    return s


def shape_text(case, spec):
    s = shape_case(case, spec)
    qs, ks, vs, ms = case_shapes(s)
    return f"query {qs}, key {ks}, value {vs}, mask {ms} (dim={case['dim']})"


def edit_tensor(x, how, seq_axis=None):
    """Change the contents of `x` IN PLACE, keeping sizes / finiteness / "at least one kept position": floats and
    signed integers are negated, unsigned ones xor-ed with 1, a bool value tensor inverted, a mask (seq_axis
    given) reversed along the sequence axis.  `how`: an ordinary in-place operation (moves the version counter),
    through `.data`, or through a numpy array that shares the memory (neither moves it).  -> what was done"""
    import torch
    if how == "numpy":
        try:
            arr = x.numpy()
        except (TypeError, RuntimeError):
            how = "data"   # bfloat16 has no numpy dtype
    tgt = x.data if how == "data" else x
    if seq_axis is not None:
        new = x.flip(seq_axis).clone()
    elif x.dtype == torch.bool:
        new = ~x
    elif x.dtype == torch.uint8:
        new = x ^ 1
    else:
        new = -x
    if how == "numpy":
        arr[...] = new.numpy()
    else:
        tgt.copy_(new)
    return how


def mask_seq_axis(case, k, mask):
    """the axis of the mask that is the sequence axis of the key (masks are aligned at the last axis)"""
    i = case["dim"] if case["dim"] >= 0 else case["dim"] + k.dim()
    return i - (k.dim() - 1 - mask.dim())


def change_parameters(mod, how, case, q, k, v, mask, rng):
    """Change the parameters of the module object (every one of them) -> description, or None when there is
    nothing to change (the dot-product flavour on its own has no parameters)."""
    import torch
    ps = own_parameters(mod)
    if not ps:
        return None
    a, b = rng.choice([(-0.5, 0.25), (0.75, -0.5), (-1.0, 0.0), (0.5, 1.0)])
    if how == "freeze":
        for _, _, p in ps:
            p.requires_grad_(False)
        return "requires_grad_(False) on every parameter (values unchanged)"
    if how == "reset_parameters":
        torch.manual_seed(case["seed"] & 0xFFFF)
        mod.reset_parameters()
        return "reset_parameters()"
    if how == "sgd":
        for _, _, p in ps:
            p.requires_grad_(True)
        opt = torch.optim.SGD([p for _, _, p in ps], lr=0.125)
        with torch.enable_grad():
            o = mod(q, k, v, mask)
            o.to(torch.float64).sum().backward() if o.dtype.is_floating_point else None
        opt.step()
        opt.zero_grad(set_to_none=True)
        return "one SGD step on the sum of the outputs"
    with torch.no_grad():
        if how == "inplace":
            for _, _, p in ps:
                p.mul_(a).add_(b)
            return f"every parameter p.mul_({a}).add_({b}) in place"
        if how == "data":
            for _, _, p in ps:
                p.data.mul_(a).add_(b)
            return f"every parameter p.data.mul_({a}).add_({b})"
        if how == "rebind":
            for m_, n, p in ps:
                setattr(m_, n, torch.nn.Parameter(p.detach() * a + b, requires_grad=p.requires_grad))
            return f"every parameter attribute rebound to a new Parameter ({a} p + {b})"
        sd = {n: (t * a + b if t.dtype.is_floating_point else t) for n, t in mod.state_dict().items()}
        mod.load_state_dict(sd, assign=(how == "assign"))
        return f"load_state_dict({a} p + {b}{', assign=True' if how == 'assign' else ''})"


def restore_parameters(mod, target, how, case):
    """the pre-history ends: the module object is given the case's parameters (`target`: name -> tensor, the
    exact values), by one of the ways a parameter can be set"""
    import torch
    with torch.no_grad():
        if how in ("load_state_dict", "reset+load", "assign"):
            if how == "reset+load":
                torch.manual_seed(case["seed"] & 0xFFFF)
                mod.reset_parameters()
            mod.load_state_dict({n: t.clone() for n, t in target.items()}, assign=(how == "assign"))
        elif how == "rebind":
            named = dict(mod.named_parameters())
            for m_, n, p in own_parameters(mod):
                name = next(x for x, y in named.items() if y is p)
                setattr(m_, n, torch.nn.Parameter(target[name].clone(), requires_grad=p.requires_grad))
        else:
            for n, p in mod.named_parameters():
                (p.data if how == "data" else p).copy_(target[n])


_USER = {}


def user_dot_class():
    """A USER-DEFINED flavour: a subclass of the abstract GlobalSoftAttention written outside the library, with
    its own constructor and score function (a dot product with a fixed scale -- the model's `.dot scale`).  The
    documentation of MultiHeadedAttention admits "an instance of a subclass of GlobalSoftAttention" as the wrapped
    module; the library cannot know this class, so whatever it does for its own three flavours by looking at the
    class of the wrapped module does not happen here, and the property must hold all the same."""
    if "cls" not in _USER:
        from pydrobert.torch.modules import GlobalSoftAttention

        class UserScaledDot(GlobalSoftAttention):
            def __init__(self, size, dim=0, scale=1.0):
                super().__init__(size, size, dim)
                self.scale_factor = scale

            def score(self, query, key):
                return (query.unsqueeze(self.dim) * key).sum(-1) * self.scale_factor
        _USER["cls"] = UserScaledDot
    return _USER["cls"]


def make_single(fl, Q, K, dim, dt=None, sp=None):
    import torch
    from pydrobert.torch.modules import (ConcatSoftAttention, DotProductSoftAttention,
                                         GeneralizedDotProductSoftAttention)
    dt = dt or torch.float32
    if fl.get("user"):
        return user_dot_class()(Q, dim, fl["scale"])
    cls = {"dot": DotProductSoftAttention, "general": GeneralizedDotProductSoftAttention,
           "concat": ConcatSoftAttention}[fl["kind"]]
    args, kwargs, _ = spell_args(fl["kind"], single_values(fl, Q, K, dim), sp)
    with torch.no_grad():
        m = cls(*args, **kwargs)
        if fl["kind"] == "dot":
            return m
        m = m.to(dt)
        m.weight.copy_(torch.tensor(fl["W"], dtype=dt))
        if fl["b"] is not None:
            m.bias.copy_(torch.tensor(fl["b"], dtype=dt))
        if fl["kind"] == "concat":
            m.v.copy_(torch.tensor(fl["v"], dtype=dt))
        return m


def make_multi(case, params, sp_in=None, sp_out=None, explicit=False):
    """MultiHeadedAttention around a freshly built single-head module, both built with the case's spelling of
    the constructor arguments (or the given alternative spellings)."""
    import torch
    from pydrobert.torch.modules import MultiHeadedAttention
    dt = _tdtype(case)
    sp_in = sp_in or case_spelling(case, "inner")
    sp_out = sp_out or case_spelling(case, "outer")
    # MultiHeadedAttention.__init__ calls reset_parameters() on the wrapped attention, so the
    # wrapped attention's parameters are (re)loaded after construction
    inner = make_single(params["inner"], params["dq"], params["dk"], case["dim"], dt, sp_in)
    args, kwargs, _ = spell_args("multi", multi_values(case, params, inner, explicit), sp_out)
    m = MultiHeadedAttention(*args, **kwargs).to(dt)
    if case.get("vpath"):
        # mixed precision inside the module: the value path (W^V, W^C, and the value argument) in float64
        m.WV.to(torch.float64)
        m.WC.to(torch.float64)
    if [m.d_v, m.out_size] != list(eff_dims(case)):
        return m  # wrong defaults: reported by _run_multi (the parameters would not fit)
    inner2 = make_single(params["inner"], params["dq"], params["dk"], case["dim"], dt, sp_in)
    m.single_head_attention.load_state_dict(inner2.state_dict())
    with torch.no_grad():
        for name in ("Q", "K", "V", "C"):
            lin = getattr(m, "W" + name)
            lin.weight.copy_(torch.tensor(params["W" + name], dtype=dt))
            if lin.bias is not None:
                lin.bias.copy_(torch.tensor(params["b" + name], dtype=dt))
    return m


def same_output(o, out, scale, tol):
    """None when two calls that must be the SAME function agree (bit for bit, else within the case tolerance)"""
    import torch
    if o.shape == out.shape and o.dtype == out.dtype and torch.equal(o, out):
        return None
    if o.dtype != out.dtype:
        return f"dtype {o.dtype} vs {out.dtype}"
    return close(o, out, scale, tol)


@contextlib.contextmanager
def capture_softmax(store):
    import torch
    F = torch.nn.functional
    orig = F.softmax

    def wrapped(*a, **k):
        r = orig(*a, **k)
        store.append(r)
        return r
    F.softmax = wrapped
    try:
        yield
    finally:
        F.softmax = orig


def geometry(case, q, k, v, mask):
    """(i, ET, Eb): sequence axis of key, broadcast batch shape with / without it."""
    import torch
    kd = k.dim()
    dim = case["dim"]
    i = dim if dim >= 0 else dim + kd
    shapes = [tuple(q.unsqueeze(i).shape[:-1]), tuple(k.shape[:-1]), tuple(v.shape[:-1])]
    if mask is not None:
        shapes.append(tuple(mask.shape))
    ET = list(torch.broadcast_shapes(*shapes))
    return i, ET, ET[:i] + ET[i + 1:]


def expand_all(case, q, k, v, mask):
    i, ET, Eb = geometry(case, q, k, v, mask)
    qf = q.broadcast_to(Eb + [q.shape[-1]]).contiguous()
    kf = k.broadcast_to(ET + [k.shape[-1]]).contiguous()
    vf = v.broadcast_to(ET + [v.shape[-1]]).contiguous()
    mf = None if mask is None else mask.broadcast_to(ET).contiguous()
    return i, ET, Eb, qf, kf, vf, mf


def seq_carried(case, q, k, v, mask):
    """Do the scores CARRY the sequence axis -- has `key`, or the mask the scores are filled with, the full
    length T there (Lean: `seqAxisCarried`)?  Documented shapes: key, value and mask all have T.  check_input
    only asks for joint broadcastability, so it also accepts a key and a mask of size 1 at the sequence axis
    against T > 1 values; forward then takes the softmax over ONE score (weight 1) and broadcasts it along the
    values: the result is the SUM of the values.  Such calls are outside the documented shapes (and outside the
    tensor-level model, whose theorems carry the guard): they are generated, run, and what the implementation
    does is RECORDED (`seq_axis_carried_by=nobody ...` in the evidence), not judged."""
    i, ET, _ = geometry(case, q, k, v, mask)
    te = k.shape[i]
    if mask is not None:
        j = i - (k.dim() - 1 - mask.dim())   # axis i of key = axis j of a mask aligned at the last axis
        if 0 <= j < mask.dim():
            te = max(te, mask.shape[j])
    return te == ET[i]


def seq_axis_observation(case, mod, q, k, v, mask):
    """the implementation's behaviour on a call whose scores do not carry the sequence axis (recorded only)"""
    import torch
    i, ET, Eb, qf, kf, vf, mf = expand_all(case, q, k, v, mask)
    with torch.no_grad():
        try:
            out = mod(q, k, v, mask)
        except Exception as exc:  # noqa
            return {"seqaxis": "raises " + type(exc).__name__, "checks": []}
        scale = max(1.0, float(v.to(torch.float64).abs().max())) if v.numel() else 1.0
        tol = 1e-4
        what = "other"
        try:
            if close(out, mod(qf, kf, vf, mf), scale * ET[i], tol) is None:
                what = "the explicitly expanded call (average over T equal scores)"
            elif case["kind"] == "single" and close(
                    out.to(torch.float64), vf.to(torch.float64).sum(i), scale * ET[i], tol) is None:
                what = "the SUM of the values (one softmax weight 1 broadcast along the sequence axis)"
            elif case["kind"] == "multi":
                what = "differs from the explicitly expanded call"
        except Exception as exc:  # noqa
            what = "explicit call raises " + type(exc).__name__
    return {"seqaxis": what, "shape": list(out.shape), "checks": []}


def elements(i, ET, qf, kf, vf, mf):
    """Per element of the broadcast batch: (q, keys, values, keep flags)."""
    import torch
    T = ET[i]
    qq = qf.reshape(-1, qf.shape[-1])
    kk = kf.movedim(i, -2).reshape(-1, T, kf.shape[-1])
    vv = vf.movedim(i, -2).reshape(-1, T, vf.shape[-1])
    mm = None if mf is None else mf.movedim(i, -1).reshape(-1, T)
    return qq, kk, vv, mm


def fl_json(fl):
    """flavour parameters with exact numbers for the driver"""
    def f(x):
        if x is None:
            return None
        if isinstance(x, list):
            return [f(y) for y in x]
        return frac_str(x)
    out = {"kind": fl["kind"]}
    for key in ("W", "b", "v"):   # the dot flavour's scale_factor is a constructor argument: see ctor_args_json
        if key in fl:
            out[key] = f(fl[key])
    return out


def tl(x):
    import torch
    return [frac_str(float(y)) for y in x.to(torch.float64).reshape(-1).tolist()]


def tl2(x):
    return [tl(r) for r in x]


def close(a, b, scale, tol=TOL):
    """|a-b| <= tol*scale elementwise on equal-shaped tensors; returns max abs diff or None if ok."""
    if a.shape != b.shape:
        return f"shape {list(a.shape)} vs {list(b.shape)}"
    import torch
    a, b = a.to(torch.float64), b.to(torch.float64)
    if not (torch.isfinite(a).all() and torch.isfinite(b).all()):
        return "non-finite output"
    if a.numel() == 0:
        return None
    d = float((a - b).abs().max())
    return None if d <= tol * scale else f"max |diff| = {d:.3g}"


WSUM_WORST = {}  # dtype of the result -> largest observed |out - sum_t a_t v_t| / tolerance


def wsum_diff(a, vals, out, i, T, P):
    """The result is the weighted sum of the values under the weights the softmax returned, computed in the
    promoted dtype P: |out - sum_t a_t v_t| <= (T + 2) eps(P) max|v| (each product and each partial sum is
    rounded once in P; the reference is computed in double from the exact contents of `a` and `vals`)."""
    import torch
    ref = (a.to(torch.float64).unsqueeze(-1) * vals.to(torch.float64)).sum(i)
    scale = max(1.0, float(vals.to(torch.float64).abs().max())) if vals.numel() else 1.0
    if out.shape != ref.shape:
        return f"shape {list(out.shape)} vs {list(ref.shape)}"
    o = out.to(torch.float64)
    if not (torch.isfinite(o).all() and torch.isfinite(ref).all()) or o.numel() == 0:
        return None  # non-finite outputs are reported by C20.nonfinite
    d = (o - ref).abs()
    tol = (T + 2) * float(torch.finfo(P).eps) * scale
    if float(d.max()) <= tol:
        WSUM_WORST[str(P)] = max(WSUM_WORST.get(str(P), 0.0), float(d.max()) / tol)
        return None
    j = int(d.reshape(-1).argmax())
    return (f"{float(o.reshape(-1)[j])!r} vs sum_t a_t v_t = {float(ref.reshape(-1)[j])!r} "
            f"(|diff| = {float(d.max()):.3g} > {tol:.3g})")


def split_points(rng, T):
    """a random split of 0..T into consecutive blocks (sorted cut points incl. 0 and T): a few random cuts, for
    long sequences also equal blocks of a power-of-two size (the last one partial or full)"""
    if T > 8 and rng.random() < 0.5:
        b = rng.choice([x for x in (4, 16, 32, 64, 128, 256) if x < T])
        cuts = list(range(b, T, b))
    else:
        cuts = sorted(rng.sample(range(1, T), min(T - 1, rng.randint(1, 4))))
    return [0] + cuts + [T]


def split_diff(mod, a, qf, kf, vf, mfull, out_e, i, cuts, tol):
    """The attention over the whole sequence is the mixture of the attentions over the consecutive blocks
    `cuts` describes, block b entering with the share m_b = sum of the (whole-sequence) weights inside it
    (theorem C20_split_merge); blocks without a kept position have share 0 and are left out.  Computed in
    double from the outputs of the implementation on the blocks."""
    import torch
    acc = torch.zeros(out_e.shape, dtype=torch.float64)
    a64 = a.to(torch.float64)
    for s0, s1 in zip(cuts[:-1], cuts[1:]):
        n = s1 - s0
        mb = mfull.narrow(i, s0, n)
        share = a64.narrow(i, s0, n).sum(i)                       # (E*,): > 0 iff the block keeps something
        ob = mod(qf, kf.narrow(i, s0, n), vf.narrow(i, s0, n), mb).to(torch.float64)
        has = mb.any(i)
        if bool((has & ~torch.isfinite(ob).all(-1)).any()):
            return f"non-finite output on the block of positions {s0}..{s1 - 1}"
        acc = acc + torch.where(has.unsqueeze(-1), share.unsqueeze(-1) * ob, torch.zeros_like(ob))
    o = out_e.to(torch.float64)
    d = (acc - o).abs()
    if d.numel() == 0 or float(d.max()) <= tol:
        return None
    j = int(d.reshape(-1).argmax())
    return (f"{float(o.reshape(-1)[j])!r} vs mixture of the blocks {float(acc.reshape(-1)[j])!r} "
            f"(|diff| = {float(d.max()):.3g} > {tol:.3g})")


# ------------------------------------------------------------------------------------ the check
class C20(PropertyCheck):
    pid = "C20"
    title = "Attention is a masked convex combination of values, blind to masked positions"
    rule = ("cases: (flavour x sequence-axis position x dim sign x broadcast pattern x mask kind) for the "
            "three single-head flavours; MultiHeadedAttention with all 16 bias-flag combinations x "
            "batch==heads / batch!=heads x inner flavour x d_v/out_size passed or defaulted; malformed-shape "
            "stream over all flavours; large-magnitude stream (flavour x {offset, opposed, random, extreme} x "
            "{float32, float64}, single and multi-headed, exact integer scores 1e4..1e13 and +-finfo.max); "
            "long sequences / long vectors (T <= 64, K <= 16); size-triggered paths: every sequence length of the "
            "grid {2^p - 1, 2^p, 2^p + 1 (p = 5..10), 3 * 2^p, 320, 640, 960} in every run (multiples of 64 with "
            "every flavour), decimal lengths 99..1001 (200, 1000 always), random lengths 66..1100, vector sizes / "
            "batch axes / hidden sizes 31..257 (64, 128, 256 always), multi-headed with T up to 1024, H up to 32, "
            "head / model sizes up to 128, one bulk and one huge (model-free) call, window masks (tail / head / "
            "last block / all but the last block / block edges), constant value coordinate; mixed dtypes (flavour x parameter dtype x value "
            "dtype in {float16, bfloat16, float32, float64, int64, int32, int16, int8, uint8, bool}; every "
            "(query dtype, key dtype) pair torch's type promotion admits; value path of multi-headed attention "
            "in float64; a few rejected combinations); dtype, memory layout (strided, transposed, "
            "expanded views), value-is-key aliasing, mixed dtypes varied in every stream; who carries the sequence axis "
            "(key of size 1 there x {mask of the full length, all-true mask, mask of size 1, no mask} x flavour x sign "
            "of dim, 6 % of the free single-head stream; without a full-length mask the call is outside the "
            "documented shapes and only recorded); ARGUMENT SPELLINGS: every optional constructor "
            "argument (dim, scale_factor, bias, hidden_size; out_size, d_v, bias_WQ/WK/WV/WC) omitted (when its value is "
            "the documented default) / positional / by keyword, the required ones positional or by keyword, "
            "scale_factor as a python int; enumerated per flavour x argument x {omitted, positional, keyword} on its "
            "own and wrapped in MultiHeadedAttention with the argument at its documented default (dim 0, scale 1, no "
            "bias, hidden_size 1000), out_size / d_v x {omitted, None positional, None keyword, the value the default "
            "stands for}, every bias flag x {omitted, False positional, False keyword}, and drawn from the case's "
            "seed in EVERY other stream; the call with positional / keyword arguments (any order), the mask omitted "
            "instead of None, through __call__ or forward(), check_input called directly; a USER-DEFINED subclass "
            "of GlobalSoftAttention (dot score with a scale) on its own and as the wrapped module (10 % / 25 % of the "
            "dot cases + 6 enumerated). MODULE LIFE CYCLE: the case's call under {train, eval} x {grad, no_grad, "
            "inference_mode} (drawn from the case's seed in every stream), a past in 30 % (1-2 calls with the same "
            "tensor objects under other parameters, the case's parameters then set in one of 6 ways, the arguments "
            "restored in place in one of 3 ways) and a future in 40 % of the cases (1-3 changes -- parameters in 8 ways, "
            "an argument edited in place in 3 ways, a second module object -- each followed by a call with the same "
            "tensor objects), 15 % each for T > 128; enumerated: (flavour, on its own / wrapped) x the 6 combinations "
            "with a past, the 8 parameter changes x {eval + no_grad, one more}, the 4 arguments x 3 ways of editing. "
            "Integer q/k/v, int/dyadic/float "
            "parameters (saturating exact ones for hidden_size 1000 in single precision). non-trivial: >= 1 masked and >= 2 kept positions in some element of the broadcast "
            "batch; distinct by the full case dict")
    assumptions = [
        "float32 rounding is not modelled: weights/outputs compared within 1e-5 (relative to the value "
        "scale) against the driver's double-precision exp/tanh; scores with integer/dyadic parameters exactly",
        "torch broadcasting, movedim/reshape/broadcast_to used by the harness to split a call into elements",
        "torch.nn.functional.softmax patched (wrapped, result recorded) to observe the attention weights",
        "masked contents are replaced by FINITE values only (0 * inf = nan in floats); replaced VALUES stay "
        "below 1e31 so that the value projection of multi-headed attention does not overflow",
        "the driver's model exponentiates with exp(x - c), c = the largest kept score (per head): proved equal "
        "to the plain model in exact arithmetic (C20_shift_invariant, C20_multihead_shift)",
        "large-magnitude stream: inputs are restricted to integers small enough for every score to be exact "
        "in the tensor dtype (concat: pre-activations are multiples of 32, tanh = -1/0/1 exactly)",
        "mixed dtypes: which combinations are legal, the dtype A of the weights and the dtype P of the result are "
        "computed from torch's type-promotion rules written in the harness (expected_dtypes), not observed on "
        "the implementation; tolerances involving float16 / bfloat16 are 4 eps of the coarsest dtype in the "
        "chain scores -> weights -> result (1e-5 otherwise, as before); 'result = sum_t a_t v_t' is checked to "
        "(T + 2) eps(P) max|v|; the parameters are float32 / float64 only (half-precision parameters, complex "
        "values and a changed torch default dtype are not exercised); the result DTYPE is recorded, not judged",
        "driver glue: row-major addressing of the flat tensor data (flatIndex/mkTensor/allIdx in C20Main.lean)",
        "huge calls (`nomodel`: >= 2^15 scores) are judged by the property predicates on the implementation only "
        "(convexity, weights, weighted sum, split, blindness, permutations, explicit expansion); they are not "
        "sent to the Lean model",
        "C20.split: the shares of the blocks are sums of the softmax weights captured from the implementation; "
        "the mixture is formed in double precision and compared within max(case tolerance, (T + 2) eps(P)) max|v|",
        "argument spellings: the documented signatures (argument order, defaults: dim = 0, scale_factor = 1.0, "
        "bias = False, hidden_size = 1000, out_size = None -> value_size, d_v = None -> max(1, value_size // "
        "num_heads), bias_W* = False) are written in the harness (DOC_SIGNATURES) and in the Lean model "
        "(SingleArgs.resolve / MultiArgs.resolve), not read from the implementation; the model is sent the "
        "arguments AS SPELLED (null = omitted / None) and resolves them itself; modules built from differently "
        "spelled argument lists, differently spelled calls and a deep copy are compared bit for bit, falling "
        "back to the case tolerance (the same parameters are loaded into every module)",
        "hidden_size = 1000 in single precision uses saturating parameters (W, b multiples of 32: tanh is exactly "
        "-1 / 0 / 1; v multiples of 1/64: every score is exact), in double precision any parameters",
        "module life cycle: the oracle for the calls before and after the case's call is a freshly constructed "
        "module of the same library that is given a deep copy of the object's state_dict and clones of the "
        "arguments (bit for bit, falling back to the case tolerance relative to the size of the result); lives whose "
        "changed parameters / contents overflow (non-finite fresh result) are skipped; the parameters of the past "
        "are -p/2 + 1/4, restored EXACTLY (copies) before the case's call; argument edits are involutions "
        "(negation, xor 1, logical not, reversal of the mask along the sequence axis), applied twice around the "
        "past; load_state_dict / state_dict / Parameter / optim.SGD / Tensor.numpy of torch are trusted",
        "long sequences: comparisons of outputs (with the model, between calls) use max(1e-5, (T + 2) eps32) in "
        "single precision -- the forward error bound of the two sums over T terms; larger than 1e-5 only for "
        "T > 82 (1.2e-4 at T = 1024; observed gaps of 1000 float32 cases with T >= 512 reached 0.73e-5); weights and "
        "scores keep 1e-5 / exact",
    ]
    quick_budget_s = 75
    thorough_budget_s = 700

    # ---------------------------------------------------------------- generators
    def _mag(self, rng, mode, dtype, multi):
        """Magnitudes of the large stream, small enough for every score to be an exact integer in `dtype`."""
        if mode == "extreme":
            return {"mode": mode, "M": 0, "M2": 0}
        if dtype == "float64" and rng.random() < 0.6:
            lo, hi = 30000, 1000000   # scores down to about -1e12 .. -1e13
        elif mode == "offset":
            lo, hi = 150, 300         # scores about -2e4 .. -2e5 (still below -1e4 with scale 1/2)
        elif multi:
            lo, hi = 30, 50
        else:
            lo, hi = 100, 200
        return {"mode": mode, "M": rng.randint(lo, hi), "M2": rng.randint(lo, hi)}

    def _extras(self, rng, c, tier, mode=None, dtype=None, layout=False, mixed=None):
        """dtype / memory layout / large-magnitude / mixed-dtype fields of a case (in place)."""
        dtype = dtype or ("float64" if rng.random() < 0.2 else "float32")
        if dtype != "float32":
            c["dtype"] = dtype
        if layout is None:
            layout = rng.random() < 0.2
        if layout:
            c["layout"] = rng.choice(["strided", "transposed", "expanded"])
        if mode is not None:
            c["mag"] = self._mag(rng, mode, dtype, c["kind"] == "multi")
            c["pmode"] = "int"
            if c["flavour"] == "dot":
                # |scale| <= 1 in the extreme mode: the scores must stay finite
                c["scale"] = rng.choice(["1", "1/2", "-1"] + ([] if mode == "extreme" else ["2"]))
            if mode == "offset":
                # room for an ordinary-size part next to the large common offset
                if c["kind"] == "single":
                    c["K"] = max(2, c["K"])
                    c["Q"] = c["K"] if c["flavour"] == "dot" else c["Q"]
                else:
                    c["dk"] = 2
                    c["dq"] = 2 if c["flavour"] == "dot" else c["dq"]
        if rng.random() < 0.1:
            # value IS key (the class docstring's example passes the encoder output as both)
            c["alias"] = True
            c["D"], c["bv"], c["vT"] = c["K"], list(c["bk"]), True
        if mixed is None:
            mixed = rng.random() < 0.15
        if mixed and c["kind"] == "single":
            # the value in any dtype (it does not enter the scores, so also in the large-magnitude stream);
            # query / key in any pair of dtypes torch admits (ordinary stream: integer valued, exact in all)
            r = rng.random()
            qd = kd = None
            if mode is None and r < 0.5:
                qd, kd = rng.choice(self._legal_qk(c["flavour"], dtype))
                c["pmode"] = "int" if rng.random() < 0.5 else c["pmode"]
            elif mode is None and r < 0.55:
                qd, kd = rng.choice(ALL_DTYPES), rng.choice(ALL_DTYPES)  # may be outside the domain
            self._mixed(rng, c, q=qd, k=kd, v=rng.choice(ALL_DTYPES) if r >= 0.5 or rng.random() < 0.7 else None)
        elif mixed and dtype == "float32" and not c.get("alias"):
            c["vpath"] = True  # W^V, W^C and the value in float64, everything else in float32
        return c

    @staticmethod
    def _legal_qk(flavour, base):
        """the (query dtype, key dtype) pairs torch's type promotion admits for a module with parameters of
        dtype `base` (see expected_dtypes)"""
        import torch
        out = []
        for qd in ALL_DTYPES:
            for kd in ALL_DTYPES:
                if flavour == "dot" or (flavour == "general" and kd == base) or \
                        (flavour == "concat" and torch.promote_types(_td(qd), _td(kd)) == _td(base)):
                    out.append((qd, kd))
        return out

    def _mixed(self, rng, c, q=None, k=None, v=None, m=None):
        """per-argument dtypes of a case (in place); only differences from the base dtype are stored"""
        base = c.get("dtype", "float32")
        mx = {n: d for n, d in (("q", q), ("k", k), ("v", v)) if d is not None and d != base}
        if c.get("alias"):
            mx.pop("v", None)  # value IS key
        if mx.get("v") in FLOAT_DTYPES and rng.random() < 0.5:
            mx["vfrac"] = True
        if m is not None and c["mask"] != "none":
            mx["m"] = m
        if mx:
            c["mixed"] = mx
        return c

    def _mixed_cases(self, rng, tier):
        """MIXED DTYPES between the arguments: (a) the value in every dtype other than that of query / key /
        parameters (integer counts, one-hot / bool features, half and double precision), every flavour, both
        parameter dtypes; (b) query and key in different dtypes, every pair torch's type promotion admits
        (sampled in the quick tier); (c) a few combinations torch rejects (outside the domain: recorded)."""
        def one(flavour, base, mask="some"):
            n = rng.choice([2, 3, 3, 4])
            nb = rng.randint(0, n - 2)
            c = self._single(rng, flavour, n, nb, rng.random() < 0.3, tier, mask=mask)
            c["pmode"] = "int" if rng.random() < 0.7 else c["pmode"]
            return self._extras(rng, c, tier, dtype=base, layout=None, mixed=False)
        for flavour in FLAVOURS:
            for base in ("float32", "float64"):
                for vd in ALL_DTYPES:
                    if vd != base:
                        yield self._mixed(rng, one(flavour, base), v=vd)
                pairs = [p for p in self._legal_qk(flavour, base) if p != (base, base)]
                for qd, kd in (rng.sample(pairs, min(9, len(pairs))) if tier == "quick" else pairs):
                    yield self._mixed(rng, one(flavour, base, mask=None), q=qd, k=kd, v=rng.choice(ALL_DTYPES))
        # outside the domain
        for flavour, base in (("general", "float32"), ("general", "float64"), ("concat", "float32"),
                              ("concat", "float64")):
            legal = set(self._legal_qk(flavour, base))
            qd, kd = rng.choice([(a, b) for a in ALL_DTYPES for b in ALL_DTYPES if (a, b) not in legal])
            yield self._mixed(rng, one(flavour, base), q=qd, k=kd, v=rng.choice(ALL_DTYPES))
        for md in ("uint8", "int64", "float32"):
            yield self._mixed(rng, one(rng.choice(FLAVOURS), "float32"), m=md)

    def _single(self, rng, flavour, n, nb, neg, tier, mask=None, pattern=None, wide=False):
        nc = n - 2 - nb  # key has n axes: nb + 1 (T) + nc + 1 (K)
        big = tier != "quick"
        E = [rng.randint(1, 3 if big else 2) + (1 if rng.random() < 0.3 else 0) for _ in range(nb + nc)]
        while _numel(E) > (4 if wide else 24 if big else 12):
            E[rng.randrange(len(E))] = 1
        T = rng.choice([1, 2, 3, 4, 5] + ([6, 8] if big else []))
        K = rng.randint(1, 3)
        if wide:  # long sequences, long vectors
            T, K = rng.randint(16, 64), rng.randint(8, 16)
        Q = K if flavour == "dot" else rng.randint(1, 3)
        nE = len(E)

        def flags(p_full):
            return [1 if rng.random() < p_full else 0 for _ in range(nE)]
        pattern = pattern or rng.choice(["full", "full", "query_bcast", "key_bcast", "mixed"])
        if pattern == "full":
            bq = bk = bv = bm = [1] * nE
        elif pattern == "query_bcast":
            bq, bk, bv, bm = [0] * nE, [1] * nE, [1] * nE, [1] * nE
        elif pattern == "key_bcast":
            bq, bk, bv, bm = [1] * nE, [0] * nE, flags(0.5), flags(0.7)
        else:
            bq, bk, bv, bm = flags(0.5), flags(0.5), flags(0.6), flags(0.6)
        mask = mask or rng.choice(["some", "some", "some", "none", "all"])
        pm = rng.choice(["int", "int", "dyadic", "float"]) if flavour != "dot" else "int"
        # legal negative dims are -n+1 .. -2 (axis 0 has no legal negative name)
        neg = neg and nb >= 1
        c = {
            "kind": "single", "flavour": flavour, "dim": nb - n if neg else nb,
            "nb": nb, "E": E, "T": T, "Q": Q, "K": K, "D": rng.randint(1, 3),
            "bq": bq, "bk": bk, "bv": bv, "bm": bm,
            "mT": rng.random() < 0.9, "vT": rng.random() < 0.93, "mdrop": rng.choice([0, 0, 0, 1, 2]),
            "mask": mask, "pmode": pm, "bias": rng.random() < 0.5, "hidden": rng.randint(1, 3),
            "scale": rng.choice(["1", "1/2", "1/4", "2", "-1"]), "seed": rng.randrange(1 << 30),
            **({"lim": 1} if wide else {}),
        }
        # now and then the KEY has size 1 at the sequence axis (audit E; drawn from the case's own seed so that
        # the stream of the other fields is what it was): with a mask that has the full length the scores still
        # carry the axis; otherwise the call is outside the documented shapes and only recorded (seq_carried)
        if not wide and random.Random(c["seed"] ^ 0x5EA).random() < 0.06:
            c["kT"] = False
        return c

    def _seq_axis_cases(self, rng, tier):
        """WHO CARRIES THE SEQUENCE AXIS (audit E): key of size 1 there against T > 1 values, every flavour, both
        signs of dim -- with a mask of the full length (scores carry the axis through the mask: inside the
        domain, everything is judged), with a mask of size 1 there or without a mask (nobody carries it:
        outside the documented shapes, what the implementation returns is recorded), and the ordinary
        size-1 cases next to them (value of size 1, mask of size 1 against a full key)."""
        for flavour in FLAVOURS:
            for neg in (False, True):
                for mask, mT, kT, vT in (("some", True, False, True), ("all", True, False, True),
                                         ("none", True, False, True), ("some", False, False, True),
                                         ("some", False, True, True), ("some", True, True, False),
                                         ("none", True, False, False)):
                    n = rng.choice([3, 3, 4]) if neg else rng.choice([2, 3, 3, 4])
                    nb = rng.randint(1 if neg else 0, n - 2)
                    c = self._single(rng, flavour, n, nb, neg, tier, mask=mask)
                    c.update({"T": max(3, c["T"]), "mT": mT, "kT": kT, "vT": vT})
                    yield c
        for mask, mT in (("some", True), ("none", True)):
            flags = {k: rng.random() < 0.5 for k in ("wq", "wk", "wv", "wc")}
            c = self._multi(rng, rng.choice(FLAVOURS), flags, rng.randint(1, 3), False, tier)
            c.update({"T": max(3, c["T"]), "mask": mask, "mT": mT, "kT": False, "vT": True})
            yield c

    # ---- size-triggered code paths: long sequences, large feature / batch / hidden / head dimensions ----
    WINDOWS = ("tail", "tail", "lastblock", "notlast", "edges", "head")

    def _window(self, rng, T):
        kind = rng.choice(self.WINDOWS)
        return {"kind": kind, "r": rng.choice([1, 1, 2, 3, 5, 64]), "block": rng.choice([32, 64, 64, 128])}

    def _sized_single(self, rng, flavour, tier, axis, size, mask=None):
        """One single-head case with ONE dimension large (`axis`: T sequence length, K key size (dot: = query
        size), Q query size, D value size, E one batch axis, hidden (concat), bulk: all moderately large) and
        the others small.  Long sequences put the attention weight on chosen stretches (`window` masks: the
        last / first positions, the last block, everything but the last block, block boundaries) or leave
        it spread (random mask / no mask); coordinate 0 of the values is a constant (`vconst`)."""
        n = rng.choice([2, 3, 3]) if axis != "E" else rng.choice([3, 3, 4])
        nb = rng.randint(0, n - 2)
        c = self._single(rng, flavour, n, nb, rng.random() < 0.3, tier, wide=True,
                         pattern=rng.choice(["full", "full", "query_bcast", "key_bcast", "mixed"]))
        c["T"], c["K"], c["D"] = rng.randint(2, 6), rng.randint(1, 3), rng.randint(2, 3)
        c["Q"] = c["K"] if flavour == "dot" else rng.randint(1, 3)
        if flavour != "dot":
            c["pmode"] = rng.choice(["int", "dyadic"] if axis in ("K", "Q", "hidden", "bulk")
                                    else ["int", "dyadic", "float"])
        if axis == "T":
            c["T"] = size
            while _numel(c["E"]) > (2 if size > 300 else 4):
                c["E"][rng.randrange(len(c["E"]))] = 1
            c["mT"] = c["vT"] = c["kT"] = True
        elif axis == "K":
            c["K"] = size
            if flavour == "dot":
                c["Q"] = size
                c["scale"] = rng.choice(["1/4", "1/4", "1/2", "-1", "1"])
            elif rng.random() < 0.3:
                c["Q"] = rng.choice([x for x in FEATURE_GRID if x <= 65])
        elif axis == "Q":
            c["Q"] = size
            if flavour == "dot":
                c["K"] = size
        elif axis == "D":
            c["D"] = size
        elif axis == "E":
            j = rng.randrange(len(c["E"]))
            c["E"] = [1 if x > 2 else x for x in c["E"]]
            c["E"][j] = size
            c["T"] = rng.randint(2, 4)
        elif axis == "hidden":
            c["hidden"] = size
        elif axis == "bulk":
            # every dimension moderately large at once (thresholds on the number of elements)
            n, nb = 4, rng.randint(0, 2)
            c.update({"nb": nb, "dim": nb - n if (c["dim"] < 0 and nb >= 1) else nb, "E": [rng.choice([3, 4]), size],
                      "T": rng.choice([31, 32, 33]), "K": 4, "Q": 4 if flavour == "dot" else 3, "D": 8,
                      "mT": True, "vT": True, "kT": True, "mdrop": 0})
            for key in ("bq", "bk", "bv", "bm"):
                c[key] = [1, 1]
        elif axis == "huge":
            # >= 2^15 scores: too much to ship to the Lean driver as exact fractions; the model-free predicates
            # (convexity, weights, weighted sum, blindness, permutations, split, explicit expansion) judge it
            n, nb = 4, rng.randint(0, 2)
            c.update({"nb": nb, "dim": nb - n if (c["dim"] < 0 and nb >= 1) else nb, "E": [rng.choice([7, 8, 9]), rng.choice([15, 16, 17])],
                      "T": size, "K": 2, "Q": 2, "D": 4, "mT": True, "vT": True, "kT": True, "mdrop": 0, "nomodel": True})
            c["bq"], c["bk"], c["bv"], c["bm"] = [rng.randint(0, 1), 1], [1, 1], [1, 1], [1, rng.randint(0, 1)]
        T = c["T"]
        c["mask"] = mask or rng.choice(["some", "some", "some", "none", "all"])
        if c["mask"] == "some" and T > 8 and rng.random() < 0.6:
            c["window"] = self._window(rng, T)
        c["vconst"] = rng.choice([-7, -1, 1, 1, 2, 9])
        # value dtype other than the parameters' now and then (not the half precisions: their tolerance over
        # a thousand summands would say little), large-magnitude scores only where they stay exact
        mode = rng.choice(["offset", "random"]) if axis in ("T", "D", "E") and rng.random() < 0.12 else None
        self._extras(rng, c, tier, mode=mode, layout=False if axis == "huge" else None, mixed=False)
        if rng.random() < 0.15:
            self._mixed(rng, c, v=rng.choice(["float64", "float32", "int64", "int32", "int16", "int8", "uint8",
                                              "bool"]))
        return c

    def _sized_multi(self, rng, flavour, tier, axis, size):
        """MultiHeadedAttention with a long sequence / many heads / large head vectors / a large batch."""
        flags = {k: rng.random() < 0.5 for k in ("wq", "wk", "wv", "wc")}
        H = size if axis == "H" else rng.randint(1, 3)
        c = self._multi(rng, flavour, flags, H, rng.random() < 0.3 and axis not in ("H", "E"), tier)
        c["T"] = rng.randint(2, 5)
        if axis == "T":
            c["T"] = size
            c["E"] = [min(e, 2) for e in c["E"]]
        elif axis == "d":      # large head vectors (d_q, d_k, d_v) and model sizes
            c["dv"] = size
            c["dk"] = rng.choice([size, rng.randint(1, 2)])
            c["dq"] = c["dk"] if flavour == "dot" else rng.randint(1, 2)
            c.pop("dv_default", None)
            c["lim"] = 1
        elif axis == "model":  # large query / key / value / output sizes
            c["Q"], c["K"], c["D"], c["O"] = (rng.choice([size, rng.randint(1, 3)]) for _ in range(4))
            c[rng.choice(["Q", "K", "D", "O"])] = size
            c["lim"] = 1
        elif axis == "E" and c["E"]:
            c["E"][-1] = size
        if axis in ("H", "d", "model"):
            c["pmode"] = "dyadic"   # the projections stay exact in float32: what is compared is the attention
        c["mask"] = rng.choice(["some", "some", "some", "none"])
        if c["mask"] == "some" and c["T"] > 8 and rng.random() < 0.6:
            c["window"] = self._window(rng, c["T"])
        return self._extras(rng, c, tier, layout=None, mixed=False)

    def _size_cases(self, rng, tier):
        quick = tier == "quick"
        fl0 = rng.randrange(3)
        # (1) sequence lengths at and around (multiples of) powers of two: EVERY length of the grid in every
        # run; the exact multiples of 64 with every flavour, the others with the flavours in rotation
        for j, T in enumerate(POW2_GRID):
            fls = FLAVOURS if (not quick or (T % 64 == 0 and T > 64)) else (FLAVOURS[(fl0 + j) % 3],)
            for flavour in fls:
                yield self._sized_single(rng, flavour, tier, "T", T)
        # ... around round decimal lengths (the exact multiples 200 and 1000 in every run), and anywhere in between
        dec = [200, 1000] + rng.sample([t for t in DEC_GRID if t not in (200, 1000)], 3) if quick else DEC_GRID
        for j, T in enumerate(dec + [rng.randint(66, 1100) for _ in range(3 if quick else 12)]):
            for flavour in ((FLAVOURS[(fl0 + j) % 3],) if quick else FLAVOURS):
                yield self._sized_single(rng, flavour, tier, "T", T)
        # (2) large vector sizes / batch axes / hidden layers: the exact powers of two 64, 128, 256 in every run
        # (with every flavour the dimension means something to: the score functions are flavour-specific),
        # their neighbours sampled
        exact = (64, 128, 256)
        for axis in ("K", "Q", "D", "E", "hidden"):
            fls = {"K": FLAVOURS, "Q": ("general", "concat"), "hidden": ("concat",)}.get(axis)
            sizes = list(exact) + (rng.sample([x for x in FEATURE_GRID if x not in exact], 2) if quick
                                   else [x for x in FEATURE_GRID if x not in exact])
            for j, size in enumerate(sizes):
                every = fls if (fls and (size in exact or not quick)) else None
                for flavour in (every or ((rng.choice(fls) if fls else FLAVOURS[(fl0 + j) % 3]),)):
                    yield self._sized_single(rng, flavour, tier, axis, size)
        # (3) everything moderately large at once; and a HUGE call (>= 2^15 scores, >= 2^17 value entries:
        # thresholds on the number of elements), judged by the model-free predicates only
        for flavour in ((rng.choice(FLAVOURS),) if quick else FLAVOURS):
            yield self._sized_single(rng, flavour, tier, "bulk", rng.choice([7, 8, 9]))
            yield self._sized_single(rng, flavour if quick else rng.choice(FLAVOURS), tier, "huge",
                                     256 if quick else rng.choice([255, 256, 256, 257]))
        # (4) multi-headed: long sequences (through the wrapped attention), many heads, large head vectors
        mT = [64, 128, 192, 1024] + rng.sample([t for t in POW2_GRID if t not in (64, 128, 192, 1024)], 3) \
            if quick else POW2_GRID + DEC_GRID
        for j, T in enumerate(mT):
            yield self._sized_multi(rng, FLAVOURS[(fl0 + j) % 3], tier, "T", T)
        for axis, first, sizes in (("H", 8, [4, 7, 16, 17, 32]), ("d", 64, [15, 16, 17, 32, 33]),
                                   ("model", 64, [31, 32, 33, 65, 128]), ("E", 64, [31, 32, 33, 65, 129])):
            for j, size in enumerate([first] + (rng.sample(sizes, 1) if quick else sizes)):
                yield self._sized_multi(rng, FLAVOURS[(fl0 + j) % 3] if quick else rng.choice(FLAVOURS), tier, axis, size)

    def _multi(self, rng, flavour, flags, H, batch_eq, tier, layout=None):
        # layouts: the docstring's (T, B) [nb=0, one trailing batch axis], (B, T) [nb=1], and a 4-axis key
        layout = layout or rng.choice(["TB", "TB", "BT", "BTC", "T"])
        B = H if batch_eq else rng.choice([b for b in (1, 2, 3, 4) if b != H])
        if layout == "TB":
            nb, E = 0, [B]
        elif layout == "BT":
            nb, E = 1, [B]
        elif layout == "BTC":
            nb, E = 1, [rng.randint(1, 2), B]
        else:
            nb, E = 0, []
        T = rng.choice([1, 2, 3, 4, H, H])
        dq = rng.randint(1, 2)
        dk = dq if flavour == "dot" else rng.randint(1, 2)
        nE = len(E)
        pat = rng.choice(["full", "full", "query_bcast", "mixed"])
        if pat == "full":
            bq = bk = bv = bm = [1] * nE
        elif pat == "query_bcast":
            bq, bk, bv, bm = [0] * nE, [1] * nE, [1] * nE, [1] * nE
        else:
            bq, bk, bv, bm = ([rng.randint(0, 1) for _ in range(nE)] for _ in range(4))
        return {
            "kind": "multi", "flavour": flavour, "dim": nb, "nb": nb, "E": E, "T": T,
            "Q": rng.randint(1, 3), "K": rng.randint(1, 3), "D": rng.randint(1, 3), "O": rng.randint(1, 3),
            "H": H, "dq": dq, "dk": dk, "dv": rng.randint(1, 2), "flags": flags,
            "bq": list(bq), "bk": list(bk), "bv": list(bv), "bm": list(bm), "mT": True, "vT": True, "mdrop": 0,
            "mask": rng.choice(["some", "some", "some", "some", "none", "all"]),
            "pmode": rng.choice(["dyadic", "dyadic", "float"]), "bias": rng.random() < 0.5,
            "hidden": rng.randint(1, 2), "scale": rng.choice(["1", "1/2"]), "seed": rng.randrange(1 << 30),
            "lim": 2,
            # the constructor's defaults: d_v = max(1, value_size // num_heads), out_size = value_size
            **({"dv_default": True} if rng.random() < 0.25 else {}),
            **({"O_default": True} if rng.random() < 0.25 else {}),
        }

    def _shape_cases(self, rng, tier):
        """Malformed (and a few well-formed) shape-only calls."""
        out = []
        base = {"kind": "shape", "flavour": "dot", "multi": False}
        for multi in (False, True):
            for _ in range(30 if tier == "quick" else 150):
                n = rng.randint(2, 4)
                Q = rng.randint(1, 3)
                K = Q
                D = rng.randint(1, 3)
                nb = rng.randint(0, n - 2)
                E = [rng.randint(1, 3) for _ in range(n - 2)]
                # sizes coincide often so that wrong axes still broadcast
                T = rng.choice([Q, Q, rng.randint(1, 4)])
                q = list(E) + [Q]
                k = E[:nb] + [T] + E[nb:] + [K]
                v = E[:nb] + [T] + E[nb:] + [D]
                m = E[:nb] + [T] + E[nb:]
                dim = nb if (multi or rng.random() < 0.5) else nb - n
                defect = rng.choice(["none", "q_rank", "v_rank", "q_size", "k_size", "dim_hi", "dim_lo",
                                     "dim_m1", "dim_m1", "batch", "mask", "value_batch"] +
                                    (["v_size"] if multi else []))
                qsz, ksz = Q, K
                if defect == "q_rank":
                    q = q + [Q] if rng.random() < 0.5 else q[1:] if len(q) > 1 else [2] + q
                elif defect == "v_rank":
                    v = [1] + v
                elif defect == "q_size":
                    qsz = Q + 1
                elif defect == "k_size":
                    ksz = K + 1
                elif defect == "dim_hi":
                    dim = n - 1
                elif defect == "dim_lo":
                    dim = -n
                elif defect == "dim_m1":
                    dim = -1
                elif defect == "batch" and E:
                    j = rng.randrange(len(E))
                    q[j] = q[j] + 1 if q[j] > 1 else 1
                    if q[j] == 1:
                        defect = "none_bcast"
                elif defect == "mask" and True:
                    j = rng.randrange(len(m))
                    m[j] = m[j] + 1 if m[j] > 1 else 1
                    if m[j] == 1:
                        defect = "none_bcast"
                elif defect == "value_batch":
                    j = rng.randrange(len(v) - 1)
                    v[j] = v[j] + 1 if v[j] > 1 else 1
                    if v[j] == 1:
                        defect = "none_bcast"
                if multi and dim < 0:
                    if defect in ("dim_lo", "dim_m1") and rng.random() < 0.5:
                        # negative dims are rejected by the MultiHeadedAttention CONSTRUCTOR (ValueError,
                        # "ambiguous"); the model's check_input with value_size is only ever reached with dim >= 0
                        defect = "ctor_neg_dim"
                    else:
                        dim = nb
                        if defect in ("dim_lo", "dim_m1"):
                            defect = "none"
                c = dict(base, flavour=rng.choice(FLAVOURS), multi=multi, defect=defect, query_size=qsz, key_size=ksz,
                         value_size=(D + 1 if defect == "v_size" else D) if multi else None,
                         dim=dim, q=q, k=k, v=v, m=m if (defect == "mask" or rng.random() < 0.8) else None,
                         seed=rng.randrange(1 << 30))
                out.append(c)
        return out

    # ---- argument spellings ----------------------------------------------------------------------------
    @staticmethod
    def _spell(c):
        """How the case SPELLS its constructor calls and its forward call (in place; drawn from the case's own
        seed, so that the streams of all other fields are what they were): every optional constructor argument
        omitted (possible when its value is the documented default) / positional / by keyword, the required ones
        positional or by keyword; the call with positional / keyword arguments, the mask omitted instead of None,
        through __call__ or forward."""
        if c["kind"] == "shape" or "ctor" in c:
            return c
        r = random.Random(c["seed"] ^ 0xC7012)

        def one(kind):
            # a positional prefix of random length (python: positional arguments come first), the rest omitted
            # (where the value is the documented default) or by keyword
            names = [n for n, _ in DOC_SIGNATURES[kind][1]]
            req = r.choice(["pos", "pos", "pos", "kw"])
            npos = r.randint(0, len(names)) if req == "pos" and r.random() < 0.5 else 0
            return {"req": req, **{n: "pos" if j < npos else r.choice(["omit", "omit", "kw"])
                                   for j, n in enumerate(names)},
                    **({"int_scale": True} if kind == "dot" and r.random() < 0.3 else {})}
        c["ctor"] = {"inner": one(c["flavour"])}
        if c["kind"] == "multi":
            c["ctor"]["outer"] = one("multi")
        c["call"] = {"how": r.choice(["pos", "pos", "kw", "mask_kw", "omit_mask", "omit_mask", "kw_omit_mask"]),
                     "entry": r.choice(["call", "call", "call", "forward"])}
        if c["flavour"] == "dot" and r.random() < (0.25 if c["kind"] == "multi" else 0.1):
            c["user"] = True   # a user-defined subclass of GlobalSoftAttention (see user_dot_class)
        return c

    def _spelling_cases(self, rng, tier):
        """OMITTED vs. DEFAULT vs. POSITIONAL vs. KEYWORD, enumerated: for every flavour, on its own and wrapped
        in MultiHeadedAttention, every optional constructor argument at its documented default value (dim = 0,
        scale_factor = 1, bias = False, hidden_size = 1000) x {omitted, positional, keyword}; for
        MultiHeadedAttention out_size / d_v x {omitted, None positional, None by keyword, the value the default
        stands for} and every bias flag x {omitted, False positional, False by keyword}.  The other arguments of
        the same call are spelled at random."""
        def force(c, which, arg, how):
            c["T"] = max(3, c["T"])   # not degenerate: a single position would hide every change of the scores
            self._spell(c)
            sp = c["ctor"][which]
            names = [n for n, _ in DOC_SIGNATURES[c["flavour"] if which == "inner" else "multi"][1]]
            if how == "pos":   # positional: everything before it must be positional, too
                sp["req"] = "pos"
                for n in names[:names.index(arg)]:
                    sp[n] = "pos"
            sp[arg] = how
            return c

        def at_default(c, arg):
            if arg == "scale_factor":
                c["scale"] = "1"
            elif arg == "bias":
                c["bias"] = False
            elif arg == "hidden_size":
                # the documented default width: saturating parameters in single precision (exact scores, see
                # flavour_params), any parameters in double precision
                c["hidden"] = 1000
                if rng.random() < 0.5:
                    c["dtype"] = "float64"
                    c["pmode"] = rng.choice(["int", "dyadic", "float"]) if c["kind"] == "single" else \
                        rng.choice(["dyadic", "float"])
                else:
                    c.pop("dtype", None)
                    c["pmode"] = "sat" if c["kind"] == "single" else "sat128"
            return c
        for flavour in FLAVOURS:
            for arg, _ in DOC_SIGNATURES[flavour][1]:
                for how in ("omit", "pos", "kw"):
                    # on its own (dim = 0: the sequence axis first)
                    n = rng.choice([2, 3, 3, 4])
                    nb = 0 if arg == "dim" else rng.randint(0, n - 2)
                    c = self._single(rng, flavour, n, nb, arg != "dim" and rng.random() < 0.3, tier)
                    c.pop("kT", None)
                    yield force(at_default(c, arg), "inner", arg, how)
                    # wrapped
                    flags = {k: rng.random() < 0.5 for k in ("wq", "wk", "wv", "wc")}
                    c = self._multi(rng, flavour, flags, rng.randint(1, 3), rng.random() < 0.5, tier,
                                    layout=rng.choice(["TB", "T"]) if arg == "dim" else None)
                    yield force(at_default(c, arg), "inner", arg, how)
        # a user-defined subclass of GlobalSoftAttention, on its own and wrapped (every scale of the generator)
        for scale in ("1", "1/2", "2"):
            n = rng.choice([2, 3, 3, 4])
            c = self._single(rng, "dot", n, rng.randint(0, n - 2), rng.random() < 0.3, tier)
            c.update({"scale": scale, "user": True, "T": max(3, c["T"])})
            c.pop("kT", None)
            yield c
            flags = {k: rng.random() < 0.5 for k in ("wq", "wk", "wv", "wc")}
            c = self._multi(rng, "dot", flags, rng.randint(1, 3), rng.random() < 0.5, tier)
            c.update({"scale": scale, "user": True, "T": max(3, c["T"]), "dq": 2, "dk": 2, "H": max(2, c["H"])})
            yield c
        for j, arg in enumerate(n for n, _ in DOC_SIGNATURES["multi"][1]):
            for how in ("omit", "pos", "kw", "value"):
                if how == "value" and not arg.endswith(("size", "d_v")):
                    continue
                flags = {k: rng.random() < 0.5 for k in ("wq", "wk", "wv", "wc")}
                c = self._multi(rng, FLAVOURS[(j + len(how)) % 3], flags, rng.randint(1, 3), rng.random() < 0.5, tier)
                c.pop("dv_default", None)
                c.pop("O_default", None)
                if arg in ("out_size", "d_v"):
                    key = "O_default" if arg == "out_size" else "dv_default"
                    if how == "value":
                        # the value the documented default stands for, passed explicitly
                        c["O" if arg == "out_size" else "dv"] = c["D"] if arg == "out_size" else max(1, c["D"] // c["H"])
                        how = rng.choice(["pos", "kw"])
                    else:
                        c[key] = True
                else:
                    c["flags"][{"bias_WQ": "wq", "bias_WK": "wk", "bias_WV": "wv", "bias_WC": "wc"}[arg]] = False
                yield force(c, "outer", arg, how)

    # ---- module life cycle -------------------------------------------------------------------------------
    @staticmethod
    def _life(c):
        """The LIFE of the module object the case's call belongs to (in place; drawn from the case's own seed, so
        that the streams of all other fields are what they were): the training mode and the grad context of the
        case's call; now and then a PAST (calls with the same tensor objects while the object held other
        parameters, then the case's parameters set in one of six ways, the arguments' contents now and then
        restored in place) and a FUTURE (parameter changes / in-place edits of the arguments, each followed by a
        call with the same tensor objects)."""
        if c["kind"] == "shape" or "life" in c:
            return c
        r = random.Random(c["seed"] ^ 0x11FE)
        mode, grad = r.choice(LIFE_MODES), r.choice(LIFE_GRADS)

        def combo():
            return [mode, grad] if r.random() < 0.6 else [r.choice(LIFE_MODES), r.choice(LIFE_GRADS)]
        life = {"mode": mode, "grad": grad}
        big = c["T"] > 128 or c.get("nomodel")
        if r.random() < (0.15 if big else 0.3):
            life["pre"] = {"calls": [combo() for _ in range(r.choice([1, 1, 2]))], "set": r.choice(PRE_SET_HOWS),
                           "inputs": r.choice([None, None, None] + list(INPUT_HOWS))}
        if r.random() < (0.15 if big else 0.4):
            post = [["call"] + combo()] if r.random() < 0.3 else []
            for _ in range(r.randint(1, 2 if big else 3)):
                x = r.random()
                post.append(["params", r.choice(PARAM_HOWS)] if x < 0.55 else
                            ["input", r.choice("qkvm"), r.choice(INPUT_HOWS)] if x < 0.85 else ["other"] + combo())
                post.append(["call"] + combo())
            life["post"] = post
        # (round h) calls of OTHER SHAPES (rank of the key, T, batch sizes, broadcasting pattern, mask mode) on the
        # same object, before and after the case's call (drawn last: the fields above stay what they were)
        if r.random() < (0.2 if big else 0.35):
            life["before"] = [combo() + [other_shape(r, c)] for _ in range(r.choice([1, 1, 2]))]
        if r.random() < (0.2 if big else 0.35):
            life.setdefault("post", []).extend([["shape"] + combo() + [other_shape(r, c)], ["call"] + combo()])
        c["life"] = life
        return c

    def _lifecycle_cases(self, rng, tier):
        """MODULE LIFE CYCLE, enumerated (every flavour on its own and wrapped in MultiHeadedAttention, T >= 3, a
        mask that removes something):
        (a) every {train, eval} x {grad, no_grad, inference_mode}: a past of one or two calls under the same
            combination, the case's parameters set in every one of the six ways (rotating), then the case's call, a
            parameter change and a call with the same tensor objects;
        (b) every way of changing the parameters (in place, .data, load_state_dict, load_state_dict(assign=True),
            reset_parameters, an SGD step, rebinding the attribute, requires_grad_(False)) under eval + no_grad and
            under one more combination: call, change, call, change, call;
        (c) every argument (query, key, value, mask) edited in place in every way (in-place operation, .data, a
            numpy alias) between two calls with the same tensor objects; a SECOND module object (other parameters)
            called with the same tensor objects in between."""
        combos = [(m_, g_) for m_ in LIFE_MODES for g_ in LIFE_GRADS]

        def base(kind, flavour):
            if kind == "single":
                n = rng.choice([2, 3, 3, 4])
                c = self._single(rng, flavour, n, rng.randint(0, n - 2), rng.random() < 0.3, tier, mask="some")
                c.pop("kT", None)
                c["mT"] = True
            else:
                flags = {k: rng.random() < 0.5 for k in ("wq", "wk", "wv", "wc")}
                c = self._multi(rng, flavour, flags, rng.randint(2, 3), rng.random() < 0.5, tier)
                c.update({"mask": "some", "dq": 2 if flavour == "dot" else c["dq"], "dk": 2})
            c["T"] = max(3, c["T"])
            return c
        j = rng.randrange(len(PRE_SET_HOWS))
        for kind in ("single", "multi"):
            for flavour in FLAVOURS:
                for mode, grad in combos:
                    c = base(kind, flavour)
                    j += 1
                    c["life"] = {"mode": mode, "grad": grad,
                                 "pre": {"calls": [[mode, grad]] * rng.choice([1, 2]),
                                         "set": PRE_SET_HOWS[j % len(PRE_SET_HOWS)],
                                         "inputs": rng.choice([None, None, "data", "numpy"])},
                                 "post": [["params", rng.choice(PARAM_HOWS)], ["call", mode, grad]]}
                    yield c
        for j, how in enumerate(PARAM_HOWS):
            for kind in ("single", "multi"):
                for mode, grad in (("eval", "no_grad"), rng.choice([x for x in combos if x != ("eval", "no_grad")])):
                    # (the dot-product flavour on its own has no parameters)
                    flavour = rng.choice(FLAVOURS[1:] if kind == "single" else FLAVOURS)
                    c = base(kind, flavour)
                    c["life"] = {"mode": mode, "grad": grad,
                                 "post": [["call", mode, grad], ["params", how], ["call", mode, grad],
                                          ["params", rng.choice(PARAM_HOWS)], ["call", mode, grad]]}
                    yield c
        for j, which in enumerate("qkvm"):
            for how in INPUT_HOWS:
                for kind in ("single", "multi"):
                    mode, grad = ("eval", "no_grad") if rng.random() < 0.5 else rng.choice(combos)
                    c = base(kind, rng.choice(FLAVOURS))
                    c["life"] = {"mode": mode, "grad": grad,
                                 "post": [["call", mode, grad], ["input", which, how], ["call", mode, grad],
                                          ["other", mode, grad] if how == "inplace" else
                                          ["input", rng.choice("qkvm"), rng.choice(INPUT_HOWS)],
                                          ["call"] + list(rng.choice(combos))]}
                    yield c
        # (d) (round h) ONE OBJECT, CALLS OF DIFFERENT SHAPES: every flavour x negative / non-negative dim x keys of
        #     3 and 4 axes (and wrapped in MultiHeadedAttention, whose dim is never negative): one or two calls of
        #     other shapes (mostly another RANK of the key: a negative dim leaves the number of leading axes free,
        #     a non-negative one the number of trailing axes) BEFORE the case's call, then the case's call, another
        #     shape, and the case's tensors again
        for kind in ("single", "multi"):
            for flavour in FLAVOURS:
                for neg in ((False, True) if kind == "single" else (False,)):
                    for n in (3, 4):
                        for rep in range(2):
                            if kind == "single":
                                nb = rng.randint(1, n - 2) if neg else rng.randint(0, n - 2)
                                c = self._single(rng, flavour, n, nb, neg, tier, mask="some")
                                c.pop("kT", None)
                                c["mT"] = True
                                c["T"] = max(2, c["T"])
                            else:
                                c = base(kind, flavour)
                            mode, grad = ("eval", "no_grad") if rep == 0 else rng.choice(combos)
                            c["life"] = {"mode": mode, "grad": grad,
                                         "before": [[mode, grad, other_shape(rng, c)]
                                                    for _ in range(rng.choice([1, 2]))],
                                         "post": [["shape", mode, grad, other_shape(rng, c)], ["call", mode, grad],
                                                  ["shape"] + list(rng.choice(combos)) + [other_shape(rng, c)],
                                                  ["call"] + list(rng.choice(combos))]}
                            yield c

    def cases(self, rng, tier):
        for c in self._cases(rng, tier):
            yield self._life(self._spell(c))

    def _cases(self, rng, tier):
        reps = {"quick": 1, "thorough": 8, "search": 4}[tier]
        # every legal sequence axis, both signs, every flavour
        for _ in range(reps):
            for flavour in FLAVOURS:
                for n in (2, 3, 4):
                    for nb in range(0, n - 1):
                        for neg in (False, True):
                            yield self._single(rng, flavour, n, nb, neg, tier)
                            yield self._single(rng, flavour, n, nb, neg, tier, mask="some")
        # multi-headed: all 16 flag combinations x batch==heads / != heads
        for _ in range(reps):
            for bits in itertools.product((False, True), repeat=4):
                flags = dict(zip(("wq", "wk", "wv", "wc"), bits))
                for batch_eq in (True, False):
                    flavour = rng.choice(FLAVOURS)
                    H = rng.randint(1, 3)
                    yield self._multi(rng, flavour, flags, H, batch_eq, tier)
                    yield self._multi(rng, flavour, flags, rng.randint(2, 3), batch_eq, tier, layout="TB")
        for c in self._shape_cases(rng, tier):
            yield c
        # who carries the sequence axis: key of size 1 there (with / without a mask of the full length)
        for _ in range(reps):
            for c in self._seq_axis_cases(rng, tier):
                yield c
        # large-magnitude stream: every flavour (single and as the heads of multi-headed attention) x
        # every mode x both dtypes, always with a mask that removes something
        for _ in range(reps):
            for flavour in FLAVOURS:
                for mode in ("offset", "opposed", "random", "extreme"):
                    for dtype in ("float32", "float64"):
                        for rep in range(2):
                            n = rng.choice([2, 3, 3, 4])
                            nb = rng.randint(0, n - 2)
                            c = self._single(rng, flavour, n, nb, rng.random() < 0.3, tier,
                                             mask="some" if rep == 0 else None)
                            yield self._extras(rng, c, tier, mode=mode, dtype=dtype, layout=None)
                        if mode != "extreme":
                            flags = {k: rng.random() < 0.5 for k in ("wq", "wk", "wv", "wc")}
                            c = self._multi(rng, flavour, flags, rng.randint(1, 3), rng.random() < 0.5, tier)
                            c["mask"] = "some"
                            yield self._extras(rng, c, tier, mode=mode, dtype=dtype, layout=None)
        # mixed dtypes between the arguments
        for _ in range(reps):
            for c in self._mixed_cases(rng, tier):
                yield c
        # argument spellings: omitted / default / positional / keyword, enumerated
        for _ in range(reps):
            for c in self._spelling_cases(rng, tier):
                yield c
        # module life cycle: one object, many calls, parameters / arguments changed in between
        for _ in range(reps):
            for c in self._lifecycle_cases(rng, tier):
                yield c
        # long sequences / long vectors
        for _ in range(2 * reps):
            for flavour in FLAVOURS:
                n = rng.choice([2, 3, 4])
                yield self._extras(rng, self._single(rng, flavour, n, rng.randint(0, n - 2), False, tier, wide=True),
                                   tier, layout=None)
        # size-triggered code paths
        for c in self._size_cases(rng, tier):
            yield c
        # free random stream
        n_free = {"quick": 500, "thorough": 5000, "search": 3000}[tier]
        modes = ("offset", "opposed", "random", "extreme")
        for _ in range(n_free):
            mode = rng.choice(modes) if rng.random() < 0.12 else None
            if rng.random() < 0.65:
                n = rng.choice([2, 3, 3, 4, 5])
                nb = rng.randint(0, n - 2)
                c = self._single(rng, rng.choice(FLAVOURS), n, nb, rng.random() < 0.4, tier)
            else:
                flags = {k: rng.random() < 0.5 for k in ("wq", "wk", "wv", "wc")}
                c = self._multi(rng, rng.choice(FLAVOURS), flags, rng.randint(1, 3), rng.random() < 0.5, tier)
                mode = None if mode == "extreme" else mode
            yield self._extras(rng, c, tier, mode=mode, layout=None)

    # ---------------------------------------------------------------- implementation side
    def run_impl(self, case):
        if case["kind"] == "shape":
            return self._run_shape(case)
        if case["kind"] == "single":
            return self._run_single(case)
        return self._run_multi(case)

    def _run_shape(self, case):
        import torch
        from pydrobert.torch.modules import (ConcatSoftAttention, DotProductSoftAttention,
                                             GeneralizedDotProductSoftAttention, MultiHeadedAttention)
        fl = case.get("flavour", "general")
        if fl == "dot" and case["key_size"] != case["query_size"]:
            fl = "general"  # DotProductSoftAttention has a single size
        q = torch.zeros(case["q"])
        k = torch.zeros(case["k"])
        v = torch.ones(case["v"])
        m = None if case["m"] is None else torch.ones(case["m"], dtype=torch.bool)
        # the constructors are spelled differently from case to case (omitted / positional / keyword optional
        # arguments; the arguments of this stream all have their documented defaults except dim and hidden_size)
        srng = random.Random(case["seed"] ^ 0xC7012)
        sp = {"req": srng.choice(["pos", "pos", "kw"]), "*": srng.choice(["omit", "omit", "pos", "kw"])}
        spo = {"req": srng.choice(["pos", "pos", "kw"]), "*": srng.choice(["omit", "omit", "pos", "kw"])}
        flp = ({"kind": "dot", "scale": 1.0} if fl == "dot" else {"kind": "general", "W": None, "b": None}
               if fl == "general" else {"kind": "concat", "W": None, "b": None, "v": [1.0, 1.0]})

        def bare(Q, K):
            cls = {"dot": DotProductSoftAttention, "general": GeneralizedDotProductSoftAttention,
                   "concat": ConcatSoftAttention}[fl]
            args, kwargs, _ = spell_args(fl, single_values(flp, Q, K, case["dim"]), sp)
            return cls(*args, **kwargs)
        if case["multi"]:
            inner = bare(1, 1)
            vals = {"query_size": case["query_size"], "key_size": case["key_size"],
                    "value_size": case["value_size"], "num_heads": 1, "single_head_attention": inner,
                    "out_size": None, "d_v": case["value_size"], "bias_WQ": False, "bias_WK": False,
                    "bias_WV": False, "bias_WC": False}
            args, kwargs, _ = spell_args("multi", vals, spo)
            try:
                mod = MultiHeadedAttention(*args, **kwargs)
            except ValueError:
                if case.get("defect") == "ctor_neg_dim":
                    return {"raised": "ValueError", "at": "constructor"}
                raise
            with torch.no_grad():
                mod.WV.weight.copy_(torch.eye(case["value_size"]))
                mod.WC.weight.copy_(torch.eye(case["value_size"]))
        else:
            mod = bare(case["query_size"], case["key_size"])
        # check_input called directly (the mask spelled like in the call): the same verdict as forward's
        how = srng.choice(CALL_HOWS)
        try:
            invoke(mod, {"how": how, "entry": "check_input"}, q, k, v, m)
            ci = None
        except Exception as e:  # noqa
            ci = type(e).__name__
        try:
            out = invoke(mod, {"how": how, "entry": srng.choice(["call", "call", "forward"])}, q, k, v, m)
        except (ValueError, RuntimeError, IndexError) as e:
            return {"raised": type(e).__name__, "check_input": ci}
        return {"shape": list(out.shape), "check_input": ci,
                "all_ones": bool(torch.allclose(out, torch.ones_like(out), atol=1e-5))}

    def _property_checks(self, case, mod, q, k, v, mask, out, convex):
        """Property-only predicates on the implementation. -> list of [what, signature]"""
        import torch
        fails = []
        rng = random.Random(case["seed"] ^ 0x5EED)
        i, ET, Eb, qf, kf, vf, mf = expand_all(case, q, k, v, mask)
        T = ET[i]
        A, P, _ = self._dtypes(case, mod, q, k, v)
        tol = case_tol(case, A, P)
        scale = max(1.0, float(v.to(torch.float64).abs().max())) if v.numel() else 1.0
        if case["kind"] == "multi":
            # the output is a projection of the heads; scale by the largest |W| row sums involved
            scale = max(1.0, float(out.to(torch.float64).abs().max())) if out.numel() else 1.0
        D = out.shape[-1] if out.dim() else 0
        expected = Eb + [eff_dims(case)[1] if case["kind"] == "multi" else v.shape[-1]]
        if list(out.shape) != expected:
            fails.append([f"output shape {list(out.shape)} != broadcast batch shape + value size {expected}",
                          "C20.shape"])
            return fails
        if not torch.isfinite(out).all():
            fails.append(["non-finite output on finite inputs with >= 1 kept position", "C20.nonfinite"])
            return fails
        # the call is a pure function of its arguments: grad mode / training flag change nothing,
        # the arguments are not written to
        before = [None if x is None else x.clone() for x in (q, k, v, mask)]
        life = case.get("life") or LEGACY_LIFE
        try:
            with torch.enable_grad():
                qg = q.clone().requires_grad_(True) if q.dtype.is_floating_point else q.clone()
                og = mod(qg, k, v, mask).detach()
            if not torch.equal(og, out):
                fails.append(["output depends on the grad mode (a query that requires a gradient, grad enabled)",
                              "C20.mode"])
            # the same tensor objects under every {train, eval} x {grad, no_grad, inference_mode} (long sequences:
            # three of the six, the case's own combination always among them)
            combos = [(m_, g_) for m_ in LIFE_MODES for g_ in LIFE_GRADS]
            if T > 128:
                combos = [(life["mode"], life["grad"])] + rng.sample(combos, 2)
            for m_, g_ in combos:
                om = life_call(mod, case, m_, g_, q, k, v, mask).detach()
                if not torch.equal(om, out):
                    fails.append([f"output depends on the grad mode / the training flag: module.{m_}(), {g_} "
                                  f"differs from the case's call (module.{life['mode']}(), {life['grad']}; max "
                                  f"|diff| = {float((om.to(torch.float64) - out.to(torch.float64)).abs().max()):.3g})",
                                  "C20.mode"])
                    break
        except Exception as e:  # noqa
            fails.append([f"call with grad enabled / in eval mode raised {type(e).__name__}: {e}"[:200], "C20.mode"])
        finally:
            mod.train(life["mode"] == "train")
        if any(b is not None and not torch.equal(a, b) for a, b in zip((q, k, v, mask), before)):
            fails.append(["the call modified one of its arguments in place", "C20.inplace"])
        # implicit broadcasting == explicit expansion
        try:
            out_e = mod(qf, kf, vf, mf)
            d = close(out, out_e, scale, tol)
            if d:
                fails.append([f"implicit broadcasting differs from explicit expansion ({d})", "C20.broadcast"])
        except Exception as e:  # noqa
            fails.append([f"explicitly expanded call raised {type(e).__name__}: {e}"[:200], "C20.broadcast"])
            return fails
        # no mask == all-true mask (not when the mask is the only argument that carries the sequence axis: the
        # call without it is outside the documented shapes, see seq_carried)
        if mask is None or (bool(mask.all()) and seq_carried(case, q, k, v, None)):
            try:
                alt = mod(q, k, v, None if mask is not None else torch.ones(ET, dtype=torch.bool))
                # an explicit all-true mask may have a larger shape than the other arguments
                d = close(out.broadcast_to(torch.broadcast_shapes(out.shape, alt.shape)),
                          alt.broadcast_to(torch.broadcast_shapes(out.shape, alt.shape)), scale, tol)
                if d:
                    fails.append([f"no mask differs from an all-true mask ({d})", "C20.nomask"])
            except Exception as e:  # noqa
                fails.append([f"all-true/absent mask call raised {type(e).__name__}", "C20.nomask"])
        mfull = mf if mf is not None else torch.ones(ET, dtype=torch.bool)
        # convexity: every output coordinate within [min, max] of the kept values
        if convex:
            keep = mfull.unsqueeze(-1).expand_as(vf)
            vd, od = vf.to(torch.float64), out.to(torch.float64)  # exact conversions (any dtype)
            lo = torch.where(keep, vd, torch.full_like(vd, float("inf"))).amin(i)
            hi = torch.where(keep, vd, torch.full_like(vd, float("-inf"))).amax(i)
            bad = (od < lo - tol * scale) | (od > hi + tol * scale)
            if bool(bad.any()):
                j = int(bad.reshape(-1).nonzero()[0])
                fails.append([f"output coordinate {float(out.reshape(-1)[j])!r} outside [min, max] = "
                              f"[{float(lo.reshape(-1)[j])}, {float(hi.reshape(-1)[j])}] of the kept values",
                              "C20.convex"])
        # mixed dtypes: the result equals the result for the same values stored in the dtype torch's type
        # promotion gives for weights * value (that conversion is exact; the weights do not depend on the
        # values), to the precision of that dtype
        if v.dtype != P:
            try:
                out_p = mod(q, k, v.to(P), mask)
                d = close(out, out_p, 1.0, (T + 2) * float(torch.finfo(P).eps) * scale)
                if d:
                    fails.append([f"values of dtype {v.dtype}, weights of dtype {A}: result "
                                  f"{out.reshape(-1).tolist()[:6]} ({out.dtype}) differs from the result for the "
                                  f"same values stored as {P}, {out_p.reshape(-1).tolist()[:6]} ({d})",
                                  "C20.mixed_dtype"])
            except Exception as e:  # noqa
                fails.append([f"call with the values converted to {P} raised {type(e).__name__}: {e}"[:200],
                              "C20.mixed_dtype"])
        # blindness: masked keys / values replaced by random finite values
        if not bool(mfull.all()):
            for trial in range(3):
                # ordinary, large, huge (finite) replacements; last: keys so large that the scores at the
                # masked positions overflow (inf, or nan = inf - inf) before they are masked
                big = 10.0 ** (rng.choice([0, 1, 3]) if trial == 0 else rng.choice([3, 30]))
                kr = _rand_like(rng, kf, big)
                # (finite also after the conversion to the dtype of the result: 0 * inf = nan)
                vr = _rand_like(rng, vf, min(big * 10, float(torch.finfo(P).max) / 4))
                if trial == 2:
                    kr = _top_like(rng, kf)
                k2 = torch.where(mfull.unsqueeze(-1), kf, kr)
                v2 = torch.where(mfull.unsqueeze(-1), vf, vr)
                try:
                    o2 = mod(qf, k2, v2, mfull)
                    d = None if torch.equal(o2, out_e) else close(o2, out_e, scale * 0.1, tol)
                    if d:
                        fails.append([f"output changes when masked keys/values are replaced ({d})", "C20.blind"])
                        break
                except Exception as e:  # noqa
                    fails.append([f"call with replaced masked contents raised {type(e).__name__}", "C20.blind"])
                    break
        # permutation of the sequence positions
        if T >= 2:
            perm = list(range(T))
            rng.shuffle(perm)
            perms = [("the permutation", perm)]
            if T > 8:
                # long sequences: also the reversal, a rotation (the last positions come first) and the
                # exchange of the first and the last block
                r = rng.randrange(1, T)
                b = min(rng.choice([32, 64, 128]), T // 2)
                perms += [("the reversal", list(range(T - 1, -1, -1))),
                          (f"the rotation by {r}", list(range(r, T)) + list(range(r))),
                          (f"the exchange of the first and the last {b} positions",
                           list(range(T - b, T)) + list(range(b, T - b)) + list(range(b)))]
            for name, perm in perms:
                idx = torch.tensor(perm)
                try:
                    o3 = mod(qf, kf.index_select(i, idx), vf.index_select(i, idx), mfull.index_select(i, idx))
                    d = close(o3, out_e, scale, tol)
                    if d:
                        fails.append([f"output changes under {name} "
                                      f"{perm if T <= 16 else str(perm[:8])[:-1] + ', ...]'} of the positions ({d})",
                                      "C20.perm"])
                        break
                except Exception as e:  # noqa
                    fails.append([f"permuted call raised {type(e).__name__}", "C20.perm"])
                    break
        return fails

    def _spelling_checks(self, case, params, mod, q, k, v, mask, out):
        """ARGUMENT SPELLINGS change nothing: (a) the call with positional / keyword arguments, the mask omitted
        instead of passed as None, through __call__ / forward; (b) the module built with every optional
        constructor argument passed by keyword / positionally (documented order) / omitted wherever it has its
        documented default value / with out_size and d_v given as the values their defaults stand for; (c) a
        deep copy of the module.  Each must return what the case's own spelling returned."""
        import copy
        import torch
        fails = []
        if not torch.isfinite(out.to(torch.float64)).all():
            return fails
        A, P, _ = self._dtypes(case, mod, q, k, v)
        tol = case_tol(case, A, P)
        scale = max(1.0, float(out.to(torch.float64).abs().max())) if out.numel() else 1.0
        main = case.get("call") or {}
        for how in CALL_HOWS:
            if "omit" in how and mask is not None and how != "kw_omit_mask":
                continue
            for entry in ("call", "forward"):
                if (how, entry) == (main.get("how", "pos"), main.get("entry", "call")):
                    continue
                desc = {"pos": "positional arguments", "kw": "keyword arguments query=, key=, value=, mask=",
                        "mask_kw": "mask= by keyword", "omit_mask": "the mask omitted (not passed as None)",
                        "kw_omit_mask": "keyword arguments in another order" if mask is not None else
                        "keyword arguments, the mask omitted"}[how] + (" through forward()" if entry == "forward" else "")
                try:
                    d = same_output(invoke(mod, {"how": how, "entry": entry}, q, k, v, mask), out, scale, tol)
                except Exception as e:  # noqa
                    d = f"raised {type(e).__name__}: {e}"[:160]
                if d:
                    fails.append([f"the same call spelled with {desc} differs from the call as the case spells it "
                                  f"({main or 'positional, __call__'}): {d}", "C20.call"])
                    break
            if fails:
                break
        # check_input called directly (its mask is optional, too): a call forward accepts must pass, whatever
        # the spelling, and return nothing
        for how in CALL_HOWS:
            if "omit" in how and mask is not None and how != "kw_omit_mask":
                continue
            try:
                r = invoke(mod, {"how": how, "entry": "check_input"}, q, k, v, mask)
                d = None if r is None else f"returned {type(r).__name__}"
            except Exception as e:  # noqa
                d = f"raised {type(e).__name__}: {e}"[:160]
            if d:
                fails.append([f"check_input called directly ({how}) on a call forward accepts: {d}", "C20.check_input"])
                break
        alts = []
        if case["kind"] == "single":
            for name, sp, explicit in CTOR_ALTERNATIVES[:3]:
                alts.append((name, lambda sp=sp: make_single(params, case["Q"], case["K"], case["dim"],
                                                             _tdtype(case), sp)))
        else:
            for name, sp, explicit in CTOR_ALTERNATIVES:
                alts.append((name, lambda sp=sp, ex=explicit: make_multi(case, params, sp, sp, ex)))
            alts.append(("the wrapped module built with its default-valued arguments omitted, the multi-headed one "
                         "with every argument by keyword", lambda: make_multi(case, params, MINIMAL, ALL_KW)))
        alts.append(("a deep copy of the module", lambda: copy.deepcopy(mod)))
        for name, build in alts:
            try:
                d = same_output(build()(q, k, v, mask), out, scale, tol)
            except Exception as e:  # noqa
                d = f"raised {type(e).__name__}: {e}"[:160]
            if d:
                spelled = effective_spelling(case)
                fails.append([f"module built with {name} differs from the module as the case builds it "
                              f"(spelling {spelled}): {d}", "C20.ctor"])
                break
        return fails

    # ---- module life cycle ------------------------------------------------------------------------------
    def _judge_call(self, case, params, mod, mode, grad, q, k, v, mask, what, tol):
        """One call of the module's life -> (result or None, complaint or None): the result must be what a
        FRESHLY CONSTRUCTED module with the current parameters returns on fresh copies of the current contents
        of the arguments (bit for bit; else within the case tolerance, relative to the size of the result)."""
        import torch
        where = f"{what} [module.{mode}(), {grad}]"
        try:
            o = life_call(mod, case, mode, grad, q, k, v, mask)
        except Exception as e:  # noqa
            return None, f"{where} raised {type(e).__name__}: {e}"[:300]
        with torch.no_grad():
            ref = fresh_module(case, params, mod)(*fresh_copies(q, k, v, mask))
            r64 = ref.to(torch.float64)
            if not bool(torch.isfinite(r64).all()):
                return o, None   # the changed parameters / contents overflow: outside the quantifier
            scale = max(1.0, float(r64.abs().max())) if ref.numel() else 1.0
            d = same_output(o.detach(), ref, scale, tol)
        if d:
            return o, (f"{where} differs from the call of a freshly constructed module that was given the "
                       f"current parameters (state_dict) on fresh copies of the current arguments: {d}; "
                       f"got {o.detach().reshape(-1).tolist()[:4]}, fresh {ref.reshape(-1).tolist()[:4]}")
        return o, None

    def _shape_call(self, case, params, mod, mode, grad, spec, what):
        """A call of ANOTHER SHAPE (other rank of the key, other T, other batch sizes / broadcasting pattern / mask
        mode: shape spec, see other_shape) on the case's module object -> complaint or None.  Judged (a) as the
        call of a freshly constructed module with the current parameters (_judge_call), (b) on its own: the
        documented result shape, and -- a single attention -- every coordinate of every result inside the
        interval of the values KEPT along the key axis `dim` (convex combination along the documented axis)."""
        import torch
        s = shape_case(case, spec)
        q, k, v, mask, _ = make_inputs(s)
        A, P, _ = self._dtypes(s, mod, q, k, v)
        tol = case_tol(s, A, P)
        o, d = self._judge_call(case, params, mod, mode, grad, q, k, v, mask,
                                f"{what}: a call of ANOTHER SHAPE on the same object, {shape_text(case, spec)}", tol)
        if d or o is None:
            return d
        with torch.no_grad():
            o = o.detach().clone()
            i, ET, Eb = geometry(s, q, k, v, mask)
            expected = Eb + [eff_dims(case)[1] if case["kind"] == "multi" else v.shape[-1]]
            where = f"{what}: a call of ANOTHER SHAPE on the same object, {shape_text(case, spec)},"
            if list(o.shape) != expected:
                return f"{where} returned shape {list(o.shape)}, documented {expected}"
            o64 = o.to(torch.float64)
            if case["kind"] == "single" and bool(torch.isfinite(o64).all()):
                vf = v.to(torch.float64).broadcast_to(ET + [v.shape[-1]])
                mf = (mask if mask is not None else torch.ones(ET, dtype=torch.bool)).broadcast_to(ET).unsqueeze(-1)
                lo = vf.masked_fill(~mf, float("inf")).min(i)[0]
                hi = vf.masked_fill(~mf, -float("inf")).max(i)[0]
                slack = tol * max(1.0, float(vf.abs().max()))
                if bool(((o64 < lo - slack) | (o64 > hi + slack)).any()):
                    return (f"{where} is not a convex combination of the kept values along key axis {case['dim']}: "
                            f"a coordinate of the result lies outside the interval of the kept values")
        return None

    def _pre_history(self, case, params, mod, q, k, v, mask):
        """THE OBJECT HAS A PAST when the case's call is made: it held OTHER parameters (and the argument tensors
        other contents), was called with the very tensor objects of the case's call, and was then given the case's
        parameters (load_state_dict / in-place copy_ / .data / reset_parameters + load_state_dict / assign=True /
        rebinding the attributes) and the arguments their contents (in place / .data / numpy alias).  The case's
        call -- the one the Lean model and every predicate judge -- comes after that.  -> complaints about the
        calls of the past (each judged against a fresh module, see _judge_call)."""
        import torch
        life = case.get("life") or LEGACY_LIFE
        mod.train(life["mode"] == "train")
        pre = life.get("pre")
        fails = []
        # calls of OTHER SHAPES before anything else: the first shapes the object ever sees are not the case's
        for n, (mode, grad, spec) in enumerate(life.get("before") or []):
            d = self._shape_call(case, params, mod, mode, grad, spec, f"life of one module object: call {n + 1} "
                                 f"of its past")
            if d:
                fails.append([d, "C20.lifecycle"])
                break
        if not pre:
            return fails
        A, P, _ = self._dtypes(case, mod, q, k, v)
        tol = case_tol(case, A, P)
        target = {n: p.detach().clone() for n, p in mod.named_parameters()}
        with torch.no_grad():
            for p in mod.parameters():
                p.mul_(-0.5).add_(0.25)
        edited = []
        if pre.get("inputs") and case.get("layout") != "expanded":
            for name, x in (("q", q), ("k", k), ("v", v), ("m", mask)):
                if x is None or (name == "v" and v is k):
                    continue
                edit_tensor(x, "inplace", mask_seq_axis(case, k, x) if name == "m" else None)
                edited.append((name, x))
        for n, (mode, grad) in enumerate(pre["calls"]):
            _, d = self._judge_call(case, params, mod, mode, grad, q, k, v, mask,
                                    f"life of one module object: call {n + 1} of its past (other parameters"
                                    f"{', other contents of the argument tensors' if edited else ''})", tol)
            if d:
                fails.append([d, "C20.lifecycle"])
                break
        restore_parameters(mod, target, pre["set"], case)
        for name, x in edited:
            edit_tensor(x, pre["inputs"], mask_seq_axis(case, k, x) if name == "m" else None)
        return fails

    def _life_checks(self, case, params, mod, q, k, v, mask, held):
        """THE LIFE GOES ON after the case's call: repeated calls with the same tensor objects under {train, eval}
        x {grad, no_grad, inference_mode}, the parameters changed between them, the arguments edited in place
        between them; every call judged against a fresh module (see _judge_call).  At the end every result that
        was returned earlier (`held`: result, copy made when it was returned, label) must still be what it was:
        results do not share memory with later calls."""
        import torch
        fails = []
        life = case.get("life") or LEGACY_LIFE
        steps = life.get("post") or []
        rng = random.Random(case["seed"] ^ 0x11FE5)
        A, P, _ = self._dtypes(case, mod, q, k, v)
        tol = case_tol(case, A, P)
        done = []
        ncall = 0
        for st in steps:
            if st[0] == "call":
                ncall += 1
                o, d = self._judge_call(case, params, mod, st[1], st[2], q, k, v, mask,
                                        f"life of one module object: call {ncall} after the case's call with the "
                                        f"SAME tensor objects (since then: {'; '.join(done) or 'nothing changed'})", tol)
                if d:
                    fails.append([d, "C20.lifecycle"])
                    break
                if o is not None:
                    held.append((o, o.detach().clone(), f"call {ncall} after the case's call"))
            elif st[0] == "shape":
                d = self._shape_call(case, params, mod, st[1], st[2], st[3], "life of one module object: after the "
                                     f"case's call (since then: {'; '.join(done) or 'nothing changed'})")
                if d:
                    fails.append([d, "C20.lifecycle"])
                    break
                done.append(f"a call of another shape ({shape_text(case, st[3])})")
            elif st[0] == "other":
                # a SECOND module object (same construction, other parameters) is called with the same tensor
                # objects in between: nothing is shared between module objects
                with torch.no_grad():
                    om = fresh_module(case, params, mod)
                    change_parameters(om, "inplace", case, q, k, v, mask, rng)
                _, d = self._judge_call(case, params, om, st[1], st[2], q, k, v, mask,
                                        "life of one module object: a SECOND module object (other parameters) called "
                                        "with the same tensor objects", tol)
                if d:
                    fails.append([d, "C20.lifecycle"])
                    break
                done.append("a second module object with other parameters called with the same tensor objects")
            elif st[0] == "params":
                try:
                    desc = change_parameters(mod, st[1], case, q, k, v, mask, rng)
                except Exception as e:  # noqa
                    fails.append([f"life of one module object: changing the parameters ({st[1]}) raised "
                                  f"{type(e).__name__}: {e}"[:300], "C20.lifecycle"])
                    break
                if desc:
                    done.append(desc)
            else:
                x = {"q": q, "k": k, "v": v, "m": mask}[st[1]]
                if x is None or case.get("layout") == "expanded":
                    continue
                how = edit_tensor(x, st[2], mask_seq_axis(case, k, x) if st[1] == "m" else None)
                done.append(f"{ {'q': 'query', 'k': 'key', 'v': 'value', 'm': 'mask'}[st[1]] } edited in place "
                            f"({ {'inplace': 'in-place operation', 'data': 'through .data', 'numpy': 'through a numpy alias'}[how] })")
        with torch.no_grad():
            for t, c, label in held:
                same = t.shape == c.shape and bool(((t == c) | ((t != t) & (c != c))).all())
                if not same:
                    fails.append([f"life of one module object: the result of {label} changed AFTER it was returned "
                                  f"(it shares memory with a later call): now {t.reshape(-1).tolist()[:4]}, when "
                                  f"returned {c.reshape(-1).tolist()[:4]}", "C20.lifecycle"])
                    break
        return fails

    def _dtypes(self, case, mod, q, k, v):
        """(A, P, legal) by torch's promotion rules; for a call outside those rules that was accepted all the
        same (only a changed implementation does that) the dtypes the implementation shows"""
        import torch
        A, P, legal = expected_dtypes(case)
        if not legal:
            with torch.no_grad():
                A = mod.score(q, k).dtype
            P = torch.promote_types(A, v.dtype)
        return A, P, legal

    def _run_single(self, case):
        import torch
        q, k, v, mask, params = make_inputs(case)
        mod = make_single(params, case["Q"], case["K"], case["dim"], _tdtype(case), case_spelling(case, "inner"))
        store = []
        if not case.get("kT", True) and not seq_carried(case, q, k, v, mask):
            return seq_axis_observation(case, mod, q, k, v, mask)
        life = case.get("life") or LEGACY_LIFE
        legal = not case.get("mixed") or expected_dtypes(case)[2]
        with torch.no_grad():
            # the object's past (other parameters, calls with these very tensor objects), then the case's call
            # in the case's training mode / grad context
            pre_fails = self._pre_history(case, params, mod, q, k, v, mask) if legal else []
            try:
                with capture_softmax(store):
                    raw = life_call(mod, case, life["mode"], life["grad"], q, k, v, mask)
            except (RuntimeError, TypeError) as exc:
                if not legal:
                    # dtypes that torch's own operations do not combine: outside the domain of the property
                    return {"rejected": type(exc).__name__, "checks": []}
                raise
            out = raw.detach().clone()   # (an ordinary tensor also when the call was made in inference mode)
            held = [(raw, out.clone(), "the case's call")]
            store[:] = [s_.detach() for s_ in store]
            A, P, _ = self._dtypes(case, mod, q, k, v)
            e = mod.score(q, k)
            i, ET, Eb, qf, kf, vf, mf = expand_all(case, q, k, v, mask)
            obs = {"shape": list(out.shape), "checks": [], "ctor": observed_ctor(mod),
                   "dtypes": {"weights": str(e.dtype), "out": str(out.dtype)}}
            obs["checks"] = pre_fails + self._property_checks(case, mod, q, k, v, mask, out, convex=True)
            T = ET[i]
            if mf is not None and not bool(mf.all()) and list(out.shape) == Eb + [v.shape[-1]] \
                    and v.dtype.is_floating_point:
                # the finiteness restriction of C20_blind, observed: an infinite value at a masked
                # position meets the weight 0 and gives nan (not a failure: outside the quantifier)
                v_inf = torch.where(mf.unsqueeze(-1), vf, torch.full_like(vf, float("inf")))
                obs["inf_masked_value_gives_nan"] = bool(torch.isnan(mod(qf, kf, v_inf, mf)).any())
            lists = not case.get("nomodel")   # exact lists of numbers are only needed for the model comparison
            if list(out.shape) == Eb + [v.shape[-1]] and lists:
                obs["out"] = tl2(out.reshape(-1, out.shape[-1]))
            ok_shape = len(store) == 1 and e.dim() == len(ET)
            try:
                ee = e.broadcast_to(ET).movedim(i, -1).reshape(-1, T)
                if lists:
                    obs["scores"] = tl2(ee)
            except RuntimeError:
                obs["checks"].append([f"score() shape {list(e.shape)} does not broadcast to {ET}", "C20.shape"])
            if ok_shape:
                try:
                    a = store[0]
                    aa = a.broadcast_to(ET).movedim(i, -1).reshape(-1, T)
                    if lists:
                        obs["weights"] = tl2(aa)
                    mm = (mf if mf is not None else torch.ones(ET, dtype=torch.bool)).movedim(i, -1).reshape(-1, T)
                    if bool((aa < 0).any()):
                        obs["checks"].append(["negative attention weight", "C20.weights"])
                    if bool((aa.masked_select(~mm) != 0).any()):
                        obs["checks"].append(["non-zero attention weight on a masked position", "C20.weights"])
                    s = aa.to(torch.float64).sum(-1)
                    if bool(((s - 1).abs() > max(TOL, 2 * _heps(A))).any()):
                        obs["checks"].append([f"attention weights sum to {s.tolist()} over the sequence axis, not 1",
                                              "C20.weights"])
                    # the result IS the convex combination under these weights (C20_convex_of_weights)
                    if list(out.shape) == Eb + [v.shape[-1]]:
                        d = wsum_diff(a.broadcast_to(ET), vf, out, i, T, P)
                        if d:
                            obs["checks"].append([f"result is not the weighted sum of the values under the softmax "
                                                  f"weights: {d}", "C20.wsum"])
                        # ... and the mixture of the attentions over consecutive blocks of the sequence, for a
                        # random split (C20_split_merge): an implementation that works block by block must agree
                        # with the one-shot result, whatever the blocks
                        if T >= 2 and not obs["checks"]:
                            srng = random.Random(case["seed"] ^ 0xB10C)
                            cuts = split_points(srng, T)
                            mfull = mf if mf is not None else torch.ones(ET, dtype=torch.bool)
                            vmax = max(1.0, float(vf.to(torch.float64).abs().max())) if vf.numel() else 1.0
                            stol = max(case_tol(case, A, P), (T + 2) * float(torch.finfo(P).eps)) * vmax
                            try:
                                d = split_diff(mod, a.broadcast_to(ET), qf, kf, vf, mfull, mod(qf, kf, vf, mfull), i,
                                               cuts, stol)
                            except Exception as exc:  # noqa
                                d = f"call on a block raised {type(exc).__name__}: {exc}"[:200]
                            if d:
                                obs["checks"].append([f"attention over the whole sequence is not the mixture of the "
                                                      f"attentions over the consecutive blocks cut at "
                                                      f"{cuts[1:-1] if len(cuts) <= 12 else str(cuts[1:9])[:-1] + ', ...]'}"
                                                      f": {d}", "C20.split"])
                except RuntimeError:
                    obs["checks"].append([f"softmax output shape {list(store[0].shape)} does not broadcast to {ET}",
                                          "C20.shape"])
            obs["checks"] += self._spelling_checks(case, params, mod, q, k, v, mask, out)
            # last (it changes the parameters and the arguments): the rest of the object's life
            obs["checks"] += self._life_checks(case, params, mod, q, k, v, mask, held)
        return obs

    def _run_multi(self, case):
        import torch
        q, k, v, mask, params = make_inputs(case)
        mod = make_multi(case, params)
        H, dq, dk, dv = params["H"], params["dq"], params["dk"], params["dv"]
        O = eff_dims(case)[1]
        obs = {"has_bias": {n: getattr(mod, "W" + n.upper()[1]).bias is not None for n in ("wq", "wk", "wv", "wc")},
               "checks": [], "ctor": observed_ctor(mod)}
        if [mod.d_v, mod.out_size] != [dv, O]:
            obs["checks"].append([f"d_v, out_size = {[mod.d_v, mod.out_size]}, documented {[dv, O]} "
                                  f"(defaults: max(1, value_size // num_heads), value_size)", "C20.multihead.defaults"])
            return obs
        if not case.get("kT", True) and not seq_carried(case, q, k, v, mask):
            return {**obs, **seq_axis_observation(case, mod, q, k, v, mask)}
        store, inner_io = [], []
        hook = mod.single_head_attention.register_forward_hook(
            lambda m_, a, o: inner_io.append((a, o)))
        life = case.get("life") or LEGACY_LIFE
        with torch.no_grad():
            try:
                pre_fails = self._pre_history(case, params, mod, q, k, v, mask)
                del store[:], inner_io[:]   # what the calls of the past left behind
                with capture_softmax(store):
                    raw = life_call(mod, case, life["mode"], life["grad"], q, k, v, mask)
            finally:
                hook.remove()
            out = raw.detach().clone()   # (an ordinary tensor also when the call was made in inference mode)
            held = [(raw, out.clone(), "the case's call")]
            store[:] = [s_.detach() for s_ in store]
            inner_io[:] = [(tuple(x.detach() if torch.is_tensor(x) else x for x in a_), o_.detach())
                           for a_, o_ in inner_io]
            obs["shape"] = list(out.shape)
            obs["checks"] = pre_fails + self._property_checks(case, mod, q, k, v, mask, out, convex=False)
            i, ET, Eb, qf, kf, vf, mf = expand_all(case, q, k, v, mask)
            mfull = mf if mf is not None else torch.ones(ET, dtype=torch.bool)
            # the heads: weights (softmax output, shape (E*, T, F*, H)) and head outputs
            if len(store) == 1 and len(inner_io) == 1 and list(out.shape) == Eb + [O]:
                try:
                    a = store[0].broadcast_to(ET + [H])
                    mh = mfull.unsqueeze(-1).expand(ET + [H])
                    if bool((a < 0).any()):
                        obs["checks"].append(["negative attention weight (heads)", "C20.weights"])
                    if bool((a.masked_select(~mh) != 0).any()):
                        obs["checks"].append(["non-zero attention weight of some head on a masked position",
                                              "C20.weights"])
                    sm = a.sum(i)
                    if bool(((sm - 1).abs() > TOL).any()):
                        obs["checks"].append([f"attention weights of some head sum to "
                                              f"{sm.reshape(-1)[int(((sm - 1).abs() > TOL).reshape(-1).nonzero()[0])]!r}"
                                              f" over the sequence axis, not 1", "C20.weights"])
                    (args, oh) = inner_io[0]
                    vh = args[2].broadcast_to(ET + [H, dv])
                    keep = mh.unsqueeze(-1).expand_as(vh)
                    lo = torch.where(keep, vh, torch.full_like(vh, float("inf"))).amin(i)
                    hi = torch.where(keep, vh, torch.full_like(vh, float("-inf"))).amax(i)
                    tolh = TOL * max(1.0, float(vh.abs().max()))
                    oh = oh.broadcast_to(lo.shape)
                    d = wsum_diff(a, vh, oh, i, ET[i], expected_dtypes(case)[1])
                    if d:
                        obs["checks"].append([f"head output is not the weighted sum of the head's values under the "
                                              f"softmax weights: {d}", "C20.wsum"])
                    bad = (oh < lo - tolh) | (oh > hi + tolh)
                    if bool(bad.any()):
                        j = int(bad.reshape(-1).nonzero()[0])
                        obs["checks"].append([f"head output coordinate {float(oh.reshape(-1)[j])!r} outside "
                                              f"[min, max] = [{float(lo.reshape(-1)[j])}, {float(hi.reshape(-1)[j])}]"
                                              f" of the head's kept values", "C20.convex"])
                except RuntimeError as e:
                    obs["checks"].append([f"head tensors do not have the documented shapes: {e}"[:200], "C20.shape"])
            if list(out.shape) == Eb + [O]:
                obs["out"] = tl2(out.reshape(-1, out.shape[-1]))
                # composition from the module's own parameters, one head at a time, SAME mask for every head
                sha = mod.single_head_attention

                def lin(x, L, lo, hi):
                    y = x @ L.weight[lo:hi].T
                    return y if L.bias is None else y + L.bias[lo:hi]
                heads = []
                for h in range(H):
                    heads.append(sha(lin(q, mod.WQ, h * dq, (h + 1) * dq), lin(k, mod.WK, h * dk, (h + 1) * dk),
                                     lin(v, mod.WV, h * dv, (h + 1) * dv), mask))
                exp = mod.WC(torch.cat(heads, -1))
                scale = max(1.0, float(exp.abs().max()))
                d = close(out, exp, scale)
                if d:
                    obs["checks"].append([f"multi-headed output differs from project -> per-head attention with the "
                                          f"shared mask -> concat -> project ({d}); the per-head attention is the "
                                          f"module's own single_head_attention ({type(sha).__name__}, "
                                          f"{sha.extra_repr()}), called on each head slice", "C20.multihead.compose"])
            obs["checks"] += self._spelling_checks(case, params, mod, q, k, v, mask, out)
            # last (it changes the parameters and the arguments): the rest of the object's life
            obs["checks"] += self._life_checks(case, params, mod, q, k, v, mask, held)
        for n, want in case["flags"].items():
            if obs["has_bias"][n] != want:
                obs["checks"].append([f"bias on {n.upper()[0]}^{n.upper()[1]}: requested {want}, "
                                      f"module has {obs['has_bias'][n]}", f"C20.multihead.bias.{n}"])
        return obs

    # ---------------------------------------------------------------- model side
    def model_request(self, case):
        if case["kind"] == "shape" and case.get("defect") == "ctor_neg_dim":
            return None   # the constructor refuses: there is no call to model
        if case["kind"] == "shape":
            return {"op": "c20.shape", "case": {
                "query_size": case["query_size"], "key_size": case["key_size"], "value_size": case["value_size"],
                "dim": case["dim"], "q": case["q"], "k": case["k"], "v": case["v"], "mask": case["m"]}}
        if case.get("nomodel"):
            return None  # huge call: property predicates only (see _sized_single)
        import torch
        q, k, v, mask, params = make_inputs(case)
        if (case.get("mixed") or {}).get("m", "bool") != "bool":
            return None  # a mask that is not bool: rejected by masked_fill, nothing to model
        if not case.get("kT", True) and not seq_carried(case, q, k, v, mask):
            return None  # the scores do not carry the sequence axis: outside the tensor-level model's guard
        # the model sees the exact contents (every dtype converts exactly to double)
        q, k, v = q.to(torch.float64), k.to(torch.float64), v.to(torch.float64)
        i, ET, Eb, qf, kf, vf, mf = expand_all(case, q, k, v, mask)
        qq, kk, vv, mm = elements(i, ET, qf, kf, vf, mf)
        elems = []
        for n in range(qq.shape[0]):
            elems.append({"q": tl(qq[n]), "ks": tl2(kk[n]), "vs": tl2(vv[n]),
                          "mask": None if mm is None else [bool(x) for x in mm[n].tolist()]})
        # the raw arguments of the call for the model's tensor-level forward (check_input, broadcasting,
        # the axis `dim` names -- all inside the Lean model)
        def tj(x):
            return None if x is None else {"shape": list(x.shape), "data": (
                [bool(b) for b in x.reshape(-1).tolist()] if x.dtype == torch.bool else tl(x))}
        tens = {"Q": case["Q"], "K": case["K"],   # dim: resolved by the model from the constructor arguments
                "vsz": case["D"] if case["kind"] == "multi" else None,
                "q": tj(q), "k": tj(k), "v": tj(v), "mask": tj(mask)}
        if case["kind"] == "single":
            return {"op": "c20.single", "case": {"ctor": ctor_args_json(case, params), "flavour": fl_json(params),
                                                 "D": case["D"], "elems": elems, "tensor": tens}}
        pj = {key: params[key] for key in ("H", "dq", "dk")}   # d_v / out_size: resolved by the model
        pj["D"] = case["D"]
        for key in ("WQ", "WK", "WV", "WC"):
            pj[key] = [[frac_str(x) for x in r] for r in params[key]]
        for key in ("bQ", "bK", "bV", "bC"):
            pj[key] = [frac_str(x) for x in params[key]]
        pj["inner"] = fl_json(params["inner"])
        return {"op": "c20.multi", "case": {"ctor": ctor_args_json(case, params), "params": pj, "elems": elems,
                                            "tensor": tens}}

    # ---------------------------------------------------------------- comparison
    _worst = {}

    def _vec_diff(self, a, b, scale, exact=False, what=None):
        if len(a) != len(b):
            return f"lengths {len(a)} vs {len(b)}"
        worst = 0.0
        for x, y in zip(a, b):
            fx, fy = parse_frac(x), parse_frac(y)
            if isinstance(fx, str) or isinstance(fy, str):
                if fx != fy:
                    return f"{fx} vs {fy}"
                continue
            if exact:
                if fx != fy:
                    return f"{fx} vs {fy} (exact)"
            else:
                worst = max(worst, abs(float(fx) - float(fy)))
        if what is not None and not exact:
            r = worst / (TOL * scale)
            if r > self._worst.get(what, 0.0):
                self._worst[what] = r
        return None if worst <= TOL * scale else f"max |diff| = {worst:.3g}"

    def extra_checks(self, rng, tier, report):
        # largest observed |impl - model| as a fraction of the allowed tolerance, per observable
        report["extra"]["worst_diff_over_tolerance"] = {k: round(v, 4) for k, v in sorted(self._worst.items())}
        # the same for "result = sum_t a_t v_t" (tolerance (T + 2) eps(P) max|v|), per dtype of the result
        report["extra"]["worst_wsum_diff_over_tolerance"] = {k: round(v, 4) for k, v in sorted(WSUM_WORST.items())}

    def compare(self, case, impl, model):
        out = []
        if case["kind"] == "shape" and case.get("defect") == "ctor_neg_dim":
            if impl.get("at") != "constructor":
                out.append(f"MultiHeadedAttention around an attention with dim={case['dim']} < 0 was constructed "
                           f"(documented: ValueError); implementation: {impl}")
            return out
        if case["kind"] == "shape":
            if "error" in model:
                want = "RuntimeError" if (case["multi"] or model["error"] == "runtime") else "ValueError"
                if impl.get("raised") != want:
                    out.append(f"model: {want}; implementation: {impl}")
            else:
                shape = list(model["shape"])
                if impl.get("shape") != shape:
                    out.append(f"model shape {shape}; implementation: {impl}")
            return out
        if "error" in impl:
            return [f"implementation raised {impl['error']}: {impl.get('message')}"]
        if "rejected" in impl or "seqaxis" in impl:
            return out  # dtypes torch does not combine / sequence axis not carried: outside the domain
        elems = model["elems"]
        out += self._ctor_diff(case, impl.get("ctor"), model.get("ctor"))
        A, P, _ = expected_dtypes(case)
        ctol = case_tol(case) / TOL   # 1 unless float16 / bfloat16 is in the chain
        wtol = max(TOL, _heps(A)) / TOL
        # driver self-check model == spec is done in predicate(); here impl vs model
        if case["kind"] == "multi":
            if impl["has_bias"] != model["has_bias"]:
                out.append(f"bias presence impl={impl['has_bias']} model={model['has_bias']}")
        if "out" not in impl:
            return out + [f"implementation output shape {impl.get('shape')} cannot be split into elements"]
        if len(impl["out"]) != len(elems):
            return out + [f"{len(impl['out'])} implementation elements vs {len(elems)} model elements"]
        vscale = 9.0
        # tensor-level model: same shape, same entries (row-major)
        tm = model.get("tensor")
        if tm is not None:
            if "error" in tm:
                out.append(f"tensor-level model rejects the call ({tm['error']}); implementation returned a value")
            elif list(tm["shape"]) != list(impl.get("shape")):
                out.append(f"tensor-level model: shape {tm['shape']}, implementation {impl.get('shape')}")
            else:
                flat = [x for row in impl["out"] for x in row]
                sc = vscale if case["kind"] == "single" else max(
                    [1.0] + [abs(float(parse_frac(x))) for x in tm["data"] if not isinstance(parse_frac(x), str)])
                d = self._vec_diff(flat, tm["data"], sc * ctol, what=f"tensor_out:{case['kind']}")
                if d:
                    out.append(f"tensor-level model: out impl={flat} model={tm['data']} ({d})")
        for n, (o, me) in enumerate(zip(impl["out"], elems)):
            sc = max([1.0] + [abs(float(parse_frac(x))) for x in me["out"] if not isinstance(parse_frac(x), str)])
            d = self._vec_diff(o, me["out"], (sc if case["kind"] == "multi" else vscale) * ctol,
                               what=f"out:{case['kind']}:{case['pmode']}")
            if d:
                out.append(f"element {n}: out impl={o} model={me['out']} ({d})")
                break
        if case["kind"] == "single":
            exact = case["flavour"] != "concat" and case["pmode"] in ("int", "dyadic")
            for n, me in enumerate(elems):
                if "scores" in impl:
                    if exact and me.get("scores_exact") is not None:
                        d = self._vec_diff(impl["scores"][n], me["scores_exact"], 1.0, exact=True)
                    elif case.get("mag"):
                        # large-magnitude concat: every tanh is exactly -1, 0 or 1, the score an integer sum
                        d = self._vec_diff(impl["scores"][n], me["scores"], 1.0, exact=True)
                    else:
                        big = max([1.0] + [abs(float(parse_frac(x))) for x in me["scores"]])
                        d = self._vec_diff(impl["scores"][n], me["scores"], big,
                                           what=f"scores:{case['flavour']}:{case['pmode']}")
                    if d:
                        out.append(f"element {n}: scores impl={impl['scores'][n]} model={me['scores']} ({d})")
                        break
                if "weights" in impl:
                    d = self._vec_diff(impl["weights"][n], me["weights"], wtol,
                                       what=f"weights:{case['flavour']}:{case['pmode']}")
                    if d:
                        out.append(f"element {n}: weights impl={impl['weights'][n]} model={me['weights']} ({d})")
                        break
        return out

    @staticmethod
    def _ctor_diff(case, got, want):
        """the configuration the constructed module shows vs. the model's resolution of the constructor
        arguments as spelled (documented defaults for the omitted ones)"""
        if got is None or want is None:
            return []
        out = []

        def single(g, w, kind, where):
            keys = {"dot": ("dim", "scale_factor"), "general": ("dim", "bias"),
                    "concat": ("dim", "bias", "hidden_size")}[kind]
            for key in keys:
                a, b = g.get(key), w.get(key)
                if key == "scale_factor":
                    a, b = parse_frac(a), parse_frac(b)
                if a != b:
                    out.append(f"constructor: {where}{key} of the module is {g.get(key)}, the documented "
                               f"resolution of the arguments as spelled ({effective_spelling(case)}) is {w.get(key)}")
        if case["kind"] == "single":
            single(got, want, case["flavour"], "")
            return out
        single(got["inner"], want["inner"], case["flavour"], "single_head_attention.")
        for key in ("out_size", "d_v", "d_q", "d_k", "num_heads"):
            if got.get(key) != want.get(key):
                out.append(f"constructor: {key} of the module is {got.get(key)}, documented {want.get(key)} "
                           f"(arguments as spelled: {effective_spelling(case)})")
        if got.get("dim") != want["inner"]["dim"]:
            out.append(f"constructor: dim of the multi-headed module is {got.get('dim')}, the wrapped module's "
                       f"is {want['inner']['dim']}")
        H = want["num_heads"]
        for key, n in (("WQ_rows", H * want["d_q"]), ("WK_rows", H * want["d_k"]), ("WV_rows", H * want["d_v"]),
                       ("WC_rows", want["out_size"])):
            if got.get(key) != n:
                out.append(f"constructor: {key} = {got.get(key)}, documented {n}")
        return out

    def predicate(self, case, impl, model):
        fails = []
        if case["kind"] == "shape":
            legal = case["defect"] in ("none", "none_bcast")
            if legal and "raised" in impl and model is not None and "shape" in model:
                fails.append((f"legal call raised {impl['raised']}", "C20.raises"))
            if legal and "shape" in impl and not impl.get("all_ones", True):
                fails.append(("attention over constant-one values is not one (weights do not sum to 1)",
                              "C20.convex"))
            if case["defect"] == "dim_m1" and "shape" in impl:
                fails.append(("dim = -1 (documented as illegal: it names the key_size axis) was accepted and a "
                              "value returned", "C20.dim_minus_one_accepted"))
            if "error" in impl:
                fails.append((f"unexpected {impl['error']}: {impl.get('message')}", "C20.raises"))
            if "check_input" in impl and impl["check_input"] != impl.get("raised"):
                fails.append((f"check_input called directly: {impl['check_input'] or 'accepts'}; the call: "
                              f"{impl.get('raised') or 'returns a value'}", "C20.check_input"))
            return fails
        if "error" in impl:
            return [(f"attention raised {impl['error']} on a legal call: {impl.get('message')}",
                     "C20.raises." + case["kind"])]
        if "rejected" in impl or "seqaxis" in impl:
            return fails
        for what, sig in impl.get("checks", []):
            fails.append((what, sig))
        # machinery self-check: the driver's model and spec must agree (theorem C20_model_eq_spec)
        if model is not None:
            for n, me in enumerate(model["elems"]):
                sc = max([1.0] + [abs(float(parse_frac(x))) for x in me["out"] if not isinstance(parse_frac(x), str)])
                d = self._vec_diff(me["out"], me["spec"], sc * 1e-4)
                if d:
                    raise AssertionError(f"driver: model != spec on element {n}: {me['out']} vs {me['spec']}")
        return fails

    # ---------------------------------------------------------------- bookkeeping
    def nontrivial(self, case, impl):
        if case["kind"] == "shape":
            return case["defect"] not in ("none", "none_bcast")
        if case["mask"] != "some" or (isinstance(impl, dict) and ("rejected" in impl or "seqaxis" in impl)):
            return False
        _, _, _, mask, _ = make_inputs(case)
        ms = list(mask.shape)
        ax = len(ms) - 1 - (len(case["E"]) - case["nb"])
        if ms[ax] < 3:
            return False
        mm = mask.movedim(ax, -1).reshape(-1, ms[ax])
        kept = mm.sum(-1)
        return bool(((kept >= 2) & (kept < ms[ax])).any())

    def tags(self, case, impl):
        t = ["kind=" + case["kind"]]
        if case["kind"] == "shape":
            t.append("defect=" + case["defect"])
            t.append("shape:" + ("multi" if case["multi"] else "single"))
            return t
        t += ["flavour=" + case["flavour"], "mask=" + case["mask"], "pmode=" + case["pmode"],
              "dim=" + ("neg" if case["dim"] < 0 else "nonneg"), f"seq_axis={case['nb']}/{len(case['E']) + 2}",
              f"T={case['T']}"]
        if isinstance(impl, dict) and "inf_masked_value_gives_nan" in impl:
            t.append("restriction:inf_at_masked_value->" + ("nan" if impl["inf_masked_value_gives_nan"] else "finite"))
        bc = [n for n in ("bq", "bk", "bv", "bm") if 0 in case[n]]
        t.append("broadcast=" + ("+".join(bc) if bc else "none"))
        if case.get("kT", True):
            t.append("seq_axis_carried_by=key")
        elif isinstance(impl, dict) and "seqaxis" in impl:
            t.append("seq_axis_carried_by=nobody (key and mask of size 1 there, longer values: outside the "
                     "documented shapes, recorded only) -> observed: " + impl["seqaxis"])
        else:
            q_, k_, v_, m_, _ = make_inputs(case)
            i_, ET_, _ = geometry(case, q_, k_, v_, m_)
            t.append("seq_axis_carried_by=" + ("key (all of size 1 there)" if ET_[i_] == 1 else
                                               "key (stride-0 view)" if k_.shape[i_] == ET_[i_] else
                                               "mask only (key of size 1 there)"))
        t.append("dtype=" + case.get("dtype", "float32"))
        if case.get("mixed"):
            qn, kn, vn, pn = arg_dtypes(case)
            t.append("mixed:value=" + vn + ("(full mantissa)" if case["mixed"].get("vfrac") else ""))
            t.append("mixed:query=" + qn)
            t.append("mixed:key=" + kn)
            t.append("mixed:query,key=" + ("as parameters" if qn == kn == pn else "same, not the parameters'"
                                           if qn == kn else "different"))
            t.append("mixed:domain=" + ("rejected (" + impl["rejected"] + ")" if isinstance(impl, dict)
                                        and "rejected" in impl else "accepted"))
            if "m" in case["mixed"]:
                t.append("mixed:mask=" + case["mixed"]["m"])
            if isinstance(impl, dict) and "dtypes" in impl:
                # observed, not judged: the property speaks about values, not about dtypes
                t.append("mixed:result_dtype=" + ("promoted" if impl["dtypes"]["out"] == str(expected_dtypes(case)[1])
                                                  else "OTHER THAN torch's promotion of weights and value"))
        else:
            t.append("mixed:none" + ("+value_path_float64" if case.get("vpath") else ""))
        t.append("layout=" + (case.get("layout") or "contiguous") + ("+value_is_key" if case.get("alias") else ""))
        mag = case.get("mag")
        t.append("magnitude=" + ("ordinary" if not mag else mag["mode"] + (":1e4-1e5" if mag["M"] < 30000 else ":1e9-1e13")
                                 if mag["mode"] != "extreme" else "extreme:finfo.max"))
        if case["T"] > 8 or case["K"] > 3:
            t.append("wide(T>8 or K>3)")
        t.append("T_class=" + length_class(case["T"]))
        t.append("T_range=" + next(n for lim_, n in ((8, "1-8"), (64, "9-64"), (128, "65-128"), (256, "129-256"),
                                                    (512, "257-512"), (10 ** 9, "513-1101")) if case["T"] <= lim_))
        big = [f"{n}>=31" for n, x in (("Q", case["Q"]), ("K", case["K"]), ("D", case["D"]),
                                        ("batch_axis", max(case["E"] or [1])), ("hidden", case.get("hidden", 0)),
                                        ("H", case.get("H", 0)), ("d_v", case.get("dv", 0) if case["kind"] == "multi" else 0),
                                        ("d_k", case.get("dk", 0)), ("out_size", case.get("O", 0))) if x >= 31]
        t.append("large_dims=" + ("+".join(big) if big else "none"))
        if case["kind"] == "multi" and case["H"] > 3:
            t.append("many_heads(H>3)")
        t.append("window=" + (case["window"]["kind"] if case.get("window") and case["mask"] == "some" else "none"))
        if case.get("vconst") is not None and not case.get("alias"):
            t.append("value_coordinate_0=constant")
        # argument spellings (effective, i.e. after normalisation)
        if case.get("ctor"):
            for w, eff in effective_spelling(case).items():
                if w == "inner" and case.get("user") and case["flavour"] == "dot":
                    continue   # the user's own constructor
                pre = "ctor:" + (case["flavour"] if w == "inner" else "multi")
                t.append(f"{pre}:required={eff['req']}")
                for n, how in eff.items():
                    if n != "req":
                        t.append(f"{pre}:{n}={how}")
            if case["flavour"] == "concat" and case.get("hidden") == 1000:
                t.append("hidden_size=1000 (the documented default)")
        else:
            t.append("ctor:legacy spelling (dim positional, the other optional arguments by keyword)")
        t.append("module_class=" + ("user-defined subclass of GlobalSoftAttention" if case.get("user") and
                                    case["flavour"] == "dot" else "the library's"))
        call = case.get("call") or {}
        t.append("call:arguments=" + call.get("how", "pos") + ("" if case["mask"] == "none" or "omit" not in call.get("how", "pos")
                                                               else "(mask given)"))
        t.append("call:entry=" + call.get("entry", "call"))
        life = case.get("life")
        if life:
            t.append(f"life:call=module.{life['mode']}(),{life['grad']}")
            pre = life.get("pre")
            t.append("life:past=" + ("none" if not pre else f"{len(pre['calls'])} call(s), parameters set by "
                                     f"{pre['set']}, arguments " + (f"restored in place ({pre['inputs']})"
                                                                    if pre.get("inputs") else "untouched")))
            if pre:
                for m_, g_ in pre["calls"]:
                    t.append(f"life:past_call=module.{m_}(),{g_}")
            post = life.get("post") or []
            kr = len(case["E"]) + 2
            for when, specs in (("before", [b_[2] for b_ in life.get("before") or []]),
                                ("after", [s_[3] for s_ in post if s_[0] == "shape"])):
                t.append(f"life:other_shapes_{when}={len(specs)}")
                for sp_ in specs:
                    t.append(f"life:other_shape:{'neg' if case['dim'] < 0 else 'nonneg'} dim,key rank "
                             + ("same" if len(sp_["E"]) + 2 == kr else "differs")
                             + (",T same" if sp_["T"] == case["T"] else ",T differs"))
                    t.append(f"life:other_shape:key rank {kr}->{len(sp_['E']) + 2}")
                    t.append(f"life:other_shape:mask={sp_['mask']}")
            t.append(f"life:future={sum(1 for s_ in post if s_[0] == 'call')} call(s)")
            for s_ in post:
                t.append("life:future_step=" + (f"call module.{s_[1]}(),{s_[2]}" if s_[0] == "call" else
                                                "a call of another shape" if s_[0] == "shape" else
                                                "a second module object called with the same tensors" if s_[0] == "other" else
                                                f"parameters:{s_[1]}" if s_[0] == "params" else
                                                f"argument {s_[1]} edited:{s_[2]}"))
        else:
            t.append("life:legacy (module.train(), no_grad, one call)")
        if case["kind"] == "multi":
            f = case["flags"]
            t.append("flags=" + "".join("1" if f[n] else "0" for n in ("wq", "wk", "wv", "wc")))
            B = case["E"][-1] if case["E"] else 1
            t.append("batch==heads" if B == case["H"] else "batch!=heads")
            t.append(f"H={case['H']}")
            t.append("defaults=" + ("+".join(n for n in ("dv_default", "O_default") if case.get(n)) or "none"))
        return t

    def shrink(self, case):
        if case["kind"] == "shape":
            return
        for key, new in [(k_, n_) for k_ in ("T", "D", "Q", "K", "O", "hidden", "H")
                         for n_ in ([case[k_] // 2] if case.get(k_, 0) > 8 else []) + [case.get(k_, 0) - 1]]:
            if key in case and case[key] > 1 and (key != "hidden" or case[key] > 3):
                c = dict(case)
                c[key] = new
                if key == "D" and case.get("alias"):
                    continue
                if key == "K" and case.get("alias"):
                    c["D"] = c["K"]
                if key == "K" and case["flavour"] == "dot":
                    c["Q"] = c["K"]
                if key == "Q" and case["flavour"] == "dot":
                    c["K"] = c["Q"]
                yield c
        for j, e in [(j_, e_) for j_, e0 in enumerate(case["E"]) for e_ in ([e0 // 2] if e0 > 8 else []) + [e0 - 1]]:
            if e >= 1:
                c = dict(case)
                c["E"] = case["E"][:j] + [e] + case["E"][j + 1:]
                if case["kind"] == "multi" and j == len(case["E"]) - 1 and case["E"][j] == case["H"]:
                    continue  # keep batch == heads
                yield c
        if any(0 in case[n] for n in ("bq", "bk", "bv", "bm")):
            c = dict(case)
            for n in ("bq", "bk", "bv", "bm"):
                c[n] = [1] * len(case["E"])
            yield c
        for key, val in (("mdrop", 0), ("kT", True), ("mT", True), ("vT", True), ("pmode", "int" if case["kind"] == "single" else "dyadic"),
                         ("bias", False), ("hidden", 1), ("scale", "1")):
            if case.get(key) != val:
                c = dict(case)
                c[key] = val
                yield c
        for key in ("layout", "dtype", "dv_default", "O_default", "vpath", "window", "vconst", "user"):
            if key in case:
                c = dict(case)
                del c[key]
                yield c
        # spellings: towards "every optional argument by keyword, positional call"; the failure must survive
        for w, sp in (case.get("ctor") or {}).items():
            for n, how in sp.items():
                if n == "int_scale":
                    c = dict(case)
                    c["ctor"] = {**case["ctor"], w: {a: b for a, b in sp.items() if a != n}}
                    yield c
                elif how != ("pos" if n == "req" else "kw"):
                    c = dict(case)
                    c["ctor"] = {**case["ctor"], w: {**sp, n: "pos" if n == "req" else "kw"}}
                    yield c
        for n, val in (("how", "pos"), ("entry", "call")):
            if (case.get("call") or {}).get(n, val) != val:
                c = dict(case)
                c["call"] = {**case["call"], n: val}
                yield c
        # the life: towards "train, no_grad, no past, no future"; the failure must survive
        life = case.get("life")
        if life:
            for key in ("pre", "post", "before"):
                if life.get(key):
                    c = dict(case)
                    c["life"] = {a: b for a, b in life.items() if a != key}
                    yield c
            post = life.get("post") or []
            for j in range(len(post)):
                c = dict(case)
                c["life"] = {**life, "post": post[:j] + post[j + 1:]}
                yield c
            pre = life.get("pre")
            if pre:
                if len(pre["calls"]) > 1:
                    c = dict(case)
                    c["life"] = {**life, "pre": {**pre, "calls": pre["calls"][:1]}}
                    yield c
                if pre.get("inputs"):
                    c = dict(case)
                    c["life"] = {**life, "pre": {**pre, "inputs": None}}
                    yield c
                if pre["set"] != "load_state_dict":
                    c = dict(case)
                    c["life"] = {**life, "pre": {**pre, "set": "load_state_dict"}}
                    yield c
            for key, val in (("mode", "train"), ("grad", "no_grad")):
                if life[key] != val:
                    c = dict(case)
                    c["life"] = {**life, key: val}
                    yield c
        if case.get("mag") and case.get("mixed"):
            c = dict(case)  # a dtype failure rarely needs the large scores
            del c["mag"]
            yield c
        mx = case.get("mixed") or {}
        for key in ("q", "k", "vfrac"):
            # towards "only the value has another dtype"; the failure must survive for the step to be kept
            if key in mx:
                c = dict(case)
                c["mixed"] = {a: b for a, b in mx.items() if a != key}
                yield c
        if case["kind"] == "multi":
            for key in ("dq", "dk", "dv"):
                if case[key] > 1:
                    c = dict(case)
                    c[key] = 1
                    if case["flavour"] == "dot":
                        c["dq"] = c["dk"] = 1
                    yield c
        for s in (0, 1, 2, 3):
            if case["seed"] != s and case["seed"] > 3:
                c = dict(case)
                c["seed"] = s
                yield c


CHECK = C20()
