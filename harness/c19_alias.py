"""C19 helpers: the ways a user may WRITE a function on samples (integrand / control variate).

The estimators are handed callbacks.  Mathematically a callback is its table of values; as a piece of
torch code it also decides which tensor carries those values: a fresh one, the argument itself
(`f(b) = b`), a view of the argument (`b[..., 0]`, `b.squeeze(-1)`, a no-op cast, ...), or a copy that
was modified in place.  An estimator must give the same answer for every spelling of the same
function (value semantics: what was returned at step t is a VALUE and stays what it was).

A spelling is described by JSON  {"how": ..., "coord": j | None, "a": "n/d", "c": "n/d"}:
the function is  x -> a * x_j + c  (coord j of an event vector), or elementwise  x -> a * x + c
(coord None: samples without event axis; the result has the shape of the argument).  View spellings
have a = 1, c = 0.

torch is imported inside functions only.
"""
from fractions import Fraction as Fr

from c19_fam import F, fs

# spellings that return the argument or something that shares its storage (elementwise functions)
VIEWS_ELEM = ["self", "view", "cast", "contiguous", "slice", "expand", "squeeze", "transpose", "stride",
              "detach", "reshape"]
# ... one coordinate of the event axis (the result drops the last axis)
VIEWS_COORD = ["select", "narrow", "unbind", "movedim", "expand", "stride", "detach"]
VIEWS_COORD_1 = ["squeeze", "view", "flatten"]        # only when the event axis has length 1
COPIES = ["clone", "inplace", "arith"]


def is_view(fn):
    return fn is not None and fn["how"] not in COPIES


def spec(how, coord=None, a=1, c=0):
    if how not in COPIES:
        a, c = 1, 0
    return {"how": how, "coord": coord, "a": fs(Fr(a)), "c": fs(Fr(c))}


def twin(fn):
    """the same function written so that it returns a fresh tensor"""
    if fn is None or fn["how"] in ("clone", "arith"):
        return None
    if fn["how"] == "inplace":
        return dict(fn, how="arith")
    return dict(fn, how="clone", via=fn["how"])


def value(fn, x):
    """exact value at the (coordinate) value x"""
    return F(fn["a"]) * F(x) + F(fn["c"])


def _pick(b, how, j):
    """a tensor holding b (j None) / b[..., j] that is b itself or shares its storage"""
    if j is None:
        if how == "self":
            return b
        if how == "view":
            return b.view(b.shape)
        if how == "cast":
            return b.to(b.dtype)                      # `b.float()` on a float sample: returns b
        if how == "contiguous":
            return b.contiguous()                     # returns b when it already is
        if how == "slice":
            return b[...] if b.dim() == 0 else b[0:]
        if how == "expand":
            return b.unsqueeze(0).expand((1,) + tuple(b.shape))[0]
        if how == "squeeze":
            return b.unsqueeze(-1).squeeze(-1)
        if how == "transpose":
            return b.transpose(0, -1).transpose(0, -1) if b.dim() else b.view(())
        if how == "stride":
            return b.as_strided(tuple(b.shape), b.stride(), b.storage_offset())
        if how == "detach":
            return b.detach()
        if how == "reshape":
            return b.reshape(b.shape)
        raise ValueError(how)
    if how == "select":
        return b[..., j]
    if how == "narrow":
        return b.narrow(-1, j, 1).squeeze(-1)
    if how == "unbind":
        return b.unbind(-1)[j]
    if how == "movedim":
        return b.movedim(-1, 0)[j]
    if how == "expand":
        return b[..., j:j + 1].expand(b.shape[:-1] + (1,))[..., 0]
    if how == "stride":
        return b.as_strided(tuple(b.shape[:-1]), b.stride()[:-1], b.storage_offset() + j * b.stride(-1))
    if how == "detach":
        return b.detach()[..., j]
    if how in VIEWS_COORD_1 and b.shape[-1] == 1 and j == 0:
        if how == "squeeze":
            return b.squeeze(-1)
        if how == "view":
            return b.view(b.shape[:-1])
        return b.flatten(-2) if b.dim() >= 2 else b.view(())
    raise ValueError(how)


def shares(x, b):
    try:
        return x.untyped_storage().data_ptr() == b.untyped_storage().data_ptr()
    except Exception:       # noqa: BLE001
        return x is b


def make(fn, log=None):
    """the callable.  `log`: a list that receives, per call, whether the returned tensor shares the
    storage of the argument (so that the harness can tell that a view spelling really aliased)."""
    how, j = fn["how"], fn["coord"]
    a, c = float(F(fn["a"])), float(F(fn["c"]))

    def f(b):
        if how in COPIES:
            base = _pick(b, fn.get("via", "self" if j is None else "select"), j)
            if how == "clone":
                out = base.clone()
            elif how == "inplace":
                out = base.clone()
                out.mul_(a)
                out.add_(c)
            else:
                out = base * a + c
        else:
            out = _pick(b, how, j)
        if log is not None:
            log.append(bool(shares(out, b)))
        return out
    return f


class Spellings:
    """hands out spellings so that every one of them turns up: shuffled pools that are refilled when
    empty; every fourth spelling is a copy (modified in place / plain arithmetic) of an affine function"""

    def __init__(self, rng):
        self.rng = rng
        self.pools = {}
        self.count = 0

    def _view(self, key, items):
        pool = self.pools.get(key)
        if not pool:
            pool = list(items)
            self.rng.shuffle(pool)
            self.pools[key] = pool
        return pool.pop()

    def next(self, coord=None, n_event=None, copies=True):
        rng = self.rng
        self.count += 1
        if copies and self.count % 4 == 0:
            return spec(rng.choice(["inplace", "inplace", "arith"]), coord, Fr(rng.randint(-8, 8), 4) or 1,
                        Fr(rng.randint(-8, 8), 4))
        if coord is None:
            return spec(self._view("elem", VIEWS_ELEM))
        if n_event == 1:
            return spec(self._view("coord1", VIEWS_COORD + VIEWS_COORD_1), coord)
        return spec(self._view("coord", VIEWS_COORD), coord)
