"""C04 — beam search returns distinct, correctly scored, best-first paths per element.

Real code: `pydrobert.torch.modules.BeamSearch` driven with a hash language model whose logits
depend on a THREADED state (carried through `extract_by_src`) and on the batch element;
`update_log_probs_for_step` quantises `log_probs_t` to a dyadic grid so every float32 sum is
exact. The Lean model gets an independently built history -> scores table (LM run unbatched
along every history). `functional.beam_search_advance` is also driven directly.
"""
import contextlib
import itertools
import math
import random
from fractions import Fraction

from common.framework import PropertyCheck, frac_str, case_hash, short

import c04_lm as L


_coprime = getattr(Fraction, "_from_coprime_ints", None)


def S2F(s):
    if s == "-inf":
        return "-inf"
    if _coprime is not None and isinstance(s, str):
        # "n/d" strings written by frac_str are in lowest terms (hundreds of thousands of them in a large
        # advance case: skip the gcd)
        n, _, d = s.partition("/")
        try:
            return _coprime(int(n), int(d) if d else 1)
        except ValueError:
            pass
    return Fraction(s)


def fsum(a, b):
    return "-inf" if a == "-inf" or b == "-inf" else a + b


def fle(a, b):
    """a <= b on the extended line."""
    if a == "-inf":
        return True
    if b == "-inf":
        return False
    return a <= b


MAG = 64     # scores up to this magnitude are compared with an absolute tolerance, larger ones relative to it


def tol_of(case, ref=0):
    """float mode: |reported score - exact chained score| allowed = 2^10 * eps of the dtype the search
    accumulates in (start score in the default dtype promoted with the language model's dtype): 2^-13 for
    float16 / bfloat16 / float32 models (rounding of <= 15 float32 sums), 2^-42 for float64 models; for
    scores beyond 64 in magnitude (large-magnitude logits only) relative: times |score| / 64."""
    return L.TOLF * L.result_eps(case["lm"]) * max(1, abs(ref) / MAG)


def gap_of(case):
    """float mode: a selection decided by a smaller margin (16 tolerances) is treated like a tie:
    2^-9 for models up to float32, 2^-38 for float64 models (the driver reports the margin divided by
    max(1, |score| / 64), i.e. relative for large-magnitude scores)."""
    return L.GAPF * L.result_eps(case["lm"])


def is_float(case):
    """float mode: the library's own update_log_probs_for_step (nothing quantised); scores are plain
    floats, compared to the exact rational model with tolerance TOL and the margin rule GAP."""
    return case.get("via") == "nohook"


def tie_like(case, flags):
    if flags.get("tie"):
        return True
    g = flags.get("gap")
    return bool(is_float(case) and g is not None and Fraction(g) < gap_of(case))


def close(case, a, b):
    """score strings a, b agree (exactly, or within TOL in float mode)."""
    if a == b:
        return True
    if not is_float(case) or "-inf" in (a, b):
        return False
    try:
        fa, fb = Fraction(a), Fraction(b)
        return abs(fa - fb) <= tol_of(case, max(abs(fa), abs(fb)))
    except (ValueError, ZeroDivisionError):
        return False


def same_slots(case, fa, fb):
    """two lists of finite slots {"score","len","path"} agree."""
    return len(fa) == len(fb) and all(
        a["len"] == b["len"] and a["path"] == b["path"] and close(case, a["score"], b["score"])
        for a, b in zip(fa, fb))


def norm_eos(V, eos):
    if eos is None:
        return None
    if -V <= eos < V:
        return (eos + V) % V
    return "invalid"


class C04(PropertyCheck):
    pid = "C04"
    rule = ("search cases: V<=6, width 1..V^T+2 (0/-1: ValueError), max_iters 0..5 or unset (negative: "
            "RuntimeError), eos in {unset, each token, negative index, out of range}, both finish_all_paths, "
            "pad_value in {-1, 0, the eos token, beyond the vocabulary, negative}, batch in {unset,1..5} with "
            "per-element seeds and eos-forcing depths (different finishing times) or no initial state at all, "
            "LM = hash model with threaded state (float32/float64 logits, with/without hard zeros, uniform = "
            "ties) driven through a quantising hook (instance attribute / subclass) = exact mode; float mode = "
            "the library's own update_log_probs_for_step with the hash model, the library's Extractable-/"
            "MixableShallowFusionLanguageModel over two hash models, or the library's LookupLanguageModel over "
            "a random back-off table, or a recurrent model whose threaded state is a FLOATING tensor given by "
            "the caller (or defaulted) - each computing in float16 / bfloat16 / float32 / float64 (fusion: the "
            "two components possibly in different dtypes), optionally under torch default dtype float64, with "
            "near-tie rows (tokens 2 / 16 / 256 decision margins apart: for float64 models far below float32 "
            "resolution) or large-magnitude logits (x16 / x128); tolerance 2^10 eps and selection margin 2^14 eps "
            "of the dtype the search accumulates in (2^-13 / 2^-9 up to float32, 2^-42 / 2^-38 for float64; "
            "relative beyond |score| 64); small grids enumerated incl. "
            "max_iters=0 and step limits far beyond the finishing depth; advance cases: random dyadic tensors "
            "incl. -inf, every floating dtype (log_probs_prev and log_probs_t possibly of different dtypes; "
            "2^-3 grid when a 16-bit dtype takes part), contiguous / strided / sliced / permuted storage, "
            "out-of-vocabulary prefix tokens, malformed arguments. SIZE CLASSES, a fixed set of 50 large cases "
            "per quick run (4 sets + BeamSearch at 2^17 candidates in thorough) with everything else drawn as for the small cases: BeamSearch "
            "(exact and float mode, every model kind) and beam_search_advance (tensors regenerated from a seed in "
            "the case) with V, width, Kp in each of (100,300], (300,600], (600,2000], >2000 (values next to powers "
            "of two and to the bucket edges, up to 4099), width*V resp. Kp*V next to 2^13, 2^15 (BeamSearch quick) "
            "and 2^17 (beam_search_advance; BeamSearch in thorough), batches of 8..33, 64..100, 101..130 (also with "
            "the only late finishers at the front / at the back of the batch), step limits resp. prefix lengths of "
            "16..33, 63..100, 101..130 (paths that cannot end early, no step limit at all, eos unlikely at every "
            "step); their history -> scores tables are built on demand (every history the searched model was called "
            "on + every prefix of a returned path; the driver reports a live history it needs and does not find). "
            "LONG RUNS WITHOUT A STEP LIMIT, 3 per quick run (12 in thorough): max_iters omitted, eos set, the "
            "language model makes eos impossible for 257..600 / 1025..1100 / 1101..2100 steps (next to 256, 512, "
            "1024, 2048) and then forces it; V 2-3, width 1-2 (1 beyond 1100 steps), batch unset / 2 / 3 (the "
            "other elements finish within 6 steps and stay frozen), both finish_all_paths, 2^-8 grid. "
            "non-trivial (search): >= 2 "
            "finite paths and a pruning happened, or batch elements finish at different steps; (advance): "
            "K < candidates. distinct by the case dict")
    assumptions = [
        "float32 arithmetic is exact on the generated domain: log_probs_t quantised to multiples of 2^-8 / 2^-12 "
        "in [-30,0] through update_log_probs_for_step; every sum is checked to be a dyadic rational",
        "torch.topk = any maximal-K selection listed best first (IsTopK); cases in which the model sees a tie "
        "among finite candidates are only checked with tie-agnostic predicates",
        "the language model computes batch rows independently (true of the harness LM)",
        "update_log_probs_for_step does not modify log_probs_prev",
        "slots with score -inf are unspecified (paths/lengths not compared)",
        "cells beam_search_advance leaves uninitialised (y_next.new_empty padding columns) are left as allocated or "
        "filled with the eos token / a negative number / a token beyond the vocabulary (a function of the case); the "
        "Lean model has them as the parameter Cfg.junk (theorems: any value; driver: 0)",
        "float mode (no hook): the model runs on the exact rational values of the floats the LM + log_softmax "
        "return unbatched IN THE MODEL'S OWN DTYPE (the model's own chained log-probability = log_softmax, in "
        "its dtype, of what it hands over); reported scores are compared with tolerance 2^10 eps of the dtype "
        "the search accumulates in (torch's promotion of the start score with the model's dtype; relative "
        "beyond |score| 64) and paths only when every selection along the model's trajectory was decided by a "
        "margin >= 2^14 eps; that this rule implies the hypothesis of the proved C04_skeleton_stable (sepB with "
        "half that margin on every selection) is re-checked by the driver on every float case; a constant margin m on "
        "every selection implies the theorem's step-dependent hypothesis for eps <= m / (2 max_iters): C04_margin_rule",
        "log_softmax and the elementwise operations of the harness models give a row the same bits whatever "
        "else is in the batch (measured: the unbatched table reproduces the batched run to <= 5% of the tolerance; "
        "bit-identical for V up to 4099 and batches up to 515 rows in every floating dtype)",
        "size classes: the table of a large case holds the unbatched model's scores of the histories the searched "
        "model was called on and of the prefixes of the returned paths (not of all V^T histories); the Lean model "
        "stops and reports when it needs another one (compare() then reports a disagreement unless a tie preceded); "
        "sepB (hypothesis of C04_skeleton_stable) is re-evaluated by the driver through sepFast (= sepB, "
        "C04_sepFast_eq) when width * width * V <= 2^18, not beyond",
        "a finite path that was not ended by eos has the length of the step limit (all slots if finish_all_paths "
        "or eos unset, the best slot otherwise): predicate C04.length, tie-agnostic; for the model: theorem "
        "C04_length",
    ]
    exhaustive = {"quick": False, "thorough": False}
    quick_budget_s = 70
    thorough_budget_s = 800

    def __init__(self):
        self._cache = {}
        self._flagmap = {}

    # ------------------------------------------------------------------ generators
    def _search_case(self, rng, V, T, width, eos, fa, batch, zeros=False, uniform=False, qbits=12,
                     force=None, hard=False, via="instance", pad=-1, lm=None, malformed=None):
        n = 1 if batch is None else batch
        seeds = [[rng.randrange(1, 1 << 30), rng.randrange(1, 1 << 30)] for _ in range(n)]
        if force is None:
            force = [None] * n
        opts = {"zeros": zeros, "uniform": uniform, "hard_force": hard}
        opts.update(lm or {})
        c = {"kind": "search", "V": V, "width": width, "eos": eos, "finish_all": fa, "pad": pad,
             "max_iters": T, "batch": batch, "seeds": seeds, "force": force, "qbits": qbits,
             "lm": opts, "via": via}
        if malformed:
            c["malformed"] = malformed
        return c

    @staticmethod
    def _pad_choice(rng, V, eos):
        e = norm_eos(V, eos)
        return rng.choice([-1, -1, 0, e if isinstance(e, int) else 1, V, V + 5, -7])

    def _advance_case(self, rng, malformed=None):
        N = rng.choice([1, 1, 2, 3, 4])
        Kp = rng.choice([1, 2, 3, 5, 6])
        V = rng.choice([1, 2, 3, 4, 6])
        S = rng.choice([0, 1, 2, 3, 4])
        width = rng.choice([1, 2, 3, Kp * V, Kp * V + 2, max(1, Kp * V - 1)])
        mode = rng.choice(["none", "full", "ragged", "short"]) if S else rng.choice(["none", "zero"])

        # every floating dtype, and log_probs_prev / log_probs_t of different dtypes (BeamSearch itself adds
        # a float32 start score to whatever the language model computes in). Values live on a grid on which
        # every sum is exact in the narrowest dtype involved: 2^-8 in [-30, 0], or 2^-3 in [-15, 0] as soon
        # as a 16-bit dtype takes part (bfloat16 has 8 significant bits: |sum| <= 30 on a 2^-3 grid).
        dtype = rng.choice(["float32", "float32", "float64", "float16", "bfloat16"])
        dtype_prev = rng.choice([dtype, dtype, dtype, "float32", "float64", "float16", "bfloat16"])
        coarse = bool({dtype, dtype_prev} & {"float16", "bfloat16"})

        def sc(p_inf):
            if rng.random() < p_inf:
                return "-inf"
            if coarse:
                return frac_str(Fraction(-rng.randrange(0, 15 * 8), 8))
            return frac_str(Fraction(-rng.randrange(0, 30 * 256), 256))
        pinf = rng.choice([0.0, 0.0, 0.15, 0.5])
        prev = [[sc(pinf) for _ in range(Kp)] for _ in range(N)]
        logp = [[[sc(pinf) for _ in range(V)] for _ in range(Kp)] for _ in range(N)]
        oov = rng.random() < 0.25      # prefix tokens are data to beam_search_advance: any integer
        y = [[[rng.randrange(-2, V + 3) if oov else rng.randrange(V) for _ in range(S)] for _ in range(Kp)]
             for _ in range(N)]
        if mode == "none":
            lens = None
        elif mode == "full":
            lens = [[S] * Kp for _ in range(N)]
        elif mode == "ragged":
            lens = [[rng.randrange(0, S + 1) for _ in range(Kp)] for _ in range(N)]
        elif mode == "short":
            lens = [[rng.randrange(0, S) for _ in range(Kp)] for _ in range(N)]
        else:
            lens = [[0] * Kp for _ in range(N)]
        c = {"kind": "advance", "N": N, "Kp": Kp, "V": V, "S": S, "width": width, "lens": lens,
             "prev": prev, "y": y, "logp": logp, "malformed": malformed,
             "layout": rng.choice(["contiguous", "contiguous", "strided", "sliced", "permuted"]),
             "dtype": dtype, "dtype_prev": dtype_prev}
        if malformed == "width0":
            c["width"] = rng.choice([0, -1])
        elif malformed == "lens_gt_S":
            c["lens"] = [[S + 1 + rng.randrange(2) for _ in range(Kp)] for _ in range(N)]
            if S == 0:
                c["malformed"] = "t0_lens"
        elif malformed == "t0_lens":
            c["S"] = 0
            c["y"] = [[[] for _ in range(Kp)] for _ in range(N)]
            c["lens"] = [[1] * Kp for _ in range(N)]
        elif malformed == "shape":
            c["prev"] = [r + ["0"] for r in prev]
        return c

    # ------------------------------------------------------------------ size classes
    # Code paths that only run beyond a size (a shortcut for large vocabularies, a different kernel for wide
    # beams, chunking of long batches ...) are invisible to V <= 6 / width <= 30 / 5 steps. Every run therefore
    # has a few LARGE cases in every stream, in each dimension, on both sides of 100 / 300 / 600 / 2000 and
    # next to powers of two; everything else about them is drawn as for the small cases.
    SIZE_BUCKETS = ((101, 127, 128, 129, 255, 256, 257, 300), (301, 511, 512, 513, 600),
                    (601, 1000, 1023, 1024, 1025, 2000), (2001, 2047, 2048, 2049, 4099))
    BATCH_BUCKETS = ((8, 16, 17, 33), (64, 65, 100), (101, 128, 130))
    STEP_BUCKETS = ((16, 17, 31, 32, 33), (63, 64, 65, 100), (101, 127, 128, 130))
    # (width or Kp, V) with the product next to 2^13, 2^15, 2^17
    CAND_BUCKETS = (((8, 1024), (16, 512), (16, 513), (15, 546), (31, 264)),
                    ((32, 1024), (33, 993), (64, 512), (16, 2048), (127, 258)),
                    ((128, 1024), (127, 1033), (64, 2048), (256, 512), (32, 4099)))

    @staticmethod
    def size_label(x, lo=100):
        return None if x <= lo else "101..300" if x <= 300 else "301..600" if x <= 600 else \
            "601..2000" if x <= 2000 else ">2000"

    def _size_search_case(self, rng, dim, bucket, variant=None):
        """One large BeamSearch case; `dim` says which dimension is large: "V", "width", "batch", "steps"
        (max_iters), "cands" (width * V). Tables are built on demand (`lm.lazy`). `variant`: "front" / "back"
        (batch: the elements that finish late sit only at the front / only at the back of the batch), "rare"
        (steps: eos unlikely at every step, all paths run to completion)."""
        width_small = [2, 2, 3, 4, 5, 7, 8, 9, 16, 17]
        batch = rng.choice([None, None, 1, 2, 3])
        qbits = rng.choice([8, 12, 12])
        lm = {"lazy": True}
        if dim == "V":
            V = rng.choice(bucket)
            T = rng.choice([2, 2, 3, 3, 4])
            width = rng.choice(width_small)
            r = rng.random()
            if r < 0.12:
                T, width = 1, rng.choice([V - 1, V, V + 1, V + 7])     # one step, the whole vocabulary fits
            elif r < 0.2:
                width = rng.choice([1, V - 1, V, V + 1])
                if width * V > 1 << 17:
                    T = 1                   # V * V candidates at the second step: beyond 2^17 only one step
        elif dim == "width":
            width = rng.choice(bucket)
            V = rng.choice([4, 5, 6] if width > 600 else [2, 3, 4, 5, 6])
            T = max(2, math.ceil(math.log(width + 1, V)) + rng.choice([0, 1, 1, 2]))
            batch = rng.choice([None, None, 2])
        elif dim == "batch":
            batch = rng.choice(bucket)
            V = rng.choice([2, 3, 4, 5])
            T = rng.choice([2, 3, 4])
            width = rng.choice([1, 2, 3, 5])
        elif dim == "steps":
            T = rng.choice(bucket)
            V = rng.choice([2, 3, 5])
            width = rng.choice([1, 1, 2, 2, 3, 5, 8])
            batch = rng.choice([None, None, 2, 3])
            qbits = 12              # (a hundred steps on the 2^-8 grid are bound to meet a tie)
            lm["cap"] = T + 2       # |score| <= 30 T < 2^12: every sum stays float32-exact on the 2^-12 grid
        else:
            width, V = rng.choice(bucket)
            T = rng.choice([2, 2, 3])
            batch = rng.choice([None, None, 2])
        n = 1 if batch is None else batch
        eos = rng.choice([None, None, 0, V - 1, rng.randrange(V), rng.randrange(V), -1])
        fa = rng.random() < 0.5
        # exact mode (quantising hook) or float mode (the library's own hook, library language models);
        # float mode accumulates rounding errors over the steps: not beyond 33 steps
        fl = rng.random() < 0.5 and T <= 33
        force = None
        if fl:
            kind = rng.choice(["hash", "hash", "fusion", "fusion", "mixfusion", "lookup", "rec"])
            lm.update({"kind": kind, "dtype": rng.choice(["float32", "float32", "float64", "float64", "float16",
                                                          "bfloat16"]), "view": rng.random() < 0.15})
            if kind in ("fusion", "mixfusion") and rng.random() < 0.3:
                lm["dtype2"] = rng.choice([d for d in L.DTYPES if d != lm["dtype"]])
            if kind == "rec":
                lm["h0"] = rng.random() < 0.8
            if kind == "lookup":
                # (a unigram table over more than 257 entries could not be constructed before
                # fixes/C04-lookup-unigram-large-vocab.diff: corpus case lookup_unigram_table_258_entries)
                lm.update({"order": rng.choice([1, 2, 2, 3]), "sos": rng.choice([-1, 0, V - 1, V]),
                           "table_seed": rng.randrange(1, 1 << 30)})
            else:
                lm["beta"] = rng.choice([0.5, 1.0, 0.25])
            via = "nohook"
        else:
            lm.update({"double": rng.random() < 0.2, "view": rng.random() < 0.15})
            via = rng.choice(["instance", "subclass"])
        zeros = lm.get("kind", "hash") not in ("lookup", "rec") and rng.random() < 0.15
        hard = False
        if dim == "steps" and eos is not None:
            if lm.get("kind") == "lookup":
                eos = None          # (no way to keep a table model from emitting eos early)
            else:
                lm["eos_late"] = True       # a long search needs paths that cannot end early
        if dim == "steps" and eos is not None:
            force = [rng.choice([T - 1, T - 1, T - 2, T // 2, T + 3, 3]) for _ in range(n)]
            force[rng.randrange(n)] = rng.choice([T - 1, T - 2, T + 3])     # someone runs (nearly) all the steps
            hard = rng.random() < 0.5
        elif eos is not None and lm.get("kind") != "lookup":
            # elements finish at different depths (early ones stay frozen for the rest of a long search)
            force = [rng.choice([None, None, 0, 1, 2, 3, T // 2, T - 1]) for _ in range(n)]
        if variant == "rare":
            # a long search in which paths end at different steps: eos is possible but unlikely everywhere,
            # ended paths stay in the beam next to live ones, all paths are run to completion
            if lm.get("kind") == "lookup":
                lm.update({"kind": "hash"})
                lm.pop("order", None), lm.pop("sos", None), lm.pop("table_seed", None)
                lm["beta"] = 0.5
            V = max(V, 3)
            eos = rng.randrange(V)
            fa, zeros, force, hard = True, False, None, False
            width = rng.choice([3, 5, 8])
            lm.pop("eos_late", None)
            lm["eos_rare"] = rng.choice([2, 3, 4])
        elif variant in ("front", "back") or (
                dim in ("batch", "steps") and batch is not None and batch > 1 and lm.get("kind") != "lookup"
                and rng.random() < 0.5):
            # stragglers: nearly every element is forced to finish within the first steps and stays frozen,
            # one to three elements ANYWHERE in the batch (the last one included) cannot finish before the
            # step limit (or beyond it): the exit test and the freezing must look at every element
            V = max(V, 3)
            if eos is None:
                eos = rng.randrange(V)
            if dim == "batch":
                T = rng.choice([4, 5, 6])
            if lm.get("kind") == "lookup":
                lm.update({"kind": "hash"})
                lm.pop("order", None), lm.pop("sos", None), lm.pop("table_seed", None)
                lm["beta"] = 0.5
            force = [rng.choice([0, 1, 1, 2]) for _ in range(n)]
            k = min(n, rng.choice([1, 1, 2, 3]))
            late = list(range(k)) if variant == "front" else list(range(n - k, n)) if variant == "back" else \
                rng.sample(range(n), k) + ([n - 1] if rng.random() < 0.4 else [])
            for i in late:
                force[i] = rng.choice([T - 1, T - 1, T + 3])
            hard, zeros = True, False
            lm["eos_late"] = True
        elif dim == "steps" and lm.get("kind") != "lookup" and rng.random() < 0.3:
            # no step limit at all: the search runs until eos, which every element is forced to emit only
            # after about as many steps
            V = max(V, 3)
            eos = rng.randrange(V)
            force = [max(1, T - rng.choice([0, 1, 2, 5])) for _ in range(n)]
            hard, zeros, T = True, False, None
            lm["cap"] += 3
            lm["eos_late"] = True
        return self._search_case(rng, V, T, width, eos, fa, batch, zeros=zeros, qbits=qbits, force=force,
                                 hard=hard, via=via, pad=self._pad_choice(rng, V, eos), lm=lm)

    # max_iters OMITTED means "run until every element has finished", however long that takes: the language
    # model makes eos impossible for hundreds / more than a thousand / two thousand steps (forced depth on both
    # sides of 256, 512, 1024, 2048), then forces it. Tiny vocabulary and width keep such a run cheap (the cost
    # is the length of the histories, quadratic in the depth). Judged by the correspondence with the model (which
    # has no step limit at all when max_iters is unset), C04.length, stops-at-first-eos, run-to-completion.
    LONG_RUN_BUCKETS = ((257, 300, 511, 513, 600), (1025, 1026, 1040, 1100), (1101, 1500, 2047, 2049, 2100))

    def _long_run_case(self, rng, bucket):
        depth = rng.choice(bucket)
        V = rng.choice([2, 3, 3])
        width = rng.choice([1, 1, 2]) if depth <= 1100 else 1
        eos = rng.randrange(V)
        batch = rng.choice([None, None, 2, 3])
        n = 1 if batch is None else batch
        # the other elements of a batch finish within a few steps and stay frozen for the rest of the run
        force = [rng.choice([0, 1, 2, 5]) for _ in range(n)]
        force[rng.randrange(n)] = depth - 1          # (eos forced from step `depth - 1`: `depth` steps)
        lm = {"lazy": True, "cap": depth + 3, "eos_late": True, "double": rng.random() < 0.2,
              "view": rng.random() < 0.15}
        # 2^-8 grid: |score| <= 30 * 2100 < 2^16 stays exact in float32
        return self._search_case(rng, V, None, width, eos, rng.random() < 0.5, batch, zeros=False, qbits=8,
                                 force=force, hard=True, via=rng.choice(["instance", "subclass"]),
                                 pad=self._pad_choice(rng, V, eos), lm=lm)

    def _size_advance_case(self, rng, dim, bucket):
        """One large `beam_search_advance` case; the tensors are regenerated from `gen.seed` (`_adv_data`)
        so that the case stays a few numbers. `dim`: "V", "width", "Kp", "N", "S", "cands" (Kp * V)."""
        N = rng.choice([1, 1, 2, 3])
        Kp = rng.choice([2, 2, 3, 5, 8])
        V = rng.choice([2, 3, 4, 6])
        S = rng.choice([0, 1, 2, 3, 4])
        if dim == "V":
            V = rng.choice(bucket)
            width = rng.choice([2, 2, 3, 4, 7, 8, 16, 17, V - 1, V, V + 1, Kp * V + 2])
        elif dim == "width":
            width = rng.choice(bucket)
            Kp = max(1, math.ceil(width / V) + rng.choice([-1, 0, 1, 5]))
        elif dim == "Kp":
            Kp = rng.choice(bucket)
            width = rng.choice([1, 2, 5, Kp - 1, Kp, Kp + 1] + ([Kp * V - 1, Kp * V + 2] if Kp * V <= 2100 else []))
            if Kp > 600:
                N = 1
        elif dim == "N":
            N = rng.choice(bucket)
            width = rng.choice([1, 2, 3, Kp * V, Kp * V + 2, max(1, Kp * V - 1)])
        elif dim == "S":
            S = rng.choice(bucket)
            width = rng.choice([1, 2, 3, Kp * V, Kp * V + 2, max(1, Kp * V - 1)])
        else:
            Kp, V = rng.choice(bucket)
            N = 1
            width = rng.choice([2, 3, 16, 17, Kp - 1, Kp, Kp + 1, min(2 * Kp + 1, 300)])
        width = max(1, width)
        mode = rng.choice(["none", "full", "ragged", "short"]) if S else rng.choice(["none", "zero"])
        dtype = rng.choice(["float32", "float32", "float64", "float16", "bfloat16"])
        dtype_prev = rng.choice([dtype, dtype, dtype, "float32", "float64"])
        coarse = bool({dtype, dtype_prev} & {"float16", "bfloat16"})
        return {"kind": "advance", "N": N, "Kp": Kp, "V": V, "S": S, "width": width, "malformed": None,
                "layout": rng.choice(["contiguous", "contiguous", "strided", "sliced", "permuted"]),
                "dtype": dtype, "dtype_prev": dtype_prev,
                "gen": {"seed": rng.randrange(1, 1 << 30), "pinf": rng.choice([0.0, 0.0, 0.15, 0.5]),
                        "grid": 3 if coarse else 12, "oov": rng.random() < 0.25, "lens": mode}}

    def _adv_data(self, case):
        """prev / logp / y / lens of an advance case: stored in the case, or regenerated from `gen`
        (values: multiples of 2^-grid in [-30, 0] resp. [-15, 0] for the 2^-3 grid, or -inf)."""
        if "gen" not in case:
            return case
        key = case_hash(case)
        if getattr(self, "_adv_cache", (None,))[0] == key:
            return self._adv_cache[1]
        g = case["gen"]
        r = random.Random(g["seed"])
        N, Kp, V, S = case["N"], case["Kp"], case["V"], case["S"]
        den = 1 << g["grid"]
        top = (15 if g["grid"] == 3 else 30) * den
        pinf = g["pinf"]

        def sc():
            if pinf and r.random() < pinf:
                return "-inf"
            return frac_str(Fraction(-r.randrange(0, top), den))
        prev = [[sc() for _ in range(Kp)] for _ in range(N)]
        logp = [[[sc() for _ in range(V)] for _ in range(Kp)] for _ in range(N)]
        lo, hi = (-2, V + 3) if g["oov"] else (0, V)
        y = [[[r.randrange(lo, hi) for _ in range(S)] for _ in range(Kp)] for _ in range(N)]
        mode = g["lens"]
        lens = None if mode == "none" else [[S if mode == "full" else r.randrange(0, S + 1) if mode == "ragged"
                                             else r.randrange(0, S) if mode == "short" else 0
                                             for _ in range(Kp)] for _ in range(N)]
        out = dict(case, prev=prev, logp=logp, y=y, lens=lens)
        del out["gen"]
        self._adv_cache = (key, out)
        return out

    def _size_cases(self, rng, tier):
        """the large cases of one run: every dimension of every stream in every size bucket"""
        reps = 1 if tier == "quick" else 4
        for _ in range(reps):
            for b in self.SIZE_BUCKETS:
                yield self._size_search_case(rng, "V", b)
                yield self._size_search_case(rng, "V", b)
                yield self._size_advance_case(rng, "V", b)
                yield self._size_search_case(rng, "width", b)
                yield self._size_advance_case(rng, "width", b)
                yield self._size_advance_case(rng, "Kp", b)
            for b in self.BATCH_BUCKETS:
                yield self._size_search_case(rng, "batch", b)
                yield self._size_search_case(rng, "batch", b, "front")
                yield self._size_search_case(rng, "batch", b, "back")
                yield self._size_advance_case(rng, "N", b)
            for b in self.STEP_BUCKETS:
                yield self._size_search_case(rng, "steps", b)
                yield self._size_search_case(rng, "steps", b, "rare")
                yield self._size_advance_case(rng, "S", b)
            for b in self.LONG_RUN_BUCKETS:
                yield self._long_run_case(rng, b)
            # width * V next to 2^13, 2^15 (search: also 2^17 beyond the quick tier), Kp * V up to 2^17
            for i, b in enumerate(self.CAND_BUCKETS):
                if i < 2 or tier != "quick":
                    yield self._size_search_case(rng, "cands", b)
                yield self._size_advance_case(rng, "cands", b)

    def cases(self, rng, tier):
        big = tier != "quick"
        # ---- hand-picked edges first
        yield self._search_case(rng, 2, 0, 3, None, False, None)          # max_iters = 0: only _to_width
        yield self._search_case(rng, 2, 0, 1, 1, True, 2)
        yield self._search_case(rng, 1, 3, 3, 0, True, 2)                 # V = 1, width > candidates
        yield self._search_case(rng, 1, 3, 2, None, False, None)
        yield self._search_case(rng, 3, None, 2, None, False, None)       # neither eos nor max_iters
        yield self._search_case(rng, 3, 2, 2, 3, False, None)             # eos out of range
        yield self._search_case(rng, 3, 2, 2, -4, False, 1)
        yield self._search_case(rng, 2, 3, 4, 1, True, 3, uniform=True)   # ties everywhere
        # ---- malformed constructor / call arguments: the documented error class
        for w in (0, -1):
            yield self._search_case(rng, 2, 2, w, rng.choice([None, 0]), False, rng.choice([None, 2]),
                                    malformed="width")
        for T in (-1, -3):
            yield self._search_case(rng, 2, T, 2, rng.choice([None, 1]), True, rng.choice([None, 2]),
                                    malformed="max_iters")
        # ---- size classes (large vocabulary / width / batch / step limit / candidate count), every stream
        yield from self._size_cases(rng, tier)
        # ---- max_iters = 0 (nothing but the initial beam and _to_width), enumerated
        for V in (1, 2, 3):
            for width in (1, 2, 5):
                for eos in (None, 0, -1):
                    for fa in ((False, True) if eos is not None else (False,)):
                        for batch in (None, 1, 3):
                            yield self._search_case(rng, V, 0, width, eos, fa, batch,
                                                    pad=self._pad_choice(rng, V, eos),
                                                    via=rng.choice(["instance", "subclass", "nohook"]))
        # ---- small grid, enumerated
        Vs = (1, 2) if not big else (1, 2, 3)
        Ts = (1, 2, 3) if not big else (1, 2, 3, 4)
        for V in Vs:
            for T in Ts:
                for width in range(1, V ** T + 3):
                    for eos in [None] + list(range(V)) + [-1]:
                        for fa in ((False, True) if eos is not None else (False,)):
                            for batch in ((None, 2) if not big else (None, 1, 2, 3)):
                                yield self._search_case(rng, V, T, width, eos, fa, batch,
                                                        via=rng.choice(["instance", "subclass"]),
                                                        pad=self._pad_choice(rng, V, eos))
        # ---- random stream
        n_rand = 260 if not big else 5000
        for i in range(n_rand):
            V = rng.choice([2, 3, 3, 4, 5, 6])
            T = rng.choice([1, 2, 3, 4, 5]) if V < 4 else rng.choice([1, 2, 3, 4]) if V == 4 else \
                rng.choice([1, 2, 3])
            full = V ** T
            if full + 2 <= (40 if not big else 300) or rng.random() < (0.02 if not big else 0.05):
                width = rng.choice([1, 2, 3, full - 1, full, full + 1, full + 2, rng.randrange(1, full + 3)])
            else:
                width = rng.choice([1, 2, 3, 4, 5, 7, 9, 12])
            width = max(1, width)
            eos = rng.choice([None] + list(range(V)) + list(range(V)) + [-1, -V])
            fa = rng.random() < 0.5
            batch = rng.choice([None, 1, 2, 2, 3, 3, 4, 5])
            n = 1 if batch is None else batch
            zeros = rng.random() < 0.2
            noctx = rng.random() < 0.06
            force = [rng.choice([None, 0, 1, 2, 3]) for _ in range(n)] if eos is not None and not noctx else None
            qbits = rng.choice([8, 12, 12])
            yield self._search_case(rng, V, T, width, eos, fa, batch, zeros=zeros, qbits=qbits, force=force,
                                    hard=zeros and rng.random() < 0.5,
                                    via=rng.choice(["instance", "subclass"]),
                                    uniform=rng.random() < 0.03, pad=self._pad_choice(rng, V, eos),
                                    lm={"double": rng.random() < 0.2, "noctx": noctx,
                                        "view": rng.random() < 0.15})
            if i % 4 == 0:
                # max_iters unset: termination guaranteed by hard eos-forcing (see design note)
                V2 = rng.choice([2, 3])
                e = rng.randrange(V2)
                fa2 = rng.random() < 0.5
                b2 = rng.choice([None, 2, 3])
                n2 = 1 if b2 is None else b2
                w2 = rng.choice([1, 2, V2]) if fa2 else rng.choice([1, 2, 3, 5, 8])
                fl = rng.random() < 0.3
                yield self._search_case(rng, V2, None, w2, e, fa2, b2, zeros=False, hard=True,
                                        force=[rng.choice([1, 2, 3]) for _ in range(n2)],
                                        pad=self._pad_choice(rng, V2, e),
                                        via="nohook" if fl else rng.choice(["instance", "subclass"]),
                                        lm={"kind": rng.choice(["hash", "fusion", "mixfusion", "rec"]),
                                            "dtype": rng.choice(L.DTYPES)} if fl else None)
            if i % 8 == 1:
                # a step limit far beyond the depth at which every element has finished (frozen for long)
                V2 = rng.choice([2, 3, 4])
                e = rng.randrange(V2)
                b2 = rng.choice([None, 2, 3, 4])
                n2 = 1 if b2 is None else b2
                fl = rng.random() < 0.3
                yield self._search_case(rng, V2, rng.choice([7, 9, 12]), rng.choice([1, 2, 3, 5, V2 ** 3 + 1]), e,
                                        rng.random() < 0.6, b2, hard=True,
                                        force=[rng.choice([0, 1, 2, 3]) for _ in range(n2)],
                                        pad=self._pad_choice(rng, V2, e),
                                        via="nohook" if fl else rng.choice(["instance", "subclass"]),
                                        lm={"kind": rng.choice(["hash", "fusion", "rec"]),
                                            "dtype": rng.choice(L.DTYPES)} if fl else None)
            if i % 2 == 0:
                # float mode: the library's own hook, library language models
                yield self._float_case(rng, big)
            if i % 2 == 0:
                yield self._advance_case(rng)
            if i % 10 == 0:
                yield self._advance_case(rng, rng.choice(["width0", "lens_gt_S", "t0_lens", "shape"]))

    def _float_case(self, rng, big):
        kind = rng.choice(["hash", "fusion", "fusion", "mixfusion", "lookup", "lookup", "rec", "rec"])
        V = rng.choice([2, 3, 3, 4, 5])
        T = rng.choice([1, 2, 3, 4]) if V <= 3 else rng.choice([1, 2, 3])
        full = V ** T
        if full + 2 <= 40 or rng.random() < 0.03:
            width = rng.choice([1, 2, 3, full - 1, full, full + 1, full + 2, rng.randrange(1, full + 3)])
        else:
            width = rng.choice([1, 2, 3, 4, 5, 7, 9])
        width = max(1, width)
        eos = rng.choice([None] + list(range(V)) + list(range(V)) + [-1])
        fa = rng.random() < 0.5
        batch = rng.choice([None, 1, 2, 3, 4])
        n = 1 if batch is None else batch
        # every floating dtype a model may compute in; the comparison is scaled to the dtype the search then
        # accumulates in (tol_of / gap_of): a float64 model is held to float64 accuracy
        dt = rng.choice(["float32", "float32", "float64", "float64", "float64", "float16", "bfloat16"])
        lm = {"kind": kind, "dtype": dt, "view": rng.random() < 0.15}
        if kind in ("fusion", "mixfusion") and rng.random() < 0.3:
            lm["dtype2"] = rng.choice([d for d in L.DTYPES if d != dt])     # components of different precision
        if kind in ("hash", "fusion", "mixfusion") and rng.random() < 0.3:
            # near-ties: tokens of a row separated by 2 / 16 / 256 decision margins of the accumulating dtype
            lm["neartie"] = rng.choice([1, 4, 8])
        if kind == "rec":
            lm["h0"] = rng.random() < 0.8       # floating initial state given by the caller / model default
        if kind != "lookup" and rng.random() < 0.12:
            lm["scale"] = rng.choice([16, 128])  # large-magnitude logits (log-probabilities down to -800)
        if rng.random() < 0.1:
            lm["default64"] = True              # torch.set_default_dtype(torch.float64) around everything
        force = None
        if kind == "lookup":
            lm.update({"order": rng.choice([1, 2, 2, 3]), "sos": rng.choice([-1, 0, V - 1, V]),
                       "table_seed": rng.randrange(1, 1 << 30)})
        else:
            lm["noctx"] = rng.random() < 0.06
            lm["beta"] = rng.choice([0.5, 1.0, 0.25])
            if eos is not None and not lm["noctx"]:
                force = [rng.choice([None, 0, 1, 2, 3]) for _ in range(n)]
        zeros = kind not in ("lookup", "rec") and rng.random() < 0.2
        hard = (zeros and rng.random() < 0.5) or (kind == "rec" and rng.random() < 0.15)
        return self._search_case(rng, V, T, width, eos, fa, batch, zeros=zeros, force=force,
                                 hard=hard, via="nohook",
                                 pad=self._pad_choice(rng, V, eos), lm=lm)

    # ------------------------------------------------------------------ implementation
    def _tables(self, case):
        V, n = case["V"], len(case["seeds"])
        e = norm_eos(V, case["eos"])
        e_tok = e if isinstance(e, int) else None
        T = case["max_iters"]
        if T is None:
            ds = [d for d in case["force"] if d is not None]
            depth = (max(ds) + 2) if ds else 3
        else:
            depth = max(T - 1, 0)
            fd = self._forced_depth(case)
            if fd is not None:
                depth = min(depth, fd + 2)
        ctx = L.make_ctx(case["seeds"], case["force"], e_tok)
        quant = not is_float(case)
        with L.default_dtype(case["lm"]):
            lm = L.make_lm(V, case["qbits"], dict(case["lm"], lazy=False))
            build = L.build_table
            if case["lm"].get("lazy"):
                # size classes: rows are computed when asked for (see LazyTable); when the whole tree of
                # histories is small it is asked for right away, so that the completeness oracle can be used
                def build(*a):
                    tb = L.LazyTable(*a)
                    if self._small(case):
                        for d in range(depth + 1):
                            for h in itertools.product(range(V), repeat=d):
                                tb.get(h)
                    return tb
            if case["lm"].get("noctx") or case["lm"].get("kind") == "lookup":
                # nothing distinguishes the batch elements
                tb = build(lm, ctx[0], case["qbits"], depth, e_tok, case["lm"], quant)
                return [tb] * n, ctx, e_tok
            return [build(lm, ctx[i], case["qbits"], depth, e_tok, case["lm"], quant)
                    for i in range(n)], ctx, e_tok

    @staticmethod
    def _sep_evaluated(case):
        """`sepB` compares every selected candidate with every candidate (width x width*V pairs per step): it
        is re-evaluated by the driver up to 2^18 pairs, i.e. on all small cases and on the size classes with
        beams up to width 16 at V = 1024 / width 200 at V = 6; beyond that the comparison rule is applied
        without this side check (tag `float.skeleton_stable_hypothesis(sepB)=not evaluated`)."""
        return case["width"] * case["width"] * case["V"] <= 1 << 18

    def _small(self, case):
        """the whole tree of histories up to the step limit is small enough to be enumerated (completeness
        oracle `completeFrom`)"""
        T = case["max_iters"]
        fd = self._forced_depth(case)
        return T is not None and (case["V"] ** T <= 300 or (fd is not None and case["V"] ** (fd + 1) <= 300))

    @staticmethod
    def _forced_depth(case):
        """eos is hard-forced for every element from some depth on: no usable path is longer than that
        depth + 1, whatever max_iters is (lets the step limit be large while the table stays small)."""
        if not case["lm"].get("hard_force") or norm_eos(case["V"], case["eos"]) in (None, "invalid"):
            return None
        if case["lm"].get("noctx") or any(f is None for f in case["force"]):
            return None
        return max(case["force"])

    @staticmethod
    def _observe(y, lens, lp):
        slots = []
        for k in range(lp.size(0)):
            sc = L.fr(lp[k])
            if sc == "-inf":
                slots.append({"score": "-inf"})
            else:
                ln = int(lens[k])
                slots.append({"score": frac_str(sc) if not isinstance(sc, str) else sc, "len": ln,
                              "path": [int(x) for x in y[:max(ln, 0), k]]})
        return slots

    @staticmethod
    def junk_of(case):
        """What the integer cells `Tensor.new_empty` leaves uninitialised hold during the search
        (`beam_search_advance` pads the beam with `y_next.new_empty(...)` columns while fewer than `width`
        candidates exist).  The Lean model carries that value as the parameter `Cfg.junk`, every theorem holds for
        all of its values and the driver runs `junk = 0`; only finite-score slots are compared.  So that the
        implementation is exercised on more than whatever the allocator hands out (mostly zeros): None = leave
        the memory alone, else the eos token (a junk column then 'ends in eos'), a negative number, a token beyond
        the vocabulary.  A deterministic function of the case (audit, round e)."""
        if "junk" in case:
            return case["junk"]
        V, e = case["V"], case.get("eos")
        eos = (e + V) % V if isinstance(e, int) and -V <= e < V else V - 1
        return [None, eos, -7, V + 5, eos][int(case_hash(case), 16) % 5]

    @staticmethod
    @contextlib.contextmanager
    def junk_cells(value):
        import torch
        if value is None:
            yield
            return
        orig = torch.Tensor.new_empty

        def new_empty(self, *a, **k):
            t = orig(self, *a, **k)
            if not t.is_floating_point() and t.dtype != torch.bool:
                t.fill_(value)
            return t

        torch.Tensor.new_empty = new_empty
        try:
            yield
        finally:
            torch.Tensor.new_empty = orig

    def _run_search(self, case, ctx, batch):
        import torch
        with L.default_dtype(case["lm"]), torch.no_grad(), self.junk_cells(self.junk_of(case)):
            lm = L.make_lm(case["V"], case["qbits"], case["lm"])
            s = L.make_search(lm, case["width"], case["eos"], case["finish_all"], case["pad"], case["qbits"],
                              case.get("via", "instance"))
            y, lens, lp = s(L.initial_state(case["lm"], ctx), batch, case["max_iters"])
        return s, lm, y, lens, lp

    def _state_follows(self, case, s, tables, e_tok):
        """The scores the search actually used for a live finite slot (logged by the hook) must be the
        table's scores for that slot's own path: fails when LM state does not follow the paths."""
        import torch
        out = []
        if s.hook_log is None:      # float mode: no hook installed, nothing logged
            return out
        for t, (lpp, q, yp, yl, em) in enumerate(s.hook_log):
            N, K = lpp.shape
            for n in range(N):
                if e_tok is not None and t > 0:
                    done = bool(em[n].all()) if case["finish_all"] else bool(em[n, 0])
                    if done:
                        continue
                for k in range(K):
                    if torch.isinf(lpp[n, k]) or bool(em[n, k]):
                        continue
                    path = tuple(yp[:int(yl[n, k]), n, k].tolist())
                    want = tables[n].get(path)
                    got = q[n, k].tolist()
                    if want is None:
                        out.append(f"step {t} element {n} slot {k}: live finite path {list(path)} is not a "
                                   f"history of length {t}")
                    elif want != got:
                        out.append(f"step {t} element {n} slot {k}: LM scored path {list(path)} with {got}, "
                                   f"its own unbatched scores are {want}")
                    if len(out) >= 3:
                        return out
        return out

    def run_impl(self, case):
        if case["kind"] == "advance":
            return self._run_advance(case)
        batch = case["batch"]
        if case.get("malformed"):
            ctx = L.make_ctx(case["seeds"], case["force"], None)
            self._run_search(case, ctx if batch is not None else ctx[:1], batch)   # must raise
            return {"accepted": True}
        tables, ctx, e_tok = self._tables(case)
        self._cache = {"key": case_hash(case), "tables": tables}
        s, lm, y, lens, lp = self._run_search(case, ctx if batch is not None else ctx[:1], batch)
        if batch is None:
            elems = [self._observe(y, lens, lp)]
            yy = y.unsqueeze(1)
        else:
            elems = [self._observe(y[:, n], lens[n], lp[n]) for n in range(batch)]
            yy = y
        if case["lm"].get("lazy"):
            # tables built on demand: the unbatched model is asked about every history the searched model was
            # called on (all columns of every call; the table refuses what can never be live: histories that
            # contain eos) and about every prefix of every returned path (what `chain` needs)
            for hist in lm.hists or []:
                cols = hist.t().tolist()
                per = max(1, len(cols) // len(tables))
                for j, col in enumerate(cols):
                    tables[min(j // per, len(tables) - 1)].get(col)
            for n, slots in enumerate(elems):
                for sl in slots:
                    for k in range(len(sl.get("path", ()))):
                        tables[n].get(sl["path"][:k])
        # trailing rows of each element that hold nothing but pad_value (frozen elements are right-padded)
        pad_rows = []
        for n in range(yy.size(1)):
            r = 0
            while r < yy.size(0) and bool((yy[yy.size(0) - 1 - r, n] == case["pad"]).all()):
                r += 1
            pad_rows.append(r)
        obs = {"elems": elems, "S": int(y.size(0)), "pad_rows": pad_rows,
               "steps": len(s.hook_log) if s.hook_log is not None else len({c[0] for c in lm.calls}),
               "dtypes": [str(y.dtype), str(lens.dtype)],
               "state": self._state_follows(case, s, tables, e_tok),
               "shape_ok": (list(lp.shape) == ([case["width"]] if batch is None else [batch, case["width"]])
                            and list(lens.shape) == list(lp.shape)
                            and list(y.shape[1:]) == list(lp.shape))}
        # the LM contract: idx <= hist.size(0) at every call
        obs["lm_contract"] = all(i <= S for (i, S, _) in lm.calls)
        # done elements must be frozen: what each element returns alone
        if batch is not None:
            single = []
            for n in range(batch):
                try:
                    _, _, y1, l1, p1 = self._run_search(case, ctx[n:n + 1], None)
                    single.append(self._observe(y1, l1, p1))
                except Exception as ex:  # noqa
                    single.append({"error": type(ex).__name__})
            obs["single"] = single
        self._cache["impl"] = obs
        return obs

    def _run_advance(self, case):
        import torch
        case = self._adv_data(case)
        from pydrobert.torch.functional import beam_search_advance

        def fl(v):
            return float("-inf") if v == "-inf" else float(Fraction(v))

        dt = getattr(torch, case.get("dtype", "float32"))
        dtp = getattr(torch, case.get("dtype_prev", case.get("dtype", "float32")))
        layout = case.get("layout", "contiguous")
        strided = layout != "contiguous"

        def T(x):
            return torch.tensor([[[fl(v) for v in r] for r in m] for m in x], dtype=dt)

        def view(t):
            """the same values as a non-contiguous view: every second entry of a tensor twice as long
            (strided), the left part of a wider tensor (sliced: dimensions cannot be merged without a
            copy), or stored with the dimensions in reverse order (permuted)"""
            if not strided or t.dim() == 0 or t.numel() == 0:
                return t
            if layout == "strided":
                big = torch.stack([t, torch.full_like(t, 7)], -1).flatten(-2)
                return big[..., ::2]
            if layout == "sliced":
                big = torch.cat([t, torch.full_like(t[..., :1], 7)], -1)
                return big[..., :-1]
            dims = list(range(t.dim()))[::-1]
            return t.permute(dims).contiguous().permute(dims)
        N, Kp, V, S = case["N"], case["Kp"], case["V"], case["S"]
        logp = view(T(case["logp"]).reshape(N, Kp, V))
        prev = view(torch.tensor([[fl(v) for v in r] for r in case["prev"]], dtype=dtp).reshape(
            N, len(case["prev"][0]) if case["prev"] else Kp))
        y = torch.tensor(case["y"], dtype=torch.long).reshape(N, Kp, S).permute(2, 0, 1)
        y = view(y.contiguous()) if layout in ("strided", "sliced") else y if strided else y.contiguous()
        lens = None if case["lens"] is None else view(torch.tensor(case["lens"], dtype=torch.long))
        yn, ln, lpn, src = beam_search_advance(logp, case["width"], prev, y, lens)
        K = min(case["width"], Kp * V)
        rows = []
        for n in range(N):
            slots = []
            for k in range(case["width"]):
                sc = L.fr(lpn[n, k])
                l_ = int(ln[n, k])
                d = {"score": sc if isinstance(sc, str) else frac_str(sc), "len": l_, "src": int(src[n, k])}
                if k < K:
                    d["path"] = [int(x) for x in yn[:max(l_, 0), n, k]]
                slots.append(d)
            rows.append(slots)
        return {"S": int(yn.size(0)), "rows": rows,
                "shape_ok": list(yn.shape[1:]) == [N, case["width"]] == list(ln.shape) == list(lpn.shape)}

    # ------------------------------------------------------------------ model
    def model_request(self, case):
        if case["kind"] == "advance":
            case = self._adv_data(case)
            lens = case["lens"]
            rows = []
            for n in range(case["N"]):
                rows.append({"cols": case["y"][n],
                             "lens": lens[n] if lens is not None else [case["S"]] * case["Kp"],
                             "scores": case["prev"][n], "logp": case["logp"][n]})
            if case.get("malformed") == "shape":
                return None
            return {"op": "c04.advance", "case": {"V": case["V"], "width": case["width"], "S": case["S"],
                                                  "lens_given": lens is not None, "rows": rows}}
        if case.get("malformed"):
            return None
        if self._cache.get("key") == case_hash(case) and "tables" in self._cache:
            tables = self._cache["tables"]
            impl = self._cache.get("impl")
        else:
            try:
                tables, _, _ = self._tables(case)
            except Exception:       # the language model cannot even be constructed: the predicate reports it
                return None
            impl = None
        if impl is None:
            from common.framework import safe_impl
            impl = safe_impl(self, case)
            tables = self._cache.get("tables", tables)
        queries = []
        n = len(case["seeds"])
        for i in range(n):
            q = []
            if isinstance(impl, dict) and "elems" in impl and i < len(impl["elems"]):
                q = [s["path"] for s in impl["elems"][i] if "path" in s]
            queries.append(q)
        T = case["max_iters"]
        # on-demand tables always hold the row of the empty history: one step can be judged for completeness
        # whatever the vocabulary size is (V complete sequences)
        small = self._small(case) or (bool(case["lm"].get("lazy")) and T is not None and T <= 1)
        comp = T if (small and norm_eos(case["V"], case["eos"]) != "invalid") else None
        batch = [{"table": [[list(h), [frac_str(x) for x in sc]] for h, sc in tb.items()]} for tb in tables]
        req = {"V": case["V"], "width": case["width"], "eos": case["eos"], "finish_all": case["finish_all"],
               "pad": case["pad"], "max_iters": T, "batch": batch, "queries": queries, "complete_T": comp}
        if is_float(case) and self._sep_evaluated(case):
            # the driver also evaluates the hypothesis of C04_skeleton_stable (`sepB margin` on every
            # selection of the model's trajectory) with margin = half the decision margin = 8 tolerances
            req["margin"] = frac_str(gap_of(case) / 2)
        return {"op": "c04.search", "case": req}

    # ------------------------------------------------------------------ correspondence
    ERR = {"ValueError": "value", "RuntimeError": "runtime", "IndexError": "runtime"}

    def compare(self, case, impl, model):
        m = model["model"]
        flags = model.get("flags", {})
        if len(self._flagmap) > 5000:
            self._flagmap.clear()
        self._flagmap[case_hash(case)] = (flags, "error" in m)
        if flags.get("n_missing"):
            # the table holds the unbatched model's scores of every history the searched model was called on
            # (or, for small cases, of all histories); the Lean model followed a live path that is not among
            # them and stopped there. After a tie the two may legitimately part ways.
            if tie_like(case, flags):
                return []
            return [f"step {flags.get('steps')}: the model needs the language model's scores of "
                    f"{flags['n_missing']} live histories the implementation never asked the language model "
                    f"about, e.g. {flags.get('missing')}; implementation: {short(impl, 200)}"]
        if "error" in impl:
            if "error" in m and self.ERR.get(impl["error"]) == m["error"]:
                return []
            if "error" not in m and flags.get("ninf_choice"):
                return []   # an error that depends on how -inf ties were broken: oracle-only
            return [f"implementation raised {impl['error']} ({impl.get('message')}), model: {str(m)[:200]}"]
        if "error" in m:
            if flags.get("ninf_choice"):
                return []
            return [f"model raises {m['error']} ({m.get('detail')}), implementation returned a value"]
        if is_float(case) and flags.get("sep") is False and not tie_like(case, flags):
            # the margin rule by which float-mode paths are compared must imply the hypothesis of the
            # proved stability theorem (C04_skeleton_stable: every selection decided by more than `margin`)
            return [f"margin rule holds (gap {flags.get('gap')} >= {gap_of(case)}) but the model's trajectory "
                    f"does not satisfy sepB {gap_of(case) / 2}: the rule is not covered by C04_skeleton_stable"]
        if tie_like(case, flags):
            return []
        out = []
        if case["kind"] == "advance":
            if impl["S"] != m["S"]:
                out.append(f"sequence dimension impl={impl['S']} model={m['S']}")
            for n, (a, b) in enumerate(zip(impl["rows"], m["rows"])):
                for k, sa in enumerate(a):
                    sb = b["slots"][k]
                    if sa["score"] != sb["score"]:
                        out.append(f"row {n} slot {k}: score impl={sa['score']} model={sb['score']}")
                        continue
                    if sa["score"] == "-inf" and flags.get("ninf_choice"):
                        continue
                    if "path" not in sa:     # padding slot
                        if sa["len"] != 0 or sa["src"] != 0:
                            out.append(f"row {n} padding slot {k}: len/src impl={sa['len']},{sa['src']}")
                        continue
                    if (sa["len"], sa["path"], sa["src"]) != (sb["len"], sb["path"], b["src"][k]):
                        out.append(f"row {n} slot {k}: impl={sa} model={sb} src={b['src'][k]}")
            return out[:5]
        if len(impl["elems"]) != len(m["elems"]):
            return [f"batch size impl={len(impl['elems'])} model={len(m['elems'])}"]
        if impl["S"] != m["S"]:
            out.append(f"sequence dimension of the returned paths impl={impl['S']} model={m['S']}")
        for n, (a, b) in enumerate(zip(impl["elems"], m["elems"])):
            if len(a) != len(b):
                out.append(f"element {n}: {len(a)} slots, model {len(b)}")
                continue
            fa = [s for s in a if s["score"] != "-inf"]
            fb = [{"score": s["score"], "len": s["len"], "path": s["path"]} for s in b if s["score"] != "-inf"]
            if not same_slots(case, fa, fb):
                out.append(f"element {n}: finite slots impl={fa} model={fb}")
        return out[:5]

    # ------------------------------------------------------------------ the property on the implementation
    def predicate(self, case, impl, model):
        if case["kind"] == "advance":
            return self._pred_advance(case, impl, model)
        m = (model or {}).get("model", {})
        flags = (model or {}).get("flags", {})
        spec = (model or {}).get("spec") or {}
        fails = []
        if case.get("malformed"):
            want = "ValueError" if case["malformed"] == "width" else "RuntimeError"
            if impl.get("error") != want:
                return [(f"malformed {case['malformed']} (width={case['width']}, max_iters={case['max_iters']}): "
                         f"expected {want}, got {impl.get('error', 'a value')}", None)]
            return []
        if "error" in impl:
            expected = None
            if norm_eos(case["V"], case["eos"]) == "invalid":
                expected = "ValueError"
            elif case["max_iters"] is None and case["eos"] is None:
                expected = "RuntimeError"
            if impl["error"] != expected:
                if flags.get("ninf_choice") and impl["error"] in ("RuntimeError", "IndexError") \
                        and case["lm"].get("zeros"):
                    # degenerate: all-(-inf) slots left to arbitrary tie-breaking; see design note
                    return [(f"search raised {impl['error']} with -inf slots in the beam: {impl.get('message')}",
                             "C04.search.raises_with_neginf_slots")]
                if impl["error"] == "OverflowError" and case["lm"].get("kind") == "lookup" \
                        and case["lm"].get("order") == 1 and "uint8" in str(impl.get("message")):
                    # numpy 2: the unigram indices are converted to the (uint8) offset type nothing reads
                    return [(f"the unigram LookupLanguageModel over {case['V']} tokens cannot be constructed: "
                             f"{impl.get('message')}", "C04.lookup.unigram_table_not_constructible")]
                return [(f"search raised {impl['error']}: {impl.get('message')}", None)]
            return []
        if norm_eos(case["V"], case["eos"]) == "invalid":
            return [("eos outside the vocabulary accepted", None)]
        if case["max_iters"] is None and case["eos"] is None:
            return [("neither eos nor max_iters set, yet a value was returned", None)]
        V, width = case["V"], case["width"]
        eos = spec.get("eos")
        if not impl.get("shape_ok"):
            fails.append(("returned tensors do not have shape (S, N*, width), (N*, width), (N*, width)", None))
        if impl.get("dtypes", ["torch.int64"] * 2) != ["torch.int64"] * 2:
            fails.append((f"paths / lengths are not long tensors: {impl['dtypes']}", None))
        loose = tie_like(case, flags)
        # frozen elements are right-padded with pad_value from the row at which they finished
        if not loose and "frozen" in flags and "pad_rows" in impl:
            for n, f in enumerate(flags["frozen"]):
                if f is not None and n < len(impl["pad_rows"]) and impl["S"] - impl["pad_rows"][n] > f:
                    fails.append((f"element {n} finished when the paths had {f} rows, but rows {f}.."
                                  f"{impl['S'] - 1} of its beam are not all pad_value={case['pad']} "
                                  f"(only the last {impl['pad_rows'][n]} are)", "C04.pad"))
        chains = spec.get("chain", [])
        for n, slots in enumerate(impl["elems"]):
            if len(slots) != width:
                fails.append((f"element {n}: {len(slots)} slots for width {width}", None))
            fin = [s for s in slots if s["score"] != "-inf"]
            # sorted, -inf last
            sc = [S2F(s["score"]) for s in slots]
            for k in range(len(sc) - 1):
                if not fle(sc[k + 1], sc[k]):
                    fails.append((f"element {n}: slot {k + 1} ({sc[k + 1]}) beats slot {k} ({sc[k]})",
                                  "C04.sorted"))
                    break
            # distinct
            seen = {}
            for k, s in enumerate(fin):
                key = tuple(s["path"])
                if key in seen:
                    fails.append((f"element {n}: path {s['path']} returned twice with finite scores", "C04.distinct"))
                    break
                seen[key] = k
            ch = chains[n] if n < len(chains) else []
            for k, s in enumerate(fin):
                p = s["path"]
                if s["len"] != len(p) or s["len"] > impl["S"]:
                    fails.append((f"element {n}: length {s['len']} exceeds the returned sequence dimension", None))
                    continue
                if any(not (0 <= x < V) for x in p):
                    fails.append((f"element {n}: path {p} has out-of-vocabulary tokens", None))
                if eos is not None and eos in p[:-1]:
                    fails.append((f"element {n}: path {p} continues after eos={eos}", "C04.eos"))
                if case["max_iters"] is not None and len(p) > case["max_iters"]:
                    fails.append((f"element {n}: path {p} longer than max_iters", None))
                if k < len(ch) and not close(case, ch[k], s["score"]):
                    fails.append((f"element {n}: path {p} reported {s['score']}, the LM's chained score of it "
                                  f"is {ch[k]}", "C04.score"))
        # where a returned path may stop (whatever way ties were broken): a finite path that was not ended by eos
        # is as long as the step limit - for every slot when all paths are run to completion or eos is unset, for
        # the best slot otherwise (its element is finished only when that path has ended)
        T = case["max_iters"]
        for n, slots in enumerate(impl["elems"]):
            for k, s in enumerate(slots):
                if s["score"] == "-inf" or (k > 0 and eos is not None and not case["finish_all"]):
                    continue
                p = s["path"]
                if not (eos is not None and p and p[-1] == eos) and len(p) != T:
                    fails.append((f"element {n} slot {k}: path of length {len(p)} neither ends in eos={eos} nor "
                                  f"has the length of the step limit max_iters={T}: {short(p, 80)}", "C04.length"))
                    break
        for msg in impl.get("state", []):
            fails.append((msg, "C04.state_follows"))
        if not impl.get("lm_contract", True) and not flags.get("ninf_choice"):
            fails.append(("the LM was called with idx > hist.size(0)", None))
        # batch independence (tie cases may legitimately differ: topk is free to break ties per call)
        if "single" in impl and not loose:
            for n, (a, b) in enumerate(zip(impl["elems"], impl["single"])):
                if isinstance(b, dict):
                    fails.append((f"element {n} alone raises {b['error']}", "C04.batch"))
                    continue
                fa = [s for s in a if s["score"] != "-inf"]
                fb = [s for s in b if s["score"] != "-inf"]
                if not same_slots(case, fa, fb):
                    fails.append((f"element {n}: in the batch {fa}, alone {fb}", "C04.batch"))
        # completeness
        comp = spec.get("complete")
        if comp is not None and (eos is None or case["finish_all"]):
            for n, slots in enumerate(impl["elems"]):
                if n >= len(comp) or width < len(comp[n]):
                    continue
                want = sorted((tuple(c["path"]), c["score"]) for c in comp[n])
                got = sorted((tuple(s["path"]), s["score"]) for s in slots if s["score"] != "-inf")
                if len(want) != len(got) or any(a[0] != b[0] or not close(case, a[1], b[1])
                                                for a, b in zip(want, got)):
                    fails.append((f"element {n}: width {width} >= {len(want)} complete sequences but returned "
                                  f"{got} instead of {want}", "C04.complete"))
        return fails[:8]

    def _pred_advance(self, case, impl, model):
        case = self._adv_data(case)
        mal = case.get("malformed")
        if "error" in impl:
            if mal and impl["error"] in ("RuntimeError", "IndexError"):
                return []
            if mal is None and model and "error" in model["model"]:
                return []    # e.g. K < width without growth: documented shapes cannot be produced
            return [(f"beam_search_advance raised {impl['error']}: {impl.get('message')}", None)]
        if mal:
            return [(f"malformed arguments ({mal}) accepted", None)]
        fails = []
        N, Kp, V, S, width = case["N"], case["Kp"], case["V"], case["S"], case["width"]
        K = min(width, Kp * V)
        lens = case["lens"] if case["lens"] is not None else [[S] * Kp for _ in range(N)]
        if not impl.get("shape_ok"):
            fails.append(("output shapes are not (S', N, width)/(N, width)", None))
        for n in range(N):
            slots = impl["rows"][n]
            cand = {(k, v): fsum(S2F(case["prev"][n][k]), S2F(case["logp"][n][k][v]))
                    for k in range(Kp) for v in range(V)}
            chosen = []
            for k, s in enumerate(slots):
                sc = S2F(s["score"])
                if k >= K:
                    if sc != "-inf":
                        fails.append((f"row {n}: padding slot {k} has finite score", None))
                    continue
                src = s["src"]
                if not (0 <= src < Kp) or s["len"] < 1 or len(s["path"]) != s["len"]:
                    fails.append((f"row {n} slot {k}: src/len out of range {s}", None))
                    continue
                tok = s["path"][-1]
                if not (0 <= tok < V):
                    fails.append((f"row {n} slot {k}: token out of range", None))
                    continue
                chosen.append((src, tok))
                if s["len"] != lens[n][src] + 1 or s["path"][:-1] != case["y"][n][src][:lens[n][src]]:
                    fails.append((f"row {n} slot {k}: not its source's prefix plus one token: {s}", None))
                if cand[(src, tok)] != sc:
                    fails.append((f"row {n} slot {k}: score {sc} != prev[src] + log_probs_t[src, tok] = "
                                  f"{cand[(src, tok)]}", None))
            if len(set(chosen)) != len(chosen):
                fails.append((f"row {n}: a candidate was selected twice", None))
            sc = [S2F(s["score"]) for s in slots]
            if any(not fle(sc[k + 1], sc[k]) for k in range(len(sc) - 1)):
                fails.append((f"row {n}: scores not non-increasing", None))
            taken = set(chosen)
            rest = [c for kv, c in cand.items() if kv not in taken]
            if chosen and rest and len(chosen) == K:
                worst = sc[K - 1]
                if any(not fle(r, worst) for r in rest):
                    fails.append((f"row {n}: a candidate left out beats a selected one", None))
        return fails[:6]

    # ------------------------------------------------------------------ evidence
    def nontrivial(self, case, impl):
        if not isinstance(impl, dict) or "error" in impl or case.get("malformed"):
            return False
        if case["kind"] == "advance":
            return min(case["width"], case["Kp"] * case["V"]) < case["Kp"] * case["V"] and case["S"] > 0
        T = case["max_iters"]
        fin = [len([s for s in e if s["score"] != "-inf"]) for e in impl["elems"]]
        pruned = T is not None and T >= 2 and case["width"] < case["V"] ** min(T, 8)
        multi = len(impl["elems"]) > 1 and impl["steps"] >= 2 and case["eos"] is not None
        return (max(fin) >= 2 and (pruned or T is None)) or multi

    def tags(self, case, impl):
        fl = self._flagmap.get(case_hash(case))
        ft = []
        if fl is not None:
            fl = (None,) + fl
            if fl[1].get("tie"):
                ft.append(case["kind"] + ".stream=tie(predicates only)")
            elif tie_like(case, fl[1]):
                ft.append(case["kind"] + ".stream=near-tie in float mode(predicates only)")
            elif fl[1].get("ninf_choice"):
                ft.append(case["kind"] + ".stream=exact(finite slots; -inf ties present)")
            else:
                ft.append(case["kind"] + ".stream=exact")
                if is_float(case) and not self._sep_evaluated(case):
                    ft.append("float.skeleton_stable_hypothesis(sepB)=not evaluated (more than 2^18 pairs)")
                elif is_float(case) and fl[1].get("sep") is True:
                    ft.append("float.skeleton_stable_hypothesis(sepB)=holds")
            if fl[2]:
                ft.append(case["kind"] + ".model_error")
        return ft + self._tags(case, impl)

    def _tags(self, case, impl):
        if case["kind"] == "advance":
            regenerated = "gen" in case
            case = self._adv_data(case)
            t = ["advance", f"advance.lens={'none' if case['lens'] is None else 'given'}",
                 f"advance.S={'0' if case['S'] == 0 else '>0'}",
                 "advance.layout=" + case.get("layout", "contiguous"),
                 "advance.dtype=" + case.get("dtype", "float32") +
                 ("" if case.get("dtype_prev", case.get("dtype")) == case.get("dtype") else
                  "(log_probs_prev: " + case["dtype_prev"] + ")")]
            if any(not (0 <= x < case["V"]) for m_ in case["y"] for r in m_ for x in r):
                t.append("advance.prefix_tokens_out_of_vocabulary")
            if case.get("malformed"):
                t.append("advance.malformed=" + case["malformed"])
            if regenerated:
                t.append("advance.size: tensors regenerated from a seed")
            for nm, x in (("V", case["V"]), ("Kp", case["Kp"]), ("width", case["width"])):
                if self.size_label(x):
                    t.append(f"advance.size.{nm}={self.size_label(x)}")
            if case["N"] >= 8:
                t.append("advance.size.N=" + ("8..100" if case["N"] <= 100 else ">100"))
            if case["S"] >= 16:
                t.append("advance.size.S=" + ("16..33" if case["S"] <= 33 else "34..100" if case["S"] <= 100
                                              else ">100"))
            if case["Kp"] * case["V"] >= 1 << 12:
                t.append(f"advance.size.candidates>=2^{(case['Kp'] * case['V']).bit_length() - 1}")
            return t
        V, T = case["V"], case["max_iters"]
        if case.get("malformed"):
            return ["search", "search.malformed=" + case["malformed"]]
        jk = self.junk_of(case)
        junk_tag = "search.uninitialised_cells=" + ("as allocated" if jk is None else "negative" if jk < 0 else
                                                    "beyond vocabulary" if jk >= V else "the eos token")
        sz = []
        if case["lm"].get("lazy"):
            sz.append("search.size: tables built on demand")
        for nm, x in (("V", V), ("width", case["width"])):
            if self.size_label(x):
                sz.append(f"search.size.{nm}={self.size_label(x)}")
        if (case["batch"] or 0) >= 8:
            sz.append("search.size.batch=" + ("8..100" if case["batch"] <= 100 else ">100"))
        if (T or 0) >= 16:
            sz.append("search.size.max_iters=" + ("16..33" if T <= 33 else "34..100" if T <= 100 else ">100"))
        if case["width"] * V >= 1 << 12:
            sz.append(f"search.size.candidates>=2^{(case['width'] * V).bit_length() - 1}")
        fd_ = self._forced_depth(case)
        if T is None and fd_ is not None and fd_ >= 16:
            sz.append("search.size.max_iters omitted, forced steps=" + (
                "17..130" if fd_ < 256 else "257..1024" if fd_ < 1024 else "1025..2048" if fd_ < 2048 else ">2048"))
        if sz:
            # the histograms of V / max_iters / batch list the small values; the large ones are binned
            V_, T_, B_ = (">16" if V > 16 else V), (">=16" if (T or 0) >= 16 else T), \
                (">=8" if (case["batch"] or 0) >= 8 else case["batch"])
        else:
            V_, T_, B_ = V, T, case["batch"]
        t = ["search", junk_tag, f"V={V_}", f"max_iters={T_}", f"batch={B_}",
             f"finish_all={case['finish_all']}", "via=" + case.get("via", "instance"),
             "mode=" + ("float(tolerance)" if is_float(case) else f"exact(qbits={case['qbits']})"),
             "lm.kind=" + case["lm"].get("kind", "hash")]
        t += sz
        p_ = case["pad"]
        en = norm_eos(V, case["eos"])
        t.append("pad=" + ("-1(default)" if p_ == -1 else "eos" if p_ == en else "token" if 0 <= p_ < V
                           else "beyond_vocab" if p_ >= V else "negative"))
        dts = L.lm_dtypes(case["lm"])
        t.append("lm.dtype=" + ("+".join(dts) if len(set(dts)) > 1 else dts[0]))
        if is_float(case):
            t.append("float.accumulates_in=" + ("float64" if L.result_eps(case["lm"]) < L.EPS["float32"]
                                                   else "float32"))
        if case["lm"].get("default64"):
            t.append("torch_default_dtype=float64")
        if case["lm"].get("scale"):
            t.append("lm=large_magnitude_logits")
        if case["lm"].get("neartie") is not None:
            t.append(f"lm=near_ties({1 << case['lm']['neartie']} margins apart)")
        if case["lm"].get("kind") == "rec":
            t.append("initial_state.h=" + ("default" if case["lm"].get("h0") is False or case["lm"].get("noctx")
                                           else "given(model dtype)"))
        if case["lm"].get("noctx"):
            t.append("initial_state=None")
        if case["lm"].get("view") and case["lm"].get("kind") != "lookup":
            t.append("lm=non_contiguous_logits")
        e = case["eos"]
        t.append("eos=" + ("unset" if e is None else "negative" if e < 0 and -V <= e else
                           "invalid" if norm_eos(V, e) == "invalid" else "token"))
        if T is not None:
            full = V ** min(T, 8)
            w = case["width"]
            t.append("width:" + ("1" if w == 1 else "<full" if w < full else "=full" if w == full else ">full"))
        if case["lm"].get("zeros"):
            t.append("lm=hard_zeros")
        if case["lm"].get("uniform"):
            t.append("lm=uniform(ties)")
        if isinstance(impl, dict) and "elems" in impl:
            if any(any(s["score"] == "-inf" for s in e_) for e_ in impl["elems"]):
                t.append("has_neginf_slots")
            if fl_ := self._flagmap.get(case_hash(case)):
                if any(f is not None and f < impl["S"] for f in fl_[0].get("frozen", [])):
                    t.append("frozen_element_padded")
            if sz and any(len({tuple(s["path"][:-1]) for s in e_ if s.get("len", 0) >= 2}) > 1
                          for e_ in impl["elems"]):
                # the surviving paths of a beam extend DIFFERENT prefixes (a beam whose paths all extend the
                # best prefix cannot tell source indices apart)
                t.append("search.size: final beam extends several prefixes")
            if len(impl["elems"]) > 1 and "single" in impl:
                ls = {max([s.get("len", 0) for s in e_] + [0]) for e_ in impl["elems"]}
                if len(ls) > 1:
                    t.append("elements_differ_in_max_len")
        return t

    def shrink(self, case):
        if case["kind"] == "advance":
            case = self._adv_data(case)     # regenerated tensors are written out, then cut down
            for k in ("N", "Kp"):
                for v in (case[k] // 2, case[k] - 1):
                    if 1 <= v < case[k]:
                        c = dict(case)
                        c[k] = v
                        n, kp = c["N"], c["Kp"]
                        c["prev"] = [r[:kp] for r in case["prev"][:n]]
                        c["logp"] = [r[:kp] for r in case["logp"][:n]]
                        c["y"] = [r[:kp] for r in case["y"][:n]]
                        if case["lens"] is not None:
                            c["lens"] = [r[:kp] for r in case["lens"][:n]]
                        yield c
            for w in (case["width"] // 2, case["width"] - 1):
                if 1 <= w < case["width"]:
                    c = dict(case)
                    c["width"] = w
                    yield c
            return
        if "junk" not in case:      # smaller candidates keep the uninitialised-cell value of the failing run
            case = dict(case, junk=self.junk_of(case))
        n = len(case["seeds"])
        if case["batch"] is not None and n > 1:
            for drop in range(n):
                c = dict(case)
                c["batch"] = n - 1
                c["seeds"] = [s for i, s in enumerate(case["seeds"]) if i != drop]
                c["force"] = [s for i, s in enumerate(case["force"]) if i != drop]
                yield c
        if case["batch"] == 1:
            c = dict(case)
            c["batch"] = None
            yield c
        if case["max_iters"] is not None and case["max_iters"] > 0:
            c = dict(case)
            c["max_iters"] = case["max_iters"] - 1
            yield c
        if case["width"] > 1:
            for w in (case["width"] // 2, case["width"] - 1):
                if 1 <= w < case["width"]:
                    c = dict(case)
                    c["width"] = w
                    yield c
        if any(f is not None for f in case["force"]):
            c = dict(case)
            c["force"] = [None] * n
            if case["max_iters"] is not None:
                yield c
        for k in ("zeros", "uniform", "hard_force"):
            if case["lm"].get(k):
                c = dict(case)
                c["lm"] = dict(case["lm"])
                c["lm"][k] = False
                if case["max_iters"] is not None:
                    yield c
        if case["finish_all"]:
            c = dict(case)
            c["finish_all"] = False
            yield c
        if case["pad"] != -1:
            c = dict(case)
            c["pad"] = -1
            yield c
        for k in ("double", "noctx", "view"):
            if case["lm"].get(k):
                c = dict(case)
                c["lm"] = dict(case["lm"])
                c["lm"][k] = False
                yield c
        for k in ("dtype2", "neartie", "scale", "default64"):
            if case["lm"].get(k) is not None:
                c = dict(case)
                c["lm"] = {a: b for a, b in case["lm"].items() if a != k}
                yield c
        if case["lm"].get("kind") in ("fusion", "mixfusion"):
            c = dict(case)
            c["lm"] = dict(case["lm"])
            c["lm"]["kind"] = "hash"
            yield c


CHECK = C04()
