"""C09 — variable-length padding and chunking equal per-sequence pad-and-slice.

Correspondence: the real `pad_variable` / `chunk_by_slices` / `pad_masked_sequence` /
`random_shift` (functional and module entry points) run on integer-valued tensors (so every
float operation is exact) or — value classes, see VCLASSES — on elements from the corners of the dtype,
read back bit for bit; the Lean driver returns for the same request
  * `model`  : the batch-flattened select/scatter model of the (repaired) code,
  * `pinned` : the same model with the pinned tree's replicate buffers / `T = 0` early return
               (only used to recognise the specific wrong behaviour of the two known defects),
  * `spec`   : the per-sequence oracle `padSeq` / `chunkSeq` / `compact` (or the documented
               error class of an illegal request, or null outside the property's domain).
`compare` = implementation vs model on the specified observables (valid regions up to the
reported lengths, lengths, error classes); `predicate` = the property evaluated on the
implementation's output with `spec` as oracle.
"""
import contextlib
import sys
import itertools
from fractions import Fraction

from common.framework import PropertyCheck, frac_str

MODES = ("constant", "reflect", "replicate")
TRAILS = [[], [], [], [1], [2], [3], [2, 2], [1, 2], [0], [2, 0], [2, 1, 2], [1, 1, 1], [1, 2, 1, 2]]
DTYPES = ("float32", "float32", "float64", "int64", "float16", "int32", "bool", "float64", "int64", "bfloat16",
          "int16")
FLOAT_DTYPES = ("float32", "float64", "float16", "bfloat16")
SMALL16 = ("float16", "bfloat16", "int16")   # 16-bit cells: labels stay below 2048
# VALUE CLASSES. The four functions only MOVE elements, so the model (and every theorem) treats a cell as an
# opaque label; the harness is free to choose which element of the dtype a label stands for. Without a
# class a label v is the number v (small integers: exact in every dtype but bfloat16). With a class
# (`case["vclass"]`) label v stands for the element `enc_bits(dtype, class, v)` — an injective map into the
# corner of the dtype named by the class — and the output is read back BIT FOR BIT (`Decoder`): an element
# that went through another dtype, through arithmetic, or through a float comparison does not come back as
# the label it was copied from.
#   floats (per format: exponent / mantissa width): `mantissa` = 1.0 + label ulps scaled so that the lowest AND
#   high mantissa bits are set, odd labels negative (float64: needs > 24 and > 32 bits); `near_max` /
#   `neg_near_max` = the largest finite element minus label ulps (overflows every narrower format); `tiny` =
#   the smallest subnormals (flush to zero in every narrower format); `nonfinite` = elements next to the
#   largest finite one and (labels 1..4, planted by the generator in about a sixth of the cells) +inf, -inf,
#   -0.0, NaN. A NaN is read back as "a NaN": torch's own bfloat16 gather kernel does not keep NaN payloads
#   (probed: 0x7fd3 comes back as 0xffff), so payloads are not specified; everything else is bit for bit.
#   integers: `2^24` / `-2^24` (beyond float32's exact range), `2^31` (beyond int32, int64 only), `2^53` /
#   `-2^53` (beyond float64's exact range), `2^62`, `max` / `min` (the extremes of the dtype).
FLOAT_FMT = {"float64": (11, 52, "int64"), "float32": (8, 23, "int32"), "float16": (5, 10, "int16"),
             "bfloat16": (8, 7, "int16")}
INT_WIDTH = {"int64": 64, "int32": 32, "int16": 16}
FLOAT_CLASSES = ("mantissa", "near_max", "neg_near_max", "tiny", "nonfinite")
VCLASSES = {"float64": FLOAT_CLASSES + ("mantissa",), "float32": FLOAT_CLASSES, "float16": FLOAT_CLASSES,
            "bfloat16": FLOAT_CLASSES,
            "int64": ("2^24", "-2^24", "2^31", "2^53", "-2^53", "2^62", "max", "min", "2^24", "2^53"),
            "int32": ("2^24", "-2^24", "max", "min", "2^24"), "int16": ("max", "min")}
LBL_INF, LBL_NINF, LBL_NZERO, LBL_NAN = 1, 2, 3, 4   # `nonfinite`: the labels that stand for +inf, -inf, -0.0, NaN
# pad values at the edge of what the dtype holds (constant mode; all exactly representable as a python float,
# which is what the documentation asks `value` to be)
BIG_VALUES = {"float64": (16777217, -16777217, 2 ** 53 - 1, 2 ** 1000, -(2 ** 1000)),
              "float32": (16777215, -16777215, 2 ** 127, -(2 ** 127)),
              "float16": (65504, -65504, 2047), "bfloat16": (2 ** 127, -(2 ** 127), 255),
              "int64": (16777217, -16777217, 2 ** 31, 2 ** 53, -(2 ** 62)),
              "int32": (16777217, -16777217, 2 ** 31 - 1, -(2 ** 31)), "int16": (32767, -32768)}
VALUES = (-1, 0, 7)
FRAC_VALUES = ("1/2", "-5/2")          # exact in every float dtype; only generated for float dtypes
X_LAYOUTS = ("transposed", "strided", "offset", "expand_last", "expand0")
IDX_LAYOUTS = ("strided", "transposed", "offset")
CALLS = ("positional", "keyword", "defaults")
APPENDED = 900                          # content of masked-out frames appended for the stability check
FILLER = 901                            # content of the cells of a larger buffer that are NOT part of a view
SIG_PAD_GT_T = "C09.replicate.pad_gt_T"
SIG_T0 = "C09.chunk.empty_time_dim"
SIG_PROP_PAIR = "C09.random_shift.prop_pair_rejected"
SIG_BCAST = "C09.masked.broadcast_mask"
SIG_F32 = "C09.random_shift.float32_bound"
BIG_SIZES = (15, 16, 17, 31, 32, 33, 63, 64, 65, 127, 128, 129)    # + 'huge': 1000, 1023..1025, 1001..1300, 2049
MID_SIZES = (255, 256, 257, 511, 512, 513)
U_EXTREME = ("16777215/16777216", "8388607/8388608", "4194303/4194304", "1/16777216", "0", "1/2")


def prod(l):
    p = 1
    for v in l:
        p *= v
    return p


def enc_bits(dtype, vclass, v):
    """The element of `dtype` that label `v >= 0` stands for in value class `vclass`, as its bit pattern
    (floats: the IEEE pattern as an unsigned integer; integers: the value itself). Injective in v on the
    label ranges the generators use (16-bit dtypes: v < 8192; others: v < 2^20)."""
    if dtype in INT_WIDTH:
        w = INT_WIDTH[dtype]
        top, low = 2 ** (w - 1) - 1, -(2 ** (w - 1))
        val = {"2^24": 2 ** 24 + v, "-2^24": -(2 ** 24) - v, "2^31": 2 ** 31 - 1 + v, "2^53": 2 ** 53 + v,
               "-2^53": -(2 ** 53) - v, "2^62": 2 ** 62 + v, "max": top - v, "min": low + v}[vclass]
        if not low <= val <= top:
            raise AssertionError(f"harness: class {vclass} label {v} outside {dtype}")
        return val
    e, m, _ = FLOAT_FMT[dtype]
    sign = 1 << (e + m)
    inf = ((1 << e) - 1) << m
    maxfin = inf - 1
    one = ((1 << (e - 1)) - 1) << m
    if vclass == "mantissa":
        k = v * ((1 << 24) + 1) if dtype == "float64" else v
        bits = (one + k) | (sign if v & 1 else 0)
    elif vclass == "near_max":
        bits = maxfin - v
    elif vclass == "neg_near_max":
        bits = sign | (maxfin - v)
    elif vclass == "tiny":
        bits = v + 1
    elif vclass == "nonfinite":
        if v == 0:
            bits = maxfin
        elif v == LBL_INF:
            bits = inf
        elif v == LBL_NINF:
            bits = sign | inf
        elif v == LBL_NZERO:
            bits = sign
        elif v == LBL_NAN:
            bits = inf | (1 << (m - 1))        # the quiet NaN (read back: any NaN, see Decoder)
        else:
            bits = maxfin - 1 - v              # finite, next to the largest element
    else:
        raise AssertionError(f"harness: unknown value class {vclass} for {dtype}")
    if not 0 <= (bits & ~sign) <= (inf | ((1 << m) - 1)) or (vclass != "nonfinite" and (bits & ~sign) >= inf):
        raise AssertionError(f"harness: class {vclass} label {v} outside {dtype}")
    return bits


def vclass_of(case):
    """the value class of a case, or None (also when a shrinking step changed the dtype under it)"""
    vc = case.get("vclass")
    if vc and vc in VCLASSES.get(case.get("dtype", "float32"), ()):
        return vc
    # bfloat16 holds the integers up to 256 only: labels are never taken as numbers there
    return "mantissa" if case.get("dtype") == "bfloat16" else None


def bits_of(t, torch):
    """a tensor's elements as integers that identify them bit for bit (same shape and strides)"""
    name = str(t.dtype).split(".")[-1]
    return t.view(getattr(torch, FLOAT_FMT[name][2])) if name in FLOAT_FMT else t


def same_bits(a, b, torch):
    """element-wise identity (NaN equals the same NaN, 0.0 differs from -0.0)"""
    return a.shape == b.shape and a.dtype == b.dtype and bool(torch.equal(bits_of(a, torch), bits_of(b, torch)))


class Decoder:
    """Reads output cells back as labels, bit for bit. A cell whose pattern is not the image of a label of the
    request is reported as the number it holds (that is how the pad value of constant mode looks) or, if it
    is not finite, as its pattern — never as a label."""

    def __init__(self, case, torch):
        self.dtype, self.vclass = case["dtype"], vclass_of(case)
        labels = {v for row in case["x"] for fr in row for v in fr}
        self.rev = {enc_bits(self.dtype, self.vclass, v): v for v in labels}
        if len(self.rev) != len(labels):
            raise AssertionError("harness: value class encoding is not injective on this request")
        self.mask = (1 << (sum(FLOAT_FMT[self.dtype][:2]) + 1)) - 1 if self.dtype in FLOAT_FMT else None
        if self.key(self.pad_bits(value_frac(case), torch)) in self.rev:
            raise AssertionError("harness: the pad value is also the image of a label")

    def pad_bits(self, v, torch):
        pv = torch.tensor([float(v)], dtype=torch.float64).to(getattr(torch, self.dtype))
        return bits_of(pv, torch).tolist()[0]

    def key(self, b):
        return b & self.mask if self.mask is not None else b

    def rows(self, t, N, F, torch):
        Tp = t.shape[1]
        if N == 0:
            return []
        if Tp == 0:
            return [[] for _ in range(N)]
        if not F:
            return [[[] for _ in range(Tp)] for _ in range(N)]
        t = t.reshape(N, Tp, F)
        bits = bits_of(t, torch).tolist()
        vals = (t.double() if t.dtype in (torch.float16, torch.bfloat16) else t).tolist()
        return [[[self.cell(b, v) for b, v in zip(fb, fv)] for fb, fv in zip(rb, rv)] for rb, rv in zip(bits, vals)]

    def cell(self, b, v):
        lab = self.rev.get(self.key(b))
        if lab is not None:
            return lab
        if v != v and self.vclass == "nonfinite":
            return LBL_NAN                      # any NaN: payloads are not specified
        if isinstance(v, float) and (v != v or v in (float("inf"), float("-inf"))):
            return f"bits:{self.key(b):#x}"
        return num(v)


def mk_x(rng, N, T, F, dtype=None):
    """N x T x F nested list of cell values, DISTINCT wherever the dtype can hold that many exact integers
    (a reordering of elements must show): up to 899 cells a sample of 1..899; beyond that a sample of
    1..cells+1 (never FILLER); float16 holds the integers up to 2048 exactly, so there the pool is 1..2047
    reshuffled as often as needed (distinct within any 2046 consecutive cells, i.e. within a row)."""
    cells = N * T * F
    if cells <= 899:
        vals = rng.sample(range(1, 900), cells)
    else:
        top = 2047 if dtype in SMALL16 else cells + 1
        pool = [v for v in range(1, top + 1) if v != FILLER]
        vals = []
        while len(vals) < cells:
            vals += rng.sample(pool, min(len(pool), cells - len(vals)))
    it = iter(vals)
    return [[[next(it) for _ in range(F)] for _ in range(T)] for _ in range(N)]


def relayout(t, layout, torch):
    """The same logical tensor in another memory layout (the cells of the underlying buffer that are not
    part of the view hold FILLER). `expand*` need data that is constant along the expanded dimension."""
    if layout in (None, "contig") or t.dim() == 0:
        return t
    fill = True if t.dtype == torch.bool else FILLER
    if layout == "transposed":
        return t.transpose(0, 1).contiguous().transpose(0, 1) if t.dim() >= 2 else t.clone()
    if layout == "strided":
        d = min(1, t.dim() - 1)
        shape = list(t.shape)
        shape[d] *= 2
        big = torch.full(shape, fill, dtype=t.dtype)
        idx = tuple(slice(0, None, 2) if i == d else slice(None) for i in range(t.dim()))
        big[idx] = t
        return big[idx]
    if layout == "offset":
        big = torch.full([n + 1 for n in t.shape], fill, dtype=t.dtype)
        idx = tuple(slice(1, None) for _ in t.shape)
        big[idx] = t
        return big[idx]
    if layout in ("expand_last", "expand0"):
        d = t.dim() - 1 if layout == "expand_last" else 0
        if (layout == "expand_last" and t.dim() < 3) or t.shape[d] == 0:
            return t
        v = t.narrow(d, 0, 1).expand(t.shape)
        if not same_bits(v, t, torch):
            raise AssertionError(f"harness: layout {layout} on data that varies along dimension {d}")
        return v
    raise AssertionError(f"harness: unknown layout {layout}")


def tens(case, torch):
    """(N, T, *trail) tensor from the nested N x T x F list, in the case's dtype and memory layout."""
    dt = getattr(torch, case.get("dtype", "float32"))
    shape = [case["N"], case["T"]] + list(case["trail"])
    if "outer_shape" in case:
        shape = list(case["outer_shape"]) + list(case["trail"])
    flat = [v for row in case["x"] for fr in row for v in fr]
    vc = vclass_of(case)
    if vc is None:
        t = torch.tensor(flat, dtype=dt)
    elif case["dtype"] in INT_WIDTH:
        t = torch.tensor([enc_bits(case["dtype"], vc, v) for v in flat], dtype=dt)
    else:
        e, m, carrier = FLOAT_FMT[case["dtype"]]
        w = e + m + 1
        pats = [enc_bits(case["dtype"], vc, v) for v in flat]
        t = torch.tensor([p - (1 << w) if p >> (w - 1) else p for p in pats],
                         dtype=getattr(torch, carrier)).view(dt)
    return relayout(t.reshape(shape), case.get("x_layout"), torch)


def idx_tensor(vals, shape, case, torch):
    """lens / pad / slices: integer tensor in the case's index dtype and layout."""
    var = case.get("idx") or {}
    t = torch.tensor(vals, dtype=getattr(torch, var.get("dtype", "int64"))).reshape(shape)
    return relayout(t, var.get("layout"), torch)


def num(v):
    if isinstance(v, Fraction):
        return int(v) if v.denominator == 1 else frac_str(v)
    v = float(v) if not isinstance(v, (int, bool)) else v
    if isinstance(v, bool):
        return int(v)
    if isinstance(v, int):
        return v
    return int(v) if v == int(v) else frac_str(v)


def value_frac(case):
    return Fraction(case["value"])


def decollide(case):
    """Generator-side: move the pad value of a value-class request off the images of its labels (0 is the
    image of no label in any class). Uses no randomness; the request stays legal and in its stream."""
    if not vclass_of(case) or "x" not in case or "value" not in case or case.get("malformed"):
        return case
    import torch
    for v in (case["value"], 0, -1, "1/2"):
        c = dict(case, value=v)
        try:
            Decoder(c, torch)
        except AssertionError as e:
            if "pad value is also the image" in str(e):
                continue
            return case        # another harness complaint: not this function's business
        if v != case["value"]:
            c["value_moved"] = str(case["value"])
        return c
    return case


def value_obs(case):
    """what a cell holding the pad value looks like in an observation"""
    v = value_frac(case)
    if case.get("dtype") == "bool":
        return int(v != 0)
    return num(v)


def plain_rows_of(t, N, F):
    """(N, T', *trail) -> N x T' x F nested list of exact numbers"""
    Tp = t.shape[1]
    if N == 0:
        return []
    if Tp == 0:
        return [[] for _ in range(N)]
    l = t.reshape(N, Tp, F).tolist() if F else [[[] for _ in range(Tp)] for _ in range(N)]
    return [[[num(v) for v in fr] for fr in row] for row in l]


@contextlib.contextmanager
def patched_rand_like(draws, record):
    """torch.rand_like -> the chosen draws (or: the genuine ones, recorded)."""
    import torch
    saved = torch.rand_like

    def fake(t, *a, **k):
        if draws is None:
            r = saved(t, *a, **k)
            record.append(r.clone())
            return r
        r = torch.tensor([[float(Fraction(u)) for u in row] for row in draws], dtype=k.get("dtype") or t.dtype,
                         device=t.device).reshape(t.shape)
        record.append(r)
        return r

    torch.rand_like = fake
    try:
        yield
    finally:
        torch.rand_like = saved


class C09(PropertyCheck):
    pid = "C09"
    rule = ("random batches: N 1..4 (0 in a boundary stream, up to 7 in a size stream), T 0..6 (up to 17 in the "
            "size stream, up to 40 in the rounding stream), 0-4 trailing dims (sizes 0..3), integer cell values "
            "(distinct wherever the dtype can hold them); a LARGE stream: every function and mode (pad x3, chunk x3, "
            "masked in both layouts, random_shift x3) with the time dimension at and around 16, 32, 64, 128, "
            "256/512 and beyond 1000 (15/16, 17, 31-33, 63-65, 127-129, 255-257/511-513, 1000-1300/2049), and "
            "likewise the batch dimension, the frame size, and (small tensors) the pad amounts / slice bounds / "
            "shift proportions; uniform requests a fast path could single out (all sequences full length, the same "
            "pads or slice for every row, nothing to pad on one side, no slice reaching outside, masks already "
            "compact / true cells last / equal counts); pad_masked_sequence additionally re-run with k masked-out "
            "elements appended to every sequence (k small or carrying T across the next size threshold), "
            "dtype float32/float64/float16/bfloat16/int64/int32/int16/bool; VALUE CLASSES (40 % of the cases, every "
            "function / mode / entry; output read back bit for bit): floats with the full mantissa in use, next to "
            "+-the largest finite element, subnormals, +inf/-inf/-0.0/NaN; integers around +-2^24, 2^31, +-2^53, "
            "2^62 and at the extremes of the dtype; pad values at the edge of the dtype (2^24+1, 2^53, 2^1000, "
            "65504, ...); x contiguous / transposed strides / strided view / "
            "offset view / expanded along the batch or the last dimension, lens-pad-slices int64 or int32 and "
            "contiguous / strided / transposed / offset, pad value -1, 0, 7 (float or python int) and 1/2, -5/2 "
            "(float dtypes), positional / keyword / defaults-omitted calls, lens 0..T (>= 1 for "
            "reflect/replicate), pads 0..2T (reflect: < len), slices in [-T-2, 2T]^2 with forced patterns "
            "(wholly left, wholly right, empty, inverted, reflect slices starting strictly beyond the sequence end "
            "incl. empty ones and several per batch), boolean masks (given full, transposed, strided, "
            "caller-expanded or in a broadcastable (N,1)/(1,T) shape), random_shift with chosen dyadic draws / "
            "recorded genuine draws / extreme float32 draws with proportions k/len that float32 rounds up / forced "
            "rounding ties (proportions k/len and dyadic draws on which double and exact arithmetic differ), "
            "training and eval set directly, after toggling, and through a parent module; functional, module, "
            "module-inside-a-parent and pydrobert.torch.util entry points; arguments must come back unmodified; "
            "malformed stream (wrong ranks, shapes, modes, illegal pads). Non-trivial: some non-zero pad / a "
            "slice reaching outside [0,len) / a mask with both values / a non-zero shift. distinct by the whole "
            "case")
    assumptions = [
        "a model cell is one frame: the trailing dimensions are flattened and every mask is expanded along them",
        "torch masked_select / masked_scatter / gather / boolean indexing taken at their documented row-major meaning",
        "integer- or half-integer-valued data: float arithmetic of the implementation is exact on the generated "
        "inputs (a fractional pad value reaches the integer-celled model scaled by its denominator)",
        "value classes: the model and every theorem are polymorphic in the cell type (the functions only move "
        "elements), so a cell is a label; with a value class the harness lets label v stand for an element in a "
        "corner of the dtype (injective map enc_bits) and reads the output back bit for bit; NaN payloads are not "
        "compared (torch's own bfloat16 gather does not keep them), a NaN must come back as a NaN",
        "random_shift: uniform draws injected through torch.rand_like; `model` computes floor(prop*len*u) in exact "
        "rational arithmetic with prop the configured double, `model_f64` (randomShiftF64) in IEEE double "
        "arithmetic like the repaired code; the implementation is compared with model_f64 on every request and "
        "with model where both give the same floor; rounding ties (forced in the `ties` stream) get the draw-free "
        "predicate with the documented exclusive bound",
    ]
    quick_budget_s = 75
    thorough_budget_s = 800

    # ------------------------------------------------------------------ generators
    def cases(self, rng, tier):
        """every generated request, with a pad value that is not the image of one of its labels (the
        Decoder could not tell such a padding cell from a copied one: bfloat16 'mantissa' label 352 is 7.0)"""
        for c in self._cases(rng, tier):
            yield decollide(c)

    def _cases(self, rng, tier):
        n = {"quick": 1, "thorough": 9, "search": 5}[tier]
        yield from self.edge_cases()
        gens = [self.gen_pad(rng, 1100 * n), self.gen_chunk(rng, 1300 * n), self.gen_masked(rng, 350 * n),
                self.gen_shift(rng, 400 * n), self.gen_malformed(rng, 175 * n),
                self.gen_shift_rounding(rng, 150 * n), self.gen_shift_ties(rng, 60 * n),
                self.gen_sizes(rng, 120 * n),
                self.gen_shapes(rng, 240 * n),
                self.gen_large(rng, {"quick": 144, "thorough": 576, "search": 432}[tier])]
        if tier != "quick":
            gens.append(self.gen_exhaustive())
        # interleave so that a budget cut does not starve one stream
        for tup in itertools.zip_longest(*gens):
            for c in tup:
                if c is not None:
                    yield c

    def edge_cases(self):
        base = {"entry": "functional", "dtype": "float32", "trail": [], "value": -1}
        for mode in MODES:
            # empty batch
            yield dict(base, fn="pad", mode=mode, N=0, T=3, x=[], lens=[], pad0=[], pad1=[])
            yield dict(base, fn="chunk", mode=mode, N=0, T=3, x=[], lens=None, slices=[])
            # empty time dimension
            yield dict(base, fn="chunk", mode=mode, N=2, T=0, x=[[], []], lens=None, slices=[[-1, 2], [0, 0]])
            yield dict(base, fn="chunk", mode=mode, N=2, T=0, x=[[], []], lens=[0, 0], slices=[[0, 3], [2, 1]],
                       entry="module")
            yield dict(base, fn="pad", mode=mode, N=2, T=0, x=[[], []], lens=[0, 0], pad0=[1, 0], pad1=[0, 2])
            yield dict(base, fn="pad", mode=mode, N=1, T=2, x=[[[5], [6]]], lens=[2], pad0=[0], pad1=[0])
            # random_shift on an empty batch: identity in eval mode, pad_variable's error in training mode
            for training in (True, False):
                for entry in ("functional", "module", "module_parent"):
                    yield dict(base, fn="shift", mode=mode, N=0, T=3, x=[], lens=[], p0="1/2", p1="1",
                               training=training, draws=[[], []], entry=entry)
        for bf in (True, False):
            for N, T in ((0, 3), (3, 0), (0, 0)):
                x = [[[] for _ in range(T)] for _ in range(N)] if bf else [[[] for _ in range(N)] for _ in range(T)]
                yield {"fn": "masked", "entry": "functional", "dtype": "float32", "trail": [], "value": -1,
                       "N": N, "T": T, "outer_shape": [N, T] if bf else [T, N],
                       "x": [[[1] for _ in r] for r in x], "mask": [[True for _ in r] for r in x],
                       "batch_first": bf}

    def gen_exhaustive(self):
        """N = 2, T = 2: every lens / pad combination with pads <= 3 (thorough only)."""
        x = [[[11], [12]], [[21], [22]]]
        for mode in MODES:
            lo = 0 if mode == "constant" else 1
            for l0, l1 in itertools.product(range(lo, 3), repeat=2):
                for p in itertools.product(range(0, 4), repeat=4):
                    if mode == "reflect" and not (p[0] < l0 and p[2] < l0 and p[1] < l1 and p[3] < l1):
                        continue
                    yield {"fn": "pad", "entry": "functional", "dtype": "float32", "trail": [], "value": -1,
                           "mode": mode, "N": 2, "T": 2, "x": x, "lens": [l0, l1], "pad0": [p[0], p[1]],
                           "pad1": [p[2], p[3]]}
                for s in itertools.product(range(-2, 5, 2), range(-1, 5, 2), range(-3, 4, 3), range(0, 5, 2)):
                    sl = [[s[0], s[1]], [s[2], s[3]]]
                    if mode == "reflect" and not self.reflect_legal(sl, [l0, l1]):
                        continue
                    yield {"fn": "chunk", "entry": "functional", "dtype": "float32", "trail": [], "value": -1,
                           "mode": mode, "N": 2, "T": 2, "x": x, "lens": [l0, l1], "slices": sl}

    @staticmethod
    def reflect_legal(slices, lens):
        for (s, e), n in zip(slices, lens):
            l, r = (0, 0) if e <= s else (max(-s, 0), max(e - n, 0))
            if l >= n or r >= n:
                return False
        return True

    def common(self, rng, fn, dims=None, mode=None):
        """One request skeleton; `dims = (N, T, trail)` / `mode` given by the size stream, drawn otherwise."""
        mode = mode or rng.choice(MODES)
        if dims is None:
            N = rng.randint(1, 4)
            T = rng.choice([1, 1, 2, 3, 4, 5, 6, 6]) if rng.random() > 0.04 else 0
            trail = rng.choice(TRAILS)
        else:
            N, T, trail = dims
        F = prod(trail)
        dtype = rng.choice(DTYPES)
        c = {"fn": fn, "entry": rng.choice(["functional", "module"]), "dtype": dtype,
             "trail": trail, "value": rng.choice(VALUES), "mode": mode, "N": N, "T": T,
             "x": mk_x(rng, N, T, F, dtype)}
        self.vary(rng, c)
        return c

    def vary(self, rng, c, x_key="x"):
        """The options that must not matter: memory layout of x, dtype / layout of the index tensors, how
        the pad value is given, call style, which alias / wrapper is called. About half of the cases stay
        plain in each respect. Mutates c."""
        fn = c["fn"]
        N, T, trail = c["N"], c["T"], c["trail"]
        if c["dtype"] == "bool":
            c[x_key] = [[[v & 1 for v in fr] for fr in row] for row in c[x_key]]
        # which elements of the dtype the cells hold (see VCLASSES): small integers, or a corner of the dtype
        # (bfloat16 holds the integers up to 256 only, so there a class is always chosen)
        classes = VCLASSES.get(c["dtype"])
        if classes and (c["dtype"] == "bfloat16" or rng.random() < 0.4):
            self.set_vclass(rng, c, rng.choice(classes), x_key)
        if c["dtype"] in FLOAT_DTYPES and rng.random() < 0.25:
            c["value"] = rng.choice(FRAC_VALUES)
        elif "vclass" not in c and c["dtype"] in BIG_VALUES and rng.random() < 0.12:
            c["value"] = rng.choice(BIG_VALUES[c["dtype"]])   # a pad value at the edge of the dtype
        elif rng.random() < 0.2:
            c["value_kind"] = "int"                     # a python int where a float is documented
        if rng.random() < 0.45:
            lay = rng.choice(X_LAYOUTS)
            if lay == "expand_last":
                # frames constant along the last trailing dimension
                if trail and trail[-1] >= 1 and prod(trail):
                    k = trail[-1]
                    c[x_key] = [[[fr[i * k] for i in range(len(fr) // k) for _ in range(k)] for fr in row]
                                for row in c[x_key]]
                    c["x_layout"] = lay
            elif lay == "expand0":
                # all rows of the first dimension identical (only the per-row requests differ)
                if fn != "masked" and N >= 1:
                    c[x_key] = [[list(fr) for fr in c[x_key][0]] for _ in range(N)]
                    c["x_layout"] = lay
            else:
                c["x_layout"] = lay
        if fn != "masked" and rng.random() < 0.45:
            c["idx"] = {"dtype": rng.choice(["int64", "int32"]), "layout": rng.choice(IDX_LAYOUTS + ("contig",))}
        r = rng.random()
        if r < 0.5:
            c["call"] = rng.choice(CALLS[1:])
        if c["entry"] == "module" and rng.random() < 0.3:
            c["entry"] = "module_parent"
            c["parent_eval"] = rng.random() < 0.5      # train/eval must not matter for pad / chunk / masked
        elif c["entry"] == "functional" and fn == "pad" and rng.random() < 0.15:
            c["entry"] = "util"                         # pydrobert.torch.util.pad_variable

    def maybe_vclass(self, rng, c, p=0.4):
        """the streams that do not go through `vary`"""
        if VCLASSES.get(c["dtype"]) and rng.random() < p:
            self.set_vclass(rng, c, rng.choice(VCLASSES[c["dtype"]]))

    @staticmethod
    def set_vclass(rng, c, vclass, x_key="x"):
        """cells of x stand for the elements of value class `vclass`; `nonfinite`: about a sixth of the cells
        (at least one) become +inf / -inf / -0.0 / NaN"""
        c["vclass"] = vclass
        if vclass == "nonfinite":
            cells = [(a, b, k) for a, row in enumerate(c[x_key]) for b, fr in enumerate(row) for k in range(len(fr))]
            if cells:
                c[x_key] = [[list(fr) for fr in row] for row in c[x_key]]
                for a, b, k in rng.sample(cells, max(1, len(cells) // 6)):
                    c[x_key][a][b][k] = rng.choice([LBL_INF, LBL_NINF, LBL_NZERO, LBL_NAN])

    def gen_pad(self, rng, count):
        for _ in range(count):
            yield self.fill_pad(rng, self.common(rng, "pad"))

    def fill_pad(self, rng, c, far=None):
        """lens and pads of a pad_variable request. `far`: the largest pad amount, however short the batch
        (constant / replicate; reflect pads stay below the length)."""
        mode, N, T = c["mode"], c["N"], c["T"]
        if T == 0 and mode != "constant":
            c["mode"] = mode = "constant"
        lo = 0 if mode == "constant" else 1
        lens = [rng.randint(lo, T) if rng.random() > 0.25 else T for _ in range(N)]
        style = rng.random()
        hi = 2 * T if style < 0.6 else (T if style < 0.85 else max(1, T // 2))
        pad = []
        for _side in range(2):
            row = []
            for n in range(N):
                if mode == "reflect":
                    row.append(rng.randint(0, lens[n] - 1))
                elif far is not None:
                    row.append(rng.choice([0, far, far, rng.randint(0, far), max(far - 1, 0)]))
                else:
                    row.append(0 if rng.random() < 0.15 else rng.randint(0, max(hi, 1)))
            pad.append(row)
        # requests a fast path could single out: every sequence full length, the same pads for every row,
        # nothing to pad on one side (and combinations: the ranges overlap)
        if N >= 2:
            r = rng.random()
            if r < 0.08 and T:
                lens = [T] * N                                 # pads drawn for shorter rows stay legal
            if 0.04 <= r < 0.14:
                k = min(range(N), key=lambda n: lens[n])
                pad = [[side[k]] * N for side in pad]          # legal for reflect: the shortest row's pads
            if 0.10 <= r < 0.20:
                pad[rng.randrange(2)] = [0] * N
        c.update(lens=lens, pad0=pad[0], pad1=pad[1])
        return c

    def gen_chunk(self, rng, count):
        for _ in range(count):
            yield self.fill_chunk(rng, self.common(rng, "chunk"))

    @staticmethod
    def chunk_row(rng, mode, L, T, R):
        """one slice [s, e) for a sequence of length L in a batch of time dimension T; free bounds are drawn
        from [-R-2, 2R] (R = T in the main streams)"""
        k = rng.random()
        if mode == "reflect" and L >= 3 and rng.random() < 0.2:
            # the reflect special case, forced: the slice starts STRICTLY beyond the end of the
            # sequence (offset = s - L > 0) and stays legal (e - L < L); one time in four it is
            # empty / inverted there (the code's `right_pad -= offset` then goes negative)
            s = rng.randint(L + 1, 2 * L - 2)
            e = rng.randint(s + 1, 2 * L - 1) if rng.random() < 0.75 else s - rng.randint(0, 2)
        elif k < 0.45:
            s, e = rng.randint(-R - 2, 2 * R), rng.randint(-R - 2, 2 * R)
        elif k < 0.6:      # wholly right of the sequence
            s = rng.randint(L, max(L, 2 * R))
            e = rng.randint(s, max(s, 2 * R)) if mode != "reflect" else rng.randint(s, max(s, 2 * L - 1))
        elif k < 0.7:      # wholly left
            e = rng.randint(-R - 1, 0)
            s = rng.randint(-R - 2, e)
        elif k < 0.8:      # empty / inverted
            s = rng.randint(-R - 2, 2 * R)
            e = s - rng.randint(0, 3)
        else:              # overlapping the sequence
            s = rng.randint(-min(T, max(L - 1, 0)) - 0, max(L - 1, 0))
            e = rng.randint(s, L + max(L - 1, 0))
        return [s, e]

    def fill_chunk(self, rng, c, far=None, per_row=False):
        """lens and slices of a chunk_by_slices request. `far`: slice bounds drawn from [-far-2, 2 far] however
        short the batch; `per_row`: a reflect request is made legal row by row (large batches: redrawing the
        whole batch until every row is legal would practically never succeed)."""
        mode, N, T = c["mode"], c["N"], c["T"]
        lo = 0 if mode == "constant" else 1
        R = T if far is None else far
        if T == 0:
            lens = None if rng.random() < 0.5 else [0] * N
            eff = [0] * N
        elif rng.random() < 0.2:
            lens, eff = None, [T] * N
        else:
            lens = [rng.randint(lo, T) for _ in range(N)]
            eff = lens
        if per_row:
            sl = []
            for n in range(N):
                for _try in range(40):
                    row = self.chunk_row(rng, mode, eff[n], T, R)
                    if mode != "reflect" or T == 0 or self.reflect_legal([row], [eff[n]]):
                        break
                else:
                    row = [-(eff[n] - 1), 2 * eff[n] - 1] if eff[n] else [0, 0]
                sl.append(row)
        else:
            for _try in range(40):
                sl = [self.chunk_row(rng, mode, eff[n], T, R) for n in range(N)]
                if mode != "reflect" or T == 0 or self.reflect_legal(sl, eff):
                    break
            else:
                sl = [[0, eff[n]] for n in range(N)]
        # requests a fast path could single out: the same slice for every row, no slice reaching outside its
        # sequence (nothing to pad), every sequence returned whole
        if N >= 2 and T:
            r = rng.random()
            if r < 0.06:
                k = min(range(N), key=lambda n: eff[n])
                sl = [list(sl[k]) for _ in range(N)]           # legal for reflect: the shortest row's slice
            elif r < 0.12:
                sl = []
                for n in range(N):
                    a = rng.randint(0, eff[n])
                    sl.append([a, rng.randint(a, eff[n]) if rng.random() < 0.9 else a - 1])
            elif r < 0.15:
                sl = [[0, eff[n]] for n in range(N)]
        c.update(lens=lens, slices=sl)
        return c

    def gen_masked(self, rng, count):
        for _ in range(count):
            N, T = rng.randint(0, 4), rng.randint(0, 6)
            if rng.random() < 0.06:
                N, T = rng.randint(4, 7), rng.randint(6, 12)
            yield self.make_masked(rng, N, T, rng.choice(TRAILS))

    def make_masked(self, rng, N, T, trail, bf=None, density=None):
        F = prod(trail)
        bf = rng.random() < 0.5 if bf is None else bf
        p = rng.choice([0.0, 0.3, 0.5, 0.8, 1.0]) if density is None else density
        mask_b = [[rng.random() < p for _ in range(T)] for _ in range(N)]   # batch-first view
        # masks a fast path could single out: already compact (true cells first), true cells last, the same
        # count in every row
        r = rng.random()
        if N and T and r < 0.18:
            if r < 0.06:
                mask_b = [[t < k for t in range(T)] for k in (rng.randint(0, T) for _ in range(N))]
            elif r < 0.12:
                mask_b = [[t >= k for t in range(T)] for k in (rng.randint(0, T) for _ in range(N))]
            else:
                k = rng.randint(0, T)
                mask_b = [rng.sample([True] * k + [False] * (T - k), T) for _ in range(N)]
        dtype = rng.choice(DTYPES)
        xb = mk_x(rng, N, T, F, dtype)
        if bf:
            x, mask, outer = xb, mask_b, [N, T]
        else:
            x = [[xb[n][t] for n in range(N)] for t in range(T)]
            mask = [[mask_b[n][t] for n in range(N)] for t in range(T)]
            outer = [T, N]
        c = {"fn": "masked", "entry": rng.choice(["functional", "module"]), "dtype": dtype,
             "trail": trail, "value": rng.choice(VALUES), "N": N, "T": T, "outer_shape": outer,
             "x": x, "mask": mask, "batch_first": bf}
        self.vary(rng, c)
        # how the mask is given: full / other strides / constant along one dimension and then either
        # expanded by the caller or left in its broadcastable (size-1) shape, as documented
        r = rng.random()
        if r < 0.15:
            c["mask_var"] = rng.choice(["transposed", "strided", "offset"])
        elif r < 0.5:
            d = rng.randrange(2)
            if outer[d] >= 1:
                c["mask"] = [[c["mask"][0 if d == 0 else a][0 if d == 1 else b] for b in range(outer[1])]
                             for a in range(outer[0])]
                c["mask_var"] = rng.choice(["bcast", "expand"]) + str(d)
        # stability (C09_masked_stable): the same request with k masked-out elements appended to every
        # sequence must give the same selected parts and lengths; k small, or just enough to carry the
        # sequence dimension across the next size threshold (17, 33, 65, ...)
        time_axis = 1 if bf else 0
        if rng.random() < 0.4 and str(c.get("mask_var", "")) not in ("bcast%d" % time_axis,
                                                                      "expand%d" % time_axis):
            nxt = [th for th in (17, 33, 65, 129, 257, 1025) if th > T]
            c["append"] = rng.choice([1, 2, 3] + ([nxt[0] - T] * 3 if nxt and nxt[0] - T <= 40 else []))
        return c

    def gen_shift(self, rng, count):
        for i in range(count):
            yield self.fill_shift(rng, self.common(rng, "shift"))

    def fill_shift(self, rng, c, far=None):
        """lens, proportions, draws, mode flags of a random_shift request. `far`: the largest proportion
        (constant / replicate), however short the batch."""
        mode, N, T = c["mode"], c["N"], c["T"]
        if T == 0:
            c["mode"] = mode = "constant"
        lo = 0 if mode == "constant" else 1
        c["lens"] = [rng.randint(lo, T) for _ in range(N)]
        hi = 4 if mode == "reflect" else 8       # prop in quarters; reflect needs prop <= 1
        if far is not None and mode != "reflect":
            hi = 4 * far
        c["p0"], c["p1"] = (frac_str(Fraction(rng.randint(0, hi), 4)) for _ in range(2))
        c["training"] = rng.random() < 0.8
        if rng.random() < 0.3:
            c["p1"] = c["p0"]
            c["scalar_prop"] = rng.random() < 0.7
        if rng.random() < 0.75:
            c["draws"] = [[frac_str(Fraction(rng.choice([0, 1, 5, 8, 11, 15, 16 * 4 - 1]),
                                             rng.choice([16, 64]))) for _ in range(N)] for _ in range(2)]
            c["draws"] = [[u if Fraction(u) < 1 else "15/16" for u in row] for row in c["draws"]]
        else:
            c["draws"] = None          # genuine torch.rand_like, recorded
            c["torch_seed"] = rng.randrange(1 << 30)
        if c["entry"] in ("module", "module_parent") and rng.random() < 0.4:
            # the flag that counts is the last one set (directly or through the parent)
            c["pre_modes"] = [rng.random() < 0.5 for _ in range(rng.randint(1, 2))]
        return c

    def gen_shift_rounding(self, rng, count):
        """Proportions the way users write them (k/len, 0.1, 1/3: doubles that float32 rounds up or down)
        with lengths that make prop*len border an integer, and the extreme float32 draws."""
        nice = [1 / 3, 2 / 3, 1 / 7, 0.1, 0.3, 0.7, 0.9, 7 / 13, 1.1, 1 / 9, 5 / 11]
        crossing = self.crossing_pairs()
        for _ in range(count):
            mode = rng.choice(MODES)
            N = rng.randint(1, 2)
            lens, props = [], []
            L = rng.randint(3, 40)
            if rng.random() < 0.5:
                L = rng.choice(sorted(crossing))
            for side in range(2):
                r = rng.random()
                if r < 0.6:
                    ks = [k for k in crossing.get(L, []) if k <= L or mode != "reflect"]
                    k = rng.choice(ks) if ks and rng.random() < 0.7 else rng.randint(
                        1, L if mode == "reflect" else 2 * L)
                    p = k / L
                elif r < 0.9:
                    p = rng.choice(nice)
                else:
                    p = rng.random() * (1 if mode == "reflect" else 2)
                if mode == "reflect":
                    p = min(p, 1.0)
                props.append(p)
            lens = [L] + [rng.randint(1, L) for _ in range(N - 1)]
            rng.shuffle(lens)
            c = {"fn": "shift", "entry": rng.choice(["functional", "module", "module_parent"]),
                 "dtype": rng.choice(["float32", "float64", "int64"]), "trail": [], "value": rng.choice(VALUES),
                 "mode": mode, "N": N, "T": L, "x": mk_x(rng, N, L, 1), "lens": lens,
                 "p0": frac_str(props[0]), "p1": frac_str(props[1]), "training": True, "stream": "rounding",
                 "draws": [[rng.choice(U_EXTREME[:3]) if rng.random() < 0.8 else rng.choice(U_EXTREME)
                            for _ in range(N)] for _ in range(2)]}
            if rng.random() < 0.3:
                c["p1"] = c["p0"]
                c["scalar_prop"] = True
            self.maybe_vclass(rng, c)
            yield c

    _ties = None

    @classmethod
    def tie_triples(cls):
        """{len: [(k, u), ...]} for len <= 40, k <= 2 len, u a dyadic draw: with prop the double k/len, IEEE double
        arithmetic (what the repaired code does: fl(fl(prop * len) * u)) and exact arithmetic give DIFFERENT
        floors — e.g. prop = 2/3, len = 3, u = 1/2: fl(prop * 3) = 2.0, one element; exactly prop * 3 / 2 < 1,
        none. On these requests the library must follow the double-precision model (randomShiftF64)."""
        if cls._ties is None:
            out = {}
            for L in range(3, 41):
                for k in range(1, 2 * L + 1):
                    p = k / L
                    for u in ("1/2", "1/4", "3/4", "5/8", "7/8", "15/16", "63/64"):
                        uf = Fraction(u)
                        if int((p * float(L)) * float(uf)) != int(Fraction(p) * L * uf):
                            out.setdefault(L, []).append((k, u))
            cls._ties = out
        return cls._ties

    def gen_shift_ties(self, rng, count):
        """Forced rounding ties (audit round E): proportions k/len and dyadic draws for which double and exact
        arithmetic disagree, on one or both sides, next to rows without a tie."""
        ties = self.tie_triples()
        dy = ["0", "1/2", "1/4", "3/4", "5/8", "15/16", "63/64"]
        for _ in range(count):
            mode = rng.choice(MODES)
            L = rng.choice(sorted(ties))
            cand = [(k, u) for k, u in ties[L] if k <= L or mode != "reflect"]
            if not cand:
                mode, cand = "constant", ties[L]
            N = rng.randint(1, 3)
            row = rng.randrange(N)
            lens = [rng.randint(1, L) for _ in range(N)]
            lens[row] = L
            props, draws = [], [[rng.choice(dy) for _ in range(N)] for _ in range(2)]
            sides = rng.choice([(0,), (1,), (0, 1)])
            for side in range(2):
                if side in sides:
                    k, u = rng.choice(cand)
                    props.append(k / L)
                    draws[side][row] = u
                else:
                    props.append(rng.choice([0.0, 0.25, 0.5, 1.0]))
            trail = rng.choice([[], [], [2]])
            c = {"fn": "shift", "entry": rng.choice(["functional", "module", "module_parent"]),
                 "dtype": rng.choice(["float32", "float64", "int64"]), "trail": trail, "value": rng.choice(VALUES),
                 "mode": mode, "N": N, "T": L, "x": mk_x(rng, N, L, prod(trail)), "lens": lens,
                 "p0": frac_str(props[0]), "p1": frac_str(props[1]), "training": True, "stream": "ties",
                 "draws": draws}
            if props[0] == props[1]:
                c["scalar_prop"] = rng.random() < 0.5
            self.maybe_vclass(rng, c)
            yield c

    _crossing = None

    @classmethod
    def crossing_pairs(cls):
        """{len: [k, ...]} for len <= 40, k <= 2 len: the double k/len lies below k/len but rounds UP to float32,
        far enough for float32(k/len) * len to round above k — the proportions for which float32 arithmetic
        and the largest draw give k added elements although prop * len < k."""
        if cls._crossing is None:
            import numpy as np
            out = {}
            u = np.float32(1 - 2.0 ** -24)
            for L in range(3, 41):
                for k in range(1, 2 * L + 1):
                    p = k / L
                    a = np.float32(np.float32(p) * np.float32(L))
                    if Fraction(int(np.float32(a * u))) > Fraction(p) * L:
                        out.setdefault(L, []).append(k)
            cls._crossing = out
        return cls._crossing

    def gen_shapes(self, rng, count):
        """What each function accepts, as a function of the SHAPES of its arguments only (legal data inside):
        the documented shapes, and near misses (one dimension too many / too few, a size off by one, the two
        dimensions swapped, size 1 where broadcasting is / is not documented)."""
        for i in range(count):
            target = ("pad", "chunk", "masked", "shift")[i % 4]
            N, T = rng.randint(1, 3), rng.randint(1, 3)
            if target == "chunk" and rng.random() < 0.25:
                N, T = rng.choice([(0, T), (N, 0), (0, 0)])
            if target == "masked" and rng.random() < 0.25:
                N, T = rng.choice([(0, T), (N, 0), (1, 1)])
            xshape = rng.choice([[], [N], [N, T], [N, T], [N, T], [N, T, 2], [N, T, 1, 2]])
            c = {"fn": "shapes", "target": target, "entry": rng.choice(["functional", "module"]),
                 "xshape": xshape, "mode": rng.choice(MODES), "N": N, "T": T}
            good = rng.random() < 0.3
            c["lens_shape"] = [N] if good else rng.choice([[N], [N + 1], [N, 1], [1, N], [], [max(N - 1, 0)], [1]])
            if target == "pad":
                c["pad_shape"] = [2, N] if good else rng.choice(
                    [[2, N], [2, N], [3, N], [2, N + 1], [N, 2], [2 * N], [2, N, 1], [1, N]])
            if target == "chunk" and rng.random() < 0.3:
                c["lens_shape"] = None
            if target == "masked":
                d0, d1 = (xshape + [1, 1])[:2]
                c["mask_shape"] = [d0, d1] if good else rng.choice(
                    [[d0, d1], [d0, 1], [1, d1], [1, 1], [d0 + 1, d1], [d0, d1 + 1], [d0 + 2, 1], [1, d1 + 2],
                     [d0], [d0, d1, 1], [d1, d0], [0, d1], [d0, 0]])
                c["batch_first"] = rng.random() < 0.5
                del c["lens_shape"]
            if target == "shift":
                c["training"] = rng.random() < 0.6
            yield c

    def gen_sizes(self, rng, count):
        """Larger batches / time dimensions than the main streams (plain options)."""
        for i in range(count):
            fn = ("pad", "chunk", "shift")[i % 3]
            mode = rng.choice(MODES)
            N, T = rng.randint(3, 7), rng.randint(7, 17)
            trail = rng.choice([[], [2], [1, 2]])
            lo = 0 if mode == "constant" else 1
            c = {"fn": fn, "entry": rng.choice(["functional", "module"]), "dtype": rng.choice(DTYPES[:4]),
                 "trail": trail, "value": rng.choice(VALUES), "mode": mode, "N": N, "T": T,
                 "x": mk_x(rng, N, T, prod(trail)), "stream": "sizes"}
            lens = [rng.randint(max(lo, 1), T) for _ in range(N)]
            if fn == "pad":
                pads = [[rng.randint(0, ln - 1) if mode == "reflect" else rng.randint(0, 2 * T) for ln in lens]
                        for _ in range(2)]
                c.update(lens=lens, pad0=pads[0], pad1=pads[1])
            elif fn == "chunk":
                for _try in range(40):
                    sl = [[rng.randint(-T - 2, 2 * T), rng.randint(-T - 2, 2 * T)] for _ in range(N)]
                    if mode != "reflect" or self.reflect_legal(sl, lens):
                        break
                else:
                    sl = [[-(ln - 1), 2 * ln - 1] for ln in lens]
                c.update(lens=lens, slices=sl)
            else:
                hi = 4 if mode == "reflect" else 8
                c.update(lens=lens, p0=frac_str(Fraction(rng.randint(0, hi), 4)),
                         p1=frac_str(Fraction(rng.randint(0, hi), 4)), training=True,
                         draws=[[frac_str(Fraction(rng.randrange(64), 64)) for _ in range(N)] for _ in range(2)])
            self.maybe_vclass(rng, c)
            yield c

    def gen_large(self, rng, count):
        """Size-triggered paths. Library code (torch's sort / scan / copy kernels, a rewrite of these functions
        on top of them) may take another path once a dimension passes a threshold, so every function of the
        property is run, a few times per run, with one dimension AT AND AROUND 16, 32, 64, 128 and beyond 1000:
        the time dimension (every target and run: one of 15/16, 17, one of 31-33, 63-65, 127-129, one of
        1000+), the batch dimension, the frame size, and — small tensors — the pad amounts / slice bounds /
        shift proportions ('far'). Cell values are distinct (see `mk_x`), so a reordering is visible; dtypes,
        memory layouts, index dtypes, call styles, entry points and both `batch_first` settings vary as in the
        main streams (`vary`). Beyond the planned combinations: random ones."""
        targets = ([("pad", m) for m in MODES] + [("chunk", m) for m in MODES]
                   + [("masked", True), ("masked", False)] + [("shift", m) for m in MODES])
        lo, hi = BIG_SIZES[:6], BIG_SIZES[6:]
        plan = []
        for tg in targets:
            plan += [(tg, "T", rng.choice(g)) for g in ((15, 16), (17,), (31, 32, 33), (63, 64, 65),
                                                        (127, 128, 129), MID_SIZES, ("huge",))]
            plan += [(tg, "N", rng.choice(lo)), (tg, "N", rng.choice(hi + ("huge", "huge")))]
            plan += [(tg, "F", rng.choice(lo)), (tg, "F", rng.choice(hi + ("huge", "huge")))]
            if tg[0] != "masked" and tg[1] != "reflect":
                plan += [(tg, "far", rng.choice(lo)), (tg, "far", rng.choice(hi + ("huge", "huge")))]
        rng.shuffle(plan)
        while len(plan) < count:
            tg = rng.choice(targets)
            role = rng.choice(["T", "T", "T", "N", "F", "far"])
            if role == "far" and (tg[0] == "masked" or tg[1] == "reflect"):
                role = "T"
            plan.append((tg, role, rng.choice(BIG_SIZES + MID_SIZES[:3] + ("huge", "huge"))))
        for tg, role, size in plan[:count]:
            yield self.large_case(rng, tg, role, size)

    def large_case(self, rng, target, role, size):
        fn, opt = target
        big = size if size != "huge" else rng.choice([1000, 1023, 1024, 1025, rng.randint(1001, 1300), 2049])
        huge = big >= 1000
        N, T = rng.randint(1, 3 if big < 2000 else 1), rng.randint(2, 6)
        trail = rng.choice([[], [], [1]] if big > 200 else [[], [], [2], [1, 2], [3]])
        far = None
        if role == "T":
            T = big
        elif role == "N":
            N = big
            T = rng.randint(1, 3 if huge else 6)
        elif role == "F":
            trail = rng.choice([[big], [big], [1, big], [big, 1]])
            T = rng.randint(1, 3 if huge else 6)
        else:
            far = big
        if role in ("T", "N") and big < 200 and rng.random() < 0.25:
            # two dimensions beyond the small thresholds
            if role == "T":
                N = rng.choice(BIG_SIZES[:6])
            else:
                T = rng.choice(BIG_SIZES[:6])
            trail = []
        if fn == "masked":
            c = self.make_masked(rng, N, T, trail, bf=opt, density=rng.choice([0.2, 0.5, 0.5, 0.8, 0.95]))
        else:
            c = self.common(rng, fn, dims=(N, T, trail), mode=opt)
            if fn == "pad":
                self.fill_pad(rng, c, far=far)
            elif fn == "chunk":
                self.fill_chunk(rng, c, far=far, per_row=True)
            else:
                self.fill_shift(rng, c, far=far)
                if c.get("draws") is not None:
                    # draws in 64ths over the whole range (the main stream picks from seven values)
                    c["draws"] = [[frac_str(Fraction(rng.randrange(64), 64)) for _ in range(N)] for _ in range(2)]
        c["stream"] = "large"
        c["large"] = role
        return c

    def gen_malformed(self, rng, count):
        kinds = ["pad.x_ndim", "pad.lens_shape", "pad.pad_shape", "pad.pad_outer", "pad.mode", "pad.reflect_big",
                 "pad.replicate_len0", "chunk.x_ndim", "chunk.lens_shape", "chunk.mode", "chunk.reflect_big",
                 "chunk.replicate_len0", "masked.x_ndim", "masked.mask_ndim", "module.mode", "shift.prop_neg",
                 "shift.prop_reflect", "shift.prop_len", "shift.mode", "shift.x_ndim", "shift.lens_shape",
                 "shift.prop_neg_pair", "shift.prop_reflect_pair", "shift.x_ndim_module"]
        for i in range(count):
            kind = kinds[i % len(kinds)]
            fn = kind.split(".")[0]
            c = self.common(rng, fn if fn in ("pad", "chunk") else "pad")
            N, T = c["N"], max(c["T"], 1)
            c["T"] = T
            c["x"] = mk_x(rng, N, T, prod(c["trail"]))
            if str(c.get("x_layout", "")).startswith("expand"):
                del c["x_layout"]                   # x was redrawn: not constant along any dimension
            c["malformed"] = kind
            c["lens"] = [rng.randint(1, T) for _ in range(N)]
            c["pad0"] = [0] * N
            c["pad1"] = [0] * N
            c["slices"] = [[0, c["lens"][n]] for n in range(N)]
            if c["mode"] == "reflect":
                c["lens"] = [max(l, 1) for l in c["lens"]]
            if kind in ("pad.lens_shape", "chunk.lens_shape"):
                c["lens"] = c["lens"] + [1]
            elif kind == "pad.pad_shape":
                c["pad0"] = c["pad0"] + [0]
                c["pad1"] = c["pad1"] + [0]
            elif kind in ("pad.reflect_big", "chunk.reflect_big"):
                c["mode"] = "reflect"
                n = rng.randrange(N)
                big = c["lens"][n] + rng.randint(0, 2)
                if rng.random() < 0.5:
                    c["pad0"][n] = big
                    c["slices"][n] = [-big, c["lens"][n]]
                else:
                    c["pad1"][n] = big
                    c["slices"][n] = [0, c["lens"][n] + big]
            elif kind in ("pad.replicate_len0", "chunk.replicate_len0"):
                c["mode"] = "replicate"
                c["lens"][rng.randrange(N)] = 0
            c["fn"] = {"pad": "pad", "chunk": "chunk"}.get(fn, "api")
            yield c

    # ------------------------------------------------------------------ implementation
    def run_impl(self, case):
        import torch
        import pydrobert.torch.functional as Fn
        import pydrobert.torch.modules as Md
        import warnings
        warnings.filterwarnings("ignore")
        kind = case.get("malformed")
        if kind and (case["fn"] == "api" or kind.endswith("x_ndim") or kind.endswith(".mode")
                     or kind == "pad.pad_outer"):
            return self.run_api_malformed(case, torch, Fn, Md)
        fn = case["fn"]
        if fn == "shapes":
            return self.run_shapes(case, torch, Fn, Md)
        F = prod(case["trail"])
        N = case["N"]
        vf = value_frac(case)
        value = int(vf) if case.get("value_kind") == "int" and vf.denominator == 1 else float(vf)
        entry = case.get("entry", "functional")
        style = case.get("call", "positional")
        x = tens(case, torch)
        watched = [("x", x)]
        dec = Decoder(case, torch) if vclass_of(case) else None

        def rows_of(t, N, F):
            # with a value class: cells read back bit for bit as the labels they were copied from
            return dec.rows(t, N, F, torch) if dec else plain_rows_of(t, N, F)

        def watch(name, t):
            watched.append((name, t))
            return t

        def call(f, tensors, options, defaults):
            """f(tensors..., options...) in the case's call style. `defaults` = documented defaults: the style
            'defaults' omits every option that equals its documented default (a changed default shows)."""
            if style == "positional":
                return f(*[v for _, v in tensors], *[v for _, v in options])
            if style == "keyword":
                return f(**dict(tensors), **dict(options))
            kw = {k: v for k, v in options if not (k in defaults and same_opt(v, defaults[k]))}
            ts = list(tensors)
            while ts and ts[-1][1] is None and ts[-1][0] in defaults:
                ts.pop()                                    # a trailing optional tensor (lens=None)
            return f(*[v for _, v in ts], **kw)

        def same_opt(a, b):
            return type(a) in (int, float, bool, str) and a == b and isinstance(a, bool) == isinstance(b, bool)

        def module_of(cls, ctor_opts, defaults, training=None):
            m = call(cls, [], ctor_opts, defaults)
            for b in case.get("pre_modes") or []:
                m.train(b)
            if entry == "module_parent":
                class Parent(torch.nn.Module):
                    def __init__(self, child):
                        super().__init__()
                        self.stack = torch.nn.ModuleList([torch.nn.Identity(), child])

                    def forward(self, *a, **k):
                        return self.stack[1](*a, **k)

                parent = Parent(m)
                for b in case.get("pre_modes") or []:
                    parent.train(b)
                if training is not None:
                    parent.train(training)
                elif case.get("parent_eval"):
                    parent.eval()
                return parent
            if training is not None:
                m.train(training)
            return m

        def finish(obs, snap):
            changed = [name for (name, t), old in zip(watched, snap)
                       if not same_bits(t, old, torch)]
            if changed:
                obs["args_changed"] = changed
            return obs

        is_module = entry in ("module", "module_parent")
        if fn == "pad":
            lens = watch("lens", idx_tensor(case["lens"], [len(case["lens"])], case, torch))
            pad = watch("pad", idx_tensor([case["pad0"], case["pad1"]], [2, len(case["pad0"])], case, torch))
            snap = [t.clone() for _, t in watched]
            tensors = [("x", x), ("lens", lens), ("pad", pad)]
            opts = [("mode", case["mode"]), ("value", value)]
            dfl = {"mode": "constant", "value": 0.0}
            if is_module:
                out = call(module_of(Md.PadVariable, opts, dfl), tensors, [], {})
            elif entry == "util":
                import pydrobert.torch.util as Ut
                out = call(Ut.pad_variable, tensors, opts, dfl)
            else:
                out = call(Fn.pad_variable, tensors, opts, dfl)
            want = [a + b + c for a, b, c in zip(case["lens"], case["pad0"], case["pad1"])]
            rows = rows_of(out, N, F)
            return finish({"shape": list(out.shape), "dtype": str(out.dtype).split(".")[-1],
                           "rows": [r[:w] for r, w in zip(rows, want)]}, snap)
        if fn == "chunk":
            sl = watch("slices", idx_tensor(case["slices"], [len(case["slices"]), 2], case, torch))
            lens = None if case["lens"] is None else watch(
                "lens", idx_tensor(case["lens"], [len(case["lens"])], case, torch))
            snap = [t.clone() for _, t in watched]
            tensors = [("x", x), ("slices", sl), ("lens", lens)]
            opts = [("mode", case["mode"]), ("value", value)]
            dfl = {"mode": "constant", "value": 0.0, "lens": None}
            if is_module:
                out, ol = call(module_of(Md.ChunkBySlices, opts, dfl), tensors, [], dfl)
            else:
                out, ol = call(Fn.chunk_by_slices, tensors, opts, dfl)
            ol = [int(v) for v in ol.tolist()]
            rows = rows_of(out, N, F)
            return finish({"shape": list(out.shape), "dtype": str(out.dtype).split(".")[-1], "lens": ol,
                           "rows": [r[:max(w, 0)] for r, w in zip(rows, ol)]}, snap)
        if fn == "masked":
            outer = case["outer_shape"]
            mask = torch.tensor([b for row in case["mask"] for b in row], dtype=torch.bool).reshape(outer)
            mv = case.get("mask_var")
            raw_counts = None
            if mv in ("transposed", "strided", "offset"):
                mask = relayout(mask, mv, torch)
            elif mv:
                d = int(mv[-1])
                small = mask.narrow(d, 0, 1).clone()
                if not torch.equal(small.expand(outer), mask):
                    raise AssertionError("harness: mask is not constant along the broadcast dimension")
                mask = small.expand(outer) if mv.startswith("expand") else small
                sb = small if case["batch_first"] else small.transpose(0, 1)
                raw_counts = [int(v) for v in sb.sum(1).tolist()]
            watch("mask", mask)
            snap = [t.clone() for _, t in watched]
            bf = case["batch_first"]
            tensors = [("x", x), ("mask", mask)]
            opts = [("batch_first", bf), ("padding_value", value)]
            dfl = {"batch_first": False, "padding_value": 0.0}
            if is_module:
                out, ol = call(module_of(Md.PadMaskedSequence, opts, dfl), tensors, [], {})
            else:
                out, ol = call(Fn.pad_masked_sequence, tensors, opts, dfl)
            same_shape = list(out.shape) == list(x.shape)
            ob = out if bf else out.transpose(0, 1)
            obs = {"shape_kept": same_shape, "dtype": str(out.dtype).split(".")[-1],
                   "lens": [int(v) for v in ol.tolist()], "rows": rows_of(ob, N, F) if same_shape else None,
                   "shape": list(out.shape)}
            if raw_counts is not None:
                obs["raw_mask_counts"] = raw_counts
            if case.get("append"):
                obs["appended"] = self.run_appended(case)
            return finish(obs, snap)
        if fn == "shift":
            prop = (float(Fraction(case["p0"])), float(Fraction(case["p1"])))
            lens = watch("lens", idx_tensor(case["lens"], [len(case["lens"])], case, torch))
            snap = [t.clone() for _, t in watched]
            rec = []
            if case.get("torch_seed") is not None:
                torch.manual_seed(case["torch_seed"])
            tensors = [("input", x), ("in_lens", lens)]
            with patched_rand_like(case["draws"], rec):
                if is_module:
                    # the documented single-number form when both sides are equal and the case asks for it
                    arg = prop[0] if case.get("scalar_prop") and prop[0] == prop[1] else prop
                    m = module_of(Md.RandomShift, [("prop", arg), ("mode", case["mode"]), ("value", value)],
                                  {"mode": "reflect", "value": 0.0}, training=case["training"])
                    out, ol = call(m, tensors, [], {})
                else:
                    out, ol = call(Fn.random_shift, tensors,
                                   [("prop", prop), ("mode", case["mode"]), ("value", value),
                                    ("training", case["training"])], {"training": True})
            ol = [int(v) for v in ol.tolist()]
            rows = rows_of(out, N, F)
            obs = {"shape": list(out.shape), "dtype": str(out.dtype).split(".")[-1], "lens": ol,
                   "rows": [r[:max(w, 0)] for r, w in zip(rows, ol)],
                   "same_object": bool(out is x), "n_draw_calls": len(rec)}
            if rec:
                obs["draws"] = [[frac_str(float(v)) for v in row] for row in rec[0].reshape(2, -1).tolist()]
                # the amounts IEEE double arithmetic (the repaired code) and float32 arithmetic (the code before
                # fixes/C09-random-shift-float32-bound.diff) give, next to the exact floor the model computes
                import numpy as np
                tie, f32, exact, f64 = False, [], [], []
                for side, p in enumerate(prop):
                    for n, u in enumerate(rec[0].reshape(2, -1)[side].tolist()):
                        L = case["lens"][n]
                        a32 = np.float32(np.float32(p) * np.float32(L))
                        f32.append(int(np.float32(a32 * np.float32(u))))
                        ex = int(Fraction(p) * L * Fraction(float(u)))
                        exact.append(ex)
                        f64.append(int((p * float(L)) * float(u)))
                        tie = tie or f64[-1] != ex
                # NOT an observation of the library: python-double arithmetic, kept only to cross-check the Lean
                # rounding model roundBits 53 (machinery). What the library did is obs["lens"] / obs["rows"],
                # compared with the Lean double-precision model `model_f64` in compare().
                obs["rounding_tie"] = tie
                k = len(f32) // 2
                obs["f32_lens"] = [L + a + b for L, a, b in zip(case["lens"], f32[:k], f32[k:])]
                obs["exact_lens"] = [L + a + b for L, a, b in zip(case["lens"], exact[:k], exact[k:])]
                obs["f64_amounts"] = [[a, b] for a, b in zip(f64[:k], f64[k:])]
            return finish(obs, snap)
        raise ValueError(f"unknown fn {fn}")

    def run_appended(self, case):
        """pad_masked_sequence on the same request with `append` masked-out frames (content APPENDED) added at
        the end of every sequence — through the same entry point, layout, call style."""
        k, bf, N, T = case["append"], case["batch_first"], case["N"], case["T"]
        F = prod(case["trail"])
        if bf:
            x = [row + [[APPENDED] * F for _ in range(k)] for row in case["x"]]
            mask = [row + [False] * k for row in case["mask"]]
            outer = [N, T + k]
        else:
            x = case["x"] + [[[APPENDED] * F for _ in range(N)] for _ in range(k)]
            mask = case["mask"] + [[False] * N for _ in range(k)]
            outer = [T + k, N]
        c2 = {q: v for q, v in case.items() if q != "append"}
        c2.update(x=x, mask=mask, T=T + k, outer_shape=outer)
        try:
            o = self.run_impl(c2)
        except Exception as e:
            return {"k": k, "error": type(e).__name__, "message": str(e)[:200]}
        return {"k": k, "lens": o["lens"], "rows": o["rows"], "shape_kept": o["shape_kept"]}

    def run_shapes(self, case, torch, Fn, Md):
        """legal data in tensors of the case's shapes"""
        target, mode, N, T = case["target"], case["mode"], case["N"], case["T"]
        module = case["entry"] == "module"
        x = torch.arange(1, prod(case["xshape"]) + 1, dtype=torch.float).reshape(case["xshape"])
        lens = None if case.get("lens_shape") is None else torch.full(case["lens_shape"], min(1, T),
                                                                     dtype=torch.long)
        if target == "pad":
            pad = torch.zeros(case["pad_shape"], dtype=torch.long)
            out = Md.PadVariable(mode)(x, lens, pad) if module else Fn.pad_variable(x, lens, pad, mode)
        elif target == "chunk":
            sl = torch.tensor([[0, min(1, T)]] * N, dtype=torch.long).reshape(N, 2)
            out = (Md.ChunkBySlices(mode)(x, sl, lens) if module else Fn.chunk_by_slices(x, sl, lens, mode))[0]
        elif target == "masked":
            mask = torch.ones(case["mask_shape"], dtype=torch.bool)
            bf = case["batch_first"]
            out = (Md.PadMaskedSequence(bf)(x, mask) if module else Fn.pad_masked_sequence(x, mask, bf))[0]
        else:
            if module:
                m = Md.RandomShift(0.5, mode)
                m.train(case["training"])
                out = m(x, lens)[0]
            else:
                out = Fn.random_shift(x, lens, (0.5, 0.5), mode, 0.0, case["training"])[0]
        return {"accepted": True, "ndim": out.dim()}

    EXPECT = {
        "pad.x_ndim": "ValueError", "pad.pad_outer": "ValueError", "pad.mode": "ValueError",
        "chunk.x_ndim": "RuntimeError", "chunk.mode": "ValueError", "masked.x_ndim": "RuntimeError",
        "masked.mask_ndim": "RuntimeError", "module.mode": "ValueError", "shift.prop_neg": "ValueError",
        "shift.prop_reflect": "NotImplementedError", "shift.prop_len": "ValueError", "shift.mode": "ValueError",
        "shift.x_ndim": "RuntimeError", "shift.lens_shape": "RuntimeError",
        "shift.prop_neg_pair": "ValueError", "shift.prop_reflect_pair": "NotImplementedError",
        "shift.x_ndim_module": "RuntimeError",
    }

    def run_api_malformed(self, case, torch, Fn, Md):
        kind = case["malformed"]
        N, T = case["N"], case["T"]
        x = tens(case, torch)
        lens = torch.tensor(case["lens"][:N], dtype=torch.long)
        pad = torch.zeros(2, N, dtype=torch.long)
        sl = torch.tensor([[0, 1]] * N, dtype=torch.long)
        module = case["entry"] in ("module", "module_parent")
        if kind == "pad.x_ndim":
            Fn.pad_variable(x[:, 0].flatten()[:N], lens, pad)
        elif kind == "pad.pad_outer":
            Fn.pad_variable(x, lens, torch.zeros(3, N, dtype=torch.long), case["mode"])
        elif kind == "pad.mode":
            Fn.pad_variable(x, lens, pad, "circular")
        elif kind == "chunk.x_ndim":
            Fn.chunk_by_slices(x[:, 0].flatten()[:N], sl)
        elif kind == "chunk.mode":
            Fn.chunk_by_slices(x, sl, lens, "circular")
        elif kind == "masked.x_ndim":
            Fn.pad_masked_sequence(torch.ones(3), torch.ones(3, 1, dtype=torch.bool))
        elif kind == "masked.mask_ndim":
            Fn.pad_masked_sequence(x, torch.ones(N, dtype=torch.bool), True)
        elif kind == "module.mode":
            (Md.PadVariable if module else Md.ChunkBySlices)("circular")
        elif kind == "shift.prop_neg":
            Md.RandomShift(-0.25, "constant")
        elif kind == "shift.prop_reflect":
            Md.RandomShift(1.25, "reflect")
        elif kind == "shift.prop_neg_pair":
            Md.RandomShift((0.5, -0.25), "constant")
        elif kind == "shift.prop_reflect_pair":
            Md.RandomShift((0.5, 1.25), "reflect")
        elif kind == "shift.prop_len":
            Md.RandomShift((0.5, 0.2, 0.1), "constant")
        elif kind == "shift.mode":
            Md.RandomShift(0.5, "circular")
        elif kind == "shift.x_ndim":
            Fn.random_shift(torch.ones(N), lens, (0.5, 0.5), "constant", 0.0)
        elif kind == "shift.lens_shape":
            Fn.random_shift(x, torch.ones(N + 1, dtype=torch.long), (0.5, 0.5), "constant", 0.0)
        elif kind == "shift.x_ndim_module":
            m = Md.RandomShift(0.5, "constant")
            m.train(case["T"] % 2 == 0)
            m(torch.ones(N), lens)
        else:
            raise AssertionError(kind)
        return {"accepted": True}

    # ------------------------------------------------------------------ model
    def is_api(self, case):
        kind = case.get("malformed")
        return bool(kind) and kind in self.EXPECT

    def model_request(self, case):
        if self.is_api(case):
            return None
        fn = case["fn"]
        if fn == "shapes":
            return {"op": "c09.shapes", "case": {k: case.get(k) for k in (
                "target", "mode", "xshape", "lens_shape", "pad_shape", "mask_shape", "batch_first", "training")}}
        F = prod(case["trail"])
        # the model's cells are integers: a fractional pad value (and the data with it) is scaled by its
        # denominator; a bool tensor stores value != 0
        sc = self.scale(case)
        vm = value_frac(case) * sc
        if case.get("dtype") == "bool":
            vm = int(vm != 0)
        xs = case["x"] if sc == 1 else [[[v * sc for v in fr] for fr in row] for row in case["x"]]
        base = {"value": int(vm), "F": F, "T": case["T"], "x": xs}
        if fn == "pad":
            return {"op": "c09.pad", "case": dict(base, mode=case["mode"], lens=case["lens"], pad0=case["pad0"],
                                                  pad1=case["pad1"])}
        if fn == "chunk":
            return {"op": "c09.chunk", "case": dict(base, mode=case["mode"], lens=case["lens"],
                                                    slices=case["slices"])}
        if fn == "masked":
            raw = case["mask"]
            mv = case.get("mask_var") or ""
            if mv.startswith("bcast"):
                # the mask as passed: size 1 along the broadcast dimension
                raw = [r[:1] for r in raw] if mv.endswith("1") else raw[:1]
            return {"op": "c09.masked", "case": dict(base, mask=case["mask"], mask_raw=raw,
                                                     batch_first=case["batch_first"],
                                                     outer=case["outer_shape"], inner=case["outer_shape"][1])}
        if fn == "shift":
            draws = case["draws"]
            if draws is None:
                # genuine draws: run once to record them (same seed => same draws in run_impl)
                try:
                    obs = self.run_impl(case) if case["training"] and case["N"] else {}
                except Exception:
                    obs = {}
                draws = obs.get("draws") or [["0"] * case["N"], ["0"] * case["N"]]
            return {"op": "c09.shift", "case": dict(base, mode=case["mode"], lens=case["lens"], p0=case["p0"],
                                                    p1=case["p1"], u0=draws[0], u1=draws[1],
                                                    training=case["training"])}
        raise ValueError(fn)

    @staticmethod
    def scale(case):
        return value_frac(case).denominator

    def descale(self, case, model):
        """undo model_request's scaling, once (compare and predicate receive the same reply object)"""
        sc = self.scale(case)
        if sc == 1 or model is None or model.get("_descaled"):
            return model
        for part in model.values():
            if isinstance(part, dict):
                for k in ("out", "rows"):
                    if isinstance(part.get(k), list):
                        part[k] = [[[num(Fraction(v, sc)) for v in fr] for fr in row] for row in part[k]]
        model["_descaled"] = True
        return model

    # ------------------------------------------------------------------ comparison
    @staticmethod
    def valid(model_part, lens):
        """valid region of a model output {"out": rows} given lengths"""
        return [r[:w] for r, w in zip(model_part["out"], lens)]

    @staticmethod
    def masked_rows(case, part):
        """model output of pad_masked_sequence in batch-first orientation"""
        o = part["out"]
        if case["batch_first"]:
            return o
        return [[o[t][n] for t in range(case["T"])] for n in range(case["N"])]

    def want_lens(self, case, part):
        if case["fn"] == "pad":
            return [a + b + c for a, b, c in zip(case["lens"], case["pad0"], case["pad1"])]
        return part.get("lens", [])

    def same(self, case, impl, part):
        """list of differences between the implementation's observation and one model output"""
        out = []
        ie, me = impl.get("error"), part.get("error")
        if ie or me:
            if ie != me:
                out.append(f"error impl={ie} model={me}")
            return out
        fn = case["fn"]
        if fn == "masked":
            if impl["lens"] != part["lens"]:
                out.append(f"lens impl={impl['lens']} model={part['lens']}")
            mo = self.masked_rows(case, part)
            if impl["rows"] != mo:
                out.append(f"rows impl={impl['rows']} model={mo}")
            return out
        lens = self.want_lens(case, part)
        if fn != "pad" and impl["lens"] != lens:
            out.append(f"lens impl={impl['lens']} model={lens}")
        if fn == "shift" and not case["training"]:
            lens = case["lens"]
        mv = self.valid(part, lens)
        if impl["rows"] != mv:
            out.append(f"valid rows impl={impl['rows']} model={mv}")
        return out

    def compare(self, case, impl, model):
        if model is None:
            return []
        if case["fn"] == "shapes":
            got = impl.get("error") or "ok"
            return [] if got == model["result"] else [f"shapes: impl {got} ({impl.get('message')}), "
                                                      f"model {model['result']}"]
        self.descale(case, model)
        if case["fn"] == "shift" and "model_f64" in model:
            # the library computes the amounts in double precision: it must ALWAYS equal the double-precision
            # model (randomShiftF64, C09_shift_float64), and the exact-arithmetic model (randomShift,
            # C09_shift_train) wherever the two arithmetics give the same floor (audit round E: a rounding tie
            # used to be compared with nothing)
            out = [f"[double-precision model] {d}" for d in self.same(case, impl, model["model_f64"])]
            if not impl.get("rounding_tie"):
                out += self.same(case, impl, model["model"])
            return out
        return self.same(case, impl, model["model"])

    # ------------------------------------------------------------------ the property on the implementation
    def predicate(self, case, impl, model):
        if self.is_api(case):
            want = self.EXPECT[case["malformed"]]
            if impl.get("error") != want:
                sig = None
                if case["malformed"].endswith("_pair") and "is not a float" in str(impl.get("message")):
                    sig = SIG_PROP_PAIR      # the pair form never gets as far as the documented check
                return [(f"malformed request {case['malformed']}: expected {want}, got {impl}", sig)]
            return []
        if case["fn"] == "shapes":
            # the documented shapes are accepted, everything else is refused with the documented class
            got = impl.get("error") or "ok"
            if model["documented"] is not None and got != model["documented"]:
                return [(f"{case['target']} with shapes { {k: v for k, v in case.items() if k.endswith('shape')} }"
                         f": documented {model['documented']}, got {got} ({impl.get('message')})", None)]
            return []
        self.descale(case, model)
        spec = model["spec"]
        fn = case["fn"]
        # the machinery itself: model (repaired) must meet the spec wherever the spec speaks
        self.selfcheck(case, model)
        fails = []
        if impl.get("args_changed"):
            fails.append((f"{fn} modified its argument(s) {impl['args_changed']} in place", None))
        if "dtype" in impl and impl["dtype"] != case.get("dtype", "float32"):
            fails.append((f"{fn} returned dtype {impl['dtype']} for input dtype {case.get('dtype')}", None))
        if spec is None:
            return fails
        sig = self.signature(case, impl, model)
        if "error" in spec:
            if impl.get("error") != spec["error"]:
                fails.append((f"illegal request: documented {spec['error']}, got {_short(impl)}", None))
            return fails
        if impl.get("error") == "AssertionError" and str(impl.get("message", "")).startswith("harness:"):
            # the request is outside what the harness can encode (a shrinking step can produce that): not
            # evidence about the library either way
            sys.stderr.write(f"C09 harness: request skipped ({impl.get('message')})\n")
            return []
        if "error" in impl:
            if (fn == "shift" and case["entry"] in ("module", "module_parent") and impl["error"] == "ValueError"
                    and "is not a float" in str(impl.get("message")) and not case.get("scalar_prop")):
                sig = SIG_PROP_PAIR     # RandomShift.__init__ rejects the documented pair form
            return [(f"{fn} raised {impl['error']} ({impl.get('message')}) on a legal request", sig)]
        N, F = case["N"], prod(case["trail"])
        if fn == "masked":
            if impl.get("raw_mask_counts") is not None and impl["lens"] == impl["raw_mask_counts"] \
                    and impl["lens"] != spec["lens"]:
                sig = SIG_BCAST      # lengths counted on the mask as given, before it is broadcast against x
            if not impl["shape_kept"]:
                fails.append((f"output shape {impl.get('shape')} differs from the input shape", None))
                return fails
            if impl["lens"] != spec["lens"]:
                fails.append((f"lens {impl['lens']} != counts {spec['lens']}", sig))
            fill = [value_obs(case)] * F
            for n, (row, sel) in enumerate(zip(impl["rows"], spec["rows"])):
                if row != sel + [fill] * (case["T"] - len(sel)):
                    fails.append((f"row {n}: {row} is not the selected elements {sel} followed by the pad value",
                                  sig))
            if len(impl["rows"]) != N:
                fails.append(("batch size changed", None))
            ap = impl.get("appended")
            if ap is not None:
                # stability, with the Lean oracle of the ORIGINAL request (C09_masked_stable: appending
                # masked-out elements changes nothing but the width)
                k = ap["k"]
                if "error" in ap or not ap.get("shape_kept"):
                    fails.append((f"with {k} masked-out elements appended to every sequence: {_short(ap)}", None))
                else:
                    if ap["lens"] != spec["lens"]:
                        fails.append((f"appending {k} masked-out elements changed the lengths: {ap['lens']} != "
                                      f"{spec['lens']}", None))
                    for n, (row, sel) in enumerate(zip(ap["rows"], spec["rows"])):
                        if row != sel + [fill] * (case["T"] + k - len(sel)):
                            fails.append((f"row {n}: after appending {k} masked-out elements the output "
                                          f"{_short(row)} is not the selected elements {_short(sel)} followed "
                                          f"by the pad value", None))
                            break
            return fails
        if fn == "shift" and not case["training"]:
            if impl["lens"] != case["lens"] or impl["shape"] != [N, case["T"]] + case["trail"]:
                fails.append((f"eval mode is not the identity: lens/shape {impl['lens']} {impl['shape']}", None))
            if impl["rows"] != [r[:l] for r, l in zip(case["x"], case["lens"])]:
                fails.append(("eval mode is not the identity on the data", None))
            if impl["n_draw_calls"]:
                fails.append(("eval mode drew random numbers", None))
            if not impl["same_object"]:
                fails.append(("eval mode does not return its input (documented: out, out_lens = input, in_lens)",
                              None))
            return fails
        if impl["shape"][0] != N or impl["shape"][2:] != case["trail"]:
            fails.append((f"output shape {impl['shape']} does not keep batch/trailing dims", sig))
        if fn == "shift" and impl.get("f32_lens") is not None and "amounts_f32" in model:
            # machinery: the Lean rounding models (roundBits 24 / 53) against numpy's float32 / python's double
            lean32 = [L + a + b for L, (a, b) in zip(case["lens"], model["amounts_f32"])]
            lean_tie = model["amounts_f64"] != model["amounts_exact"]
            if lean32 != impl["f32_lens"] or lean_tie != impl["rounding_tie"] \
                    or model["amounts_f64"] != impl.get("f64_amounts", model["amounts_f64"]):
                raise AssertionError(f"Lean rounding model differs from numpy: f32 {lean32} vs {impl['f32_lens']}, "
                                     f"float64 tie {lean_tie} vs {impl['rounding_tie']}, float64 amounts "
                                     f"{model['amounts_f64']} vs {impl.get('f64_amounts')}")
        if fn == "shift":
            if impl.get("f32_lens") is not None and impl["lens"] == impl["f32_lens"] != impl.get("exact_lens"):
                sig = SIG_F32        # the amounts float32 arithmetic gives (prop rounded to float32 first)
            fails += self.shift_bounds(case, impl, sig)
            if impl.get("rounding_tie"):
                return fails
        if fn != "pad" and impl["lens"] != spec["lens"]:
            fails.append((f"reported lengths {impl['lens']} != requested {spec['lens']}", sig))
        if len(impl["shape"]) > 1 and impl["shape"][1] < max(spec["lens"], default=0):
            fails.append((f"time dimension {impl['shape'][1]} shorter than the longest output "
                          f"{max(spec['lens'])}", sig))
        for n, (row, want) in enumerate(zip(impl["rows"], spec["rows"])):
            if row != want:
                fails.append((f"row {n}: valid part {row} != per-sequence result {want}", sig))
                break
        return fails

    def shift_bounds(self, case, impl, sig=None):
        """draw-free part of the random-shift clause: some (l, r) with 0 <= l < p0*len, 0 <= r < p1*len (0 where
        the product is 0), l + r = out_len - len and the original embedded at offset l."""
        fails = []
        p0, p1 = Fraction(case["p0"]), Fraction(case["p1"])
        for n, L in enumerate(case["lens"]):
            if n >= len(impl["lens"]):
                break
            tot = impl["lens"][n] - L
            orig = case["x"][n][:L]
            ok = False
            # the documented bound is EXCLUSIVE ("0.5 * 10 = 5 is an exclusive bound"): the draws are < 1, so
            # an amount is < prop * len, or 0 when prop * len = 0 (C09_shift_float64 proves it of the model)
            below = lambda a, b: a < b or (a == 0 and b == 0)
            for l in range(0, tot + 1):
                r = tot - l
                if below(l, p0 * L) and below(r, p1 * L) and impl["rows"][n][l:l + L] == orig:
                    ok = True
                    break
            if tot < 0 or not ok:
                fails.append((f"row {n}: no split of the {tot} added elements within ({float(p0)}*{L}, "
                              f"{float(p1)}*{L}) embeds the original sequence unchanged", sig))
        return fails

    def signature(self, case, impl, model):
        """The two defects of the pinned tree, recognised by their exact wrong behaviour."""
        fn = case["fn"]
        if fn not in ("pad", "chunk", "shift"):
            return None
        pinned = model.get("pinned")
        if pinned is None or self.same(case, impl, pinned):
            return None                      # not the pinned behaviour: a fresh violation
        if not self.same(case, impl, model["model"]):
            return None                      # behaves like the repaired model
        if case["mode"] == "replicate":
            return SIG_PAD_GT_T
        if fn == "chunk" and case["T"] == 0 and case["mode"] == "constant":
            return SIG_T0
        return None

    def selfcheck(self, case, model):
        spec, m = model["spec"], model["model"]
        if spec is None or (case["fn"] == "shift" and not case["training"]):
            return
        if "error" in spec:
            if case["fn"] != "shift" and m.get("error") != spec["error"]:
                raise AssertionError(f"model {m} does not raise the documented {spec['error']}")
            return
        if "error" in m:
            raise AssertionError(f"model raises {m} where the spec has a value")
        if case["fn"] == "masked":
            fill = [value_obs(case)] * prod(case["trail"])
            want = [sel + [fill] * (case["T"] - len(sel)) for sel in spec["rows"]]
            if self.masked_rows(case, m) != want or m["lens"] != spec["lens"]:
                raise AssertionError("model != spec (masked)")
            return
        if self.valid(m, spec["lens"]) != spec["rows"] or (case["fn"] != "pad" and m["lens"] != spec["lens"]):
            raise AssertionError(f"model != spec: {m} vs {spec}")

    # ------------------------------------------------------------------ spec sanity
    def extra_checks(self, rng, tier, report):
        """The Lean oracle `padSeq` against torch.nn.functional.pad on single sequences (a check of the
        machinery, not of the library under test: a mismatch is an internal error)."""
        import torch
        from common import leantools
        from common.leantools import obligations
        reqs, wants = [], []
        for _ in range(40 if tier == "quick" else 300):
            mode = rng.choice(MODES)
            n = rng.randint(1, 7)
            xs = rng.sample(range(1, 99), n)
            l, r = (rng.randint(0, n - 1), rng.randint(0, n - 1)) if mode == "reflect" else (
                rng.randint(0, 9), rng.randint(0, 9))
            ref = torch.nn.functional.pad(torch.tensor(xs, dtype=torch.float).view(1, 1, n), [l, r], mode,
                                          **({"value": -1.0} if mode == "constant" else {}))
            wants.append([[int(v)] for v in ref.flatten().tolist()])
            reqs.append({"op": "c09.pad", "case": {"mode": mode, "value": -1, "F": 1, "T": n,
                                                   "x": [[[v] for v in xs]], "lens": [n], "pad0": [l], "pad1": [r]}})
        reps = leantools.run_driver(obligations(self.pid)["driver"], reqs)
        bad = [(q, rp) for q, rp, w in zip(reqs, reps, wants) if rp.get("ok", {}).get("spec", {}).get("rows") != [w]]
        report["extra"]["spec_vs_torch_pad"] = {"cases": len(reqs), "mismatches": len(bad)}
        if bad:
            raise AssertionError(f"Lean padSeq differs from torch.nn.functional.pad: {bad[0]}")
        self.rounding_hypotheses(rng, tier, report)

    def rounding_hypotheses(self, rng, tier, report):
        """`C09_shift_amount_rounded` assumes `Rounding B rnd` with B = 2^prec (monotone, idempotent, exact on
        the naturals UP TO 2^prec, and for a = rnd z >= 1 a product with a representable u < 1 never rounds
        back up to a). Sampled here on IEEE float32 and float64 themselves (numpy), adversarial values included
        (powers of two, the largest draws, the bound 2^prec itself; mul_lt is sampled on all positive normal
        a, more than the hypothesis asks). The hypothesis is PROVED of the Lean model `roundBits prec`
        (C09_rounding_float); this sampling is about numpy's floats themselves (whose agreement with
        `roundBits` is cross-checked on every random_shift case) — evidence, not a proof. 2^prec + 1 is checked
        NOT to be exact: the unbounded form of nat_exact an earlier version assumed is false."""
        import numpy as np
        n = 4000 if tier == "quick" else 40000
        bad = []
        for ft, prec in ((np.float32, 24), (np.float64, 53)):
            us = [ft(1) - ft(2.0) ** -prec, ft(1) - ft(2.0) ** -(prec - 1), ft(0.5), ft(2.0) ** -prec]
            for i in range(n):
                k = i % 4
                if k == 0:
                    a = ft(2.0) ** rng.randint(-10, 20)                       # powers of two
                elif k == 1:
                    a = ft(rng.randint(1, 1 << 20))                           # naturals
                elif k == 2:
                    a = ft(ft(2.0) ** rng.randint(-5, 20) * (1 + rng.random() * 2.0 ** -rng.randint(1, prec)))
                else:
                    a = ft(rng.random() * 2000)
                u = us[rng.randrange(len(us))] if rng.random() < 0.7 else ft(rng.random())
                if a <= 0 or not (0 <= u < 1):
                    continue
                if not ft(a * u) < a:
                    bad.append(("mul_lt", ft.__name__, float(a), float(u)))
                b = ft(rng.random() * 2000)
                if (Fraction(float(a)) <= Fraction(float(b))) != (a <= b):
                    bad.append(("mono", ft.__name__, float(a), float(b)))
                # rounding a product is monotone in the exact product
                c, d = ft(rng.random() * 64), ft(rng.random() * 64)
                if Fraction(float(a)) * Fraction(float(u)) <= Fraction(float(c)) * Fraction(float(d)) \
                        and not ft(a * u) <= ft(c * d):
                    bad.append(("mono_mul", ft.__name__, float(a), float(u), float(c), float(d)))
                m = rng.randint(0, 1 << prec) if i % 16 else (1 << prec)
                if Fraction(float(ft(m))) != m:
                    bad.append(("nat_exact", ft.__name__, m))
                if ft(float(ft(a * u))) != ft(a * u):
                    bad.append(("idem", ft.__name__, float(a), float(u)))
            if Fraction(float(ft((1 << prec) + 1))) == (1 << prec) + 1:
                bad.append(("nat_exact_unbounded_would_hold", ft.__name__))
        report["extra"]["rounding_hypotheses_sampled"] = {"samples_per_format": n, "violations": len(bad)}
        if bad:
            raise AssertionError(f"IEEE arithmetic violates a hypothesis of C09_shift_amount_rounded: {bad[:3]}")

    # ------------------------------------------------------------------ evidence helpers
    def nontrivial(self, case, impl):
        fn = case["fn"]
        if self.is_api(case) or case.get("malformed") or fn == "shapes":
            return False
        if fn == "pad":
            return any(case["pad0"]) or any(case["pad1"])
        if fn == "chunk":
            lens = case["lens"] or [case["T"]] * case["N"]
            return any(e > s and (s < 0 or e > n) for (s, e), n in zip(case["slices"], lens))
        if fn == "masked":
            flat = [b for r in case["mask"] for b in r]
            return any(flat) and not all(flat)
        if fn == "shift":
            return isinstance(impl, dict) and "lens" in impl and impl["lens"] != case["lens"]
        return False

    def tags(self, case, impl):
        fn = case["fn"]
        t = [f"fn={fn}", f"entry={case.get('entry')}"]
        if case.get("malformed"):
            return t + [f"malformed={case['malformed']}"]
        if fn == "shapes":
            ok = isinstance(impl, dict) and "error" not in impl
            return t + [f"shapes.{case['target']}." + ("accepted" if ok else "refused")]
        t += [f"ntrail={len(case['trail'])}", f"dtype={case['dtype']}", f"N={min(case['N'], 5)}"
              + ("+" if case["N"] >= 5 else "")]
        t.append(f"x_layout={case.get('x_layout', 'contig')}")
        t.append(f"call={case.get('call', 'positional')}")
        v = value_frac(case)
        t.append("value=" + ("fractional" if v.denominator != 1 else "0" if v == 0 else "negative" if v < 0
                             else "positive") + ("(int)" if case.get("value_kind") == "int" else ""))
        vc = vclass_of(case)
        t.append(f"values={case['dtype']}.{vc}" if vc else "values=small_integers")
        if vc:
            t.append(f"values.{fn}" + (f".{case['mode']}" if "mode" in case else "") + f"={vc}")
            if vc == "nonfinite":
                labs = {v for row in case["x"] for fr in row for v in fr}
                t += [f"values.{name}" for name, lab in (("+inf", LBL_INF), ("-inf", LBL_NINF), ("-0.0", LBL_NZERO),
                                                         ("nan", LBL_NAN))
                      if lab in labs]
        if abs(v) > 2 ** 15 - 1 or v in (65504, -65504, 32767, -32768, 2047, 255):
            t.append(f"value=edge_of_{case['dtype']}")
        if case.get("idx"):
            t.append(f"idx={case['idx']['dtype']}/{case['idx']['layout']}")
        if case.get("stream"):
            t.append(f"stream={case['stream']}")
        if case.get("large"):
            t.append(f"large.{fn}.{case['large']}")
        if case["T"] > 6:
            t.append("T>6")
        # which size thresholds the request lies beyond (time / batch / frame dimension, largest pad or slice reach)
        reach = max([abs(v) for k in ("pad0", "pad1") for v in case.get(k) or []]
                    + [abs(v) for p in case.get("slices") or [] for v in p if p[1] > p[0]], default=0)
        for name, v in (("T", case["T"]), ("N", case["N"]), ("F", prod(case["trail"])), ("reach", reach)):
            th = [k for k in (17, 33, 65, 129, 257, 513, 1000) if v >= k]
            if th:
                t.append(f"{name}>={th[-1]}" + (f".{fn}" if name == "T" else ""))
            if v in (15, 16, 31, 32, 63, 64, 127, 128):
                t.append(f"{name}=2^k-1|2^k")
        if isinstance(impl, dict) and impl.get("args_changed"):
            t.append("args_changed")
        if prod(case["trail"]) == 0:
            t.append("F=0")
        if case["T"] <= 1:
            t.append(f"T={case['T']}")
        if fn in ("pad", "chunk", "shift"):
            t.append(f"{fn}.mode={case['mode']}")
        T = case["T"]
        if fn == "pad":
            if max(case["pad0"] + case["pad1"], default=0) > T:
                t.append(f"pad.{case['mode']}.pad>T")
            if 0 in case["lens"]:
                t.append("pad.len0")
            if case["N"] >= 2:
                if all(l == T for l in case["lens"]):
                    t.append("pad.all_full_length")
                if len(set(case["pad0"])) == 1 and len(set(case["pad1"])) == 1:
                    t.append("pad.same_pads_every_row")
                if not any(case["pad0"]) or not any(case["pad1"]):
                    t.append("pad.one_side_all_zero")
        if fn == "chunk":
            lens = case["lens"] or [T] * case["N"]
            if case["lens"] is None:
                t.append("chunk.lens=None")
            if case["N"] >= 2 and T:
                if len({tuple(p) for p in case["slices"]}) == 1:
                    t.append("chunk.same_slice_every_row")
                if all(0 <= s and e <= n for (s, e), n in zip(case["slices"], lens)):
                    t.append("chunk.no_slice_reaches_outside")
                if all([s, e] == [0, n] for (s, e), n in zip(case["slices"], lens)):
                    t.append("chunk.every_sequence_whole")
            if case["mode"] == "reflect" and sum(1 for (s, e), n in zip(case["slices"], lens)
                                                 if e > s > n) >= 2:
                t.append("chunk.reflect.special_case_rows>=2")
            for (s, e), n in zip(case["slices"], lens):
                if e <= s:
                    t.append("chunk.empty_or_inverted")
                    if case["mode"] == "reflect" and s > n:
                        t.append("chunk.reflect.special_case_offset>0.empty")
                elif s >= n:
                    t.append(f"chunk.{case['mode']}.wholly_right")
                    if case["mode"] == "reflect" and s > n:
                        t.append("chunk.reflect.special_case_offset>0")
                elif e <= 0:
                    t.append(f"chunk.{case['mode']}.wholly_left")
                elif s < 0 and e > n:
                    t.append("chunk.both_sides")
                if e > s and max(-s, e - n) > T:
                    t.append(f"chunk.{case['mode']}.pad>T")
        if fn == "masked":
            t.append(f"masked.batch_first={case['batch_first']}")
            t.append(f"masked.mask={case.get('mask_var') or 'full'}")
            if case.get("append"):
                t.append("masked.appended_masked_out" + (".crossing_threshold" if any(
                    case["T"] < th <= case["T"] + case["append"] for th in (17, 33, 65, 129, 257, 1025)) else ""))
            flat = [b for r in case["mask"] for b in r]
            if flat and all(flat):
                t.append("masked.all_true")
            mb = case["mask"] if case["batch_first"] else [list(r) for r in zip(*case["mask"])]
            if flat and any(flat) and not all(flat) and case["N"] and case["T"] > 1:
                if all(r == sorted(r, reverse=True) for r in mb):
                    t.append("masked.already_compact")
                elif all(r == sorted(r) for r in mb):
                    t.append("masked.true_cells_last")
                if case["N"] >= 2 and len({sum(r) for r in mb}) == 1:
                    t.append("masked.same_count_every_row")
        if fn == "shift":
            t.append(f"shift.training={case['training']}")
            t.append("shift.draws=" + ("chosen" if case["draws"] is not None else "genuine"))
            if case.get("pre_modes"):
                t.append("shift.mode_toggled")
            if isinstance(impl, dict) and impl.get("rounding_tie"):
                t.append("shift.rounding_tie")
                t.append(f"shift.rounding_tie.{case['mode']}")
                if "exact_lens" in impl and impl.get("lens") != impl["exact_lens"]:
                    t.append("shift.rounding_tie.library_differs_from_exact_model")
            if case.get("stream") == "ties":
                t.append("shift.stream=ties")
            if isinstance(impl, dict) and impl.get("f32_lens") is not None \
                    and impl["f32_lens"] != impl.get("exact_lens"):
                t.append("shift.float32_would_differ")
        return sorted(set(t))

    def shrink_masked(self, case):
        """smaller pad_masked_sequence requests: plain options, fewer sequences, fewer time steps (halves
        first: the size stream reaches T > 1000), no trailing dims"""
        N, T, bf = case["N"], case["T"], case["batch_first"]
        for k in ("x_layout", "call", "value_kind", "parent_eval", "stream", "large", "append", "vclass"):
            if k in case:
                yield {q: v for q, v in case.items() if q != k}
        if case.get("mask_var") and not case["mask_var"].startswith("bcast"):
            yield {q: v for q, v in case.items() if q != "mask_var"}
        if case.get("entry") != "functional":
            yield dict(case, entry="functional")

        def cut(keep_n, keep_t):
            if bf:
                x = [[case["x"][n][t] for t in keep_t] for n in keep_n]
                m = [[case["mask"][n][t] for t in keep_t] for n in keep_n]
                outer = [len(keep_n), len(keep_t)]
            else:
                x = [[case["x"][t][n] for n in keep_n] for t in keep_t]
                m = [[case["mask"][t][n] for n in keep_n] for t in keep_t]
                outer = [len(keep_t), len(keep_n)]
            return dict(case, N=len(keep_n), T=len(keep_t), x=x, mask=m, outer_shape=outer)

        allN, allT = list(range(N)), list(range(T))
        if N > 3:
            yield cut(allN[:N // 2], allT)
            yield cut(allN[N // 2:], allT)
        if T > 3:
            yield cut(allN, allT[:T // 2])
            yield cut(allN, allT[T // 2:])
            yield cut(allN, allT[:T - T // 4])
            yield cut(allN, allT[T // 4:])
        if N > 1:
            for n in (allN if N <= 8 else allN[:4] + allN[-4:]):
                yield cut([m for m in allN if m != n], allT)
        if T > 1:
            for t in (allT if T <= 40 else allT[:20] + allT[-20:]):
                yield cut(allN, [u for u in allT if u != t])
        if case["trail"] and not case.get("x_layout"):
            if bf:
                x = [[[(fr + [(n * 1000 + t) % 2000 + 1])[0]] for t, fr in enumerate(row)] for n, row in enumerate(case["x"])]
            else:
                x = [[[(fr + [(n * 1000 + t) % 2000 + 1])[0]] for n, fr in enumerate(row)] for t, row in enumerate(case["x"])]
            yield dict(case, trail=[], x=x)
        if case.get("dtype") != "float32" and abs(value_frac(case)) <= 2048:   # a pad value float32 holds too
            yield dict(case, dtype="float32")

    def shrink(self, case):
        if case.get("malformed") or case["fn"] == "shapes":
            return
        if case["fn"] == "masked":
            yield from self.shrink_masked(case)
            return
        N, T = case["N"], case["T"]
        # large requests: halves first
        per = [k for k in ("lens", "pad0", "pad1", "slices") if isinstance(case.get(k), list)]
        if N > 4:
            for part in (slice(0, N // 2), slice(N // 2, N)):
                c = dict(case, N=len(case["x"][part]), x=case["x"][part])
                for k in per:
                    c[k] = case[k][part]
                if case.get("draws"):
                    c["draws"] = [row[part] for row in case["draws"]]
                yield c
        if T > 8:
            top = max(case.get("lens") or [T])
            T2 = top if top < T else T // 2
            if T2 >= 1:
                c = dict(case, T=T2, x=[row[:T2] for row in case["x"]])
                if case.get("lens"):
                    c["lens"] = [min(l, T2) for l in case["lens"]]
                    if case["mode"] == "reflect":
                        for k in ("pad0", "pad1"):
                            if k in case:
                                c[k] = [min(p, max(l - 1, 0)) for p, l in zip(case[k], c["lens"])]
                yield c
        for k in ("pad0", "pad1"):
            if k in case and max(case[k], default=0) > 8:
                c = dict(case)
                c[k] = [p // 2 for p in case[k]]
                yield c
        if "slices" in case and max((abs(v) for p in case["slices"] for v in p), default=0) > 16:
            yield dict(case, slices=[[int(a / 2), int(b / 2)] for a, b in case["slices"]])
        # the options that should not matter, back to plain
        for k in ("x_layout", "idx", "call", "value_kind", "pre_modes", "parent_eval", "stream", "large", "vclass"):
            if k in case:
                yield {q: v for q, v in case.items() if q != k}
        if case.get("entry") in ("module_parent", "util"):
            yield dict(case, entry="module" if case["entry"] == "module_parent" else "functional")
        if value_frac(case).denominator != 1:
            yield dict(case, value=7)
        per_row = [k for k in ("lens", "pad0", "pad1", "slices") if isinstance(case.get(k), list)]
        # drop one row
        for n in range(N):
            if N > 1:
                c = dict(case, N=N - 1, x=case["x"][:n] + case["x"][n + 1:])
                for k in per_row:
                    c[k] = case[k][:n] + case[k][n + 1:]
                if case.get("draws"):
                    c["draws"] = [row[:n] + row[n + 1:] for row in case["draws"]]
                yield c
        # no trailing dims
        if case["trail"]:
            yield dict({q: v for q, v in case.items() if q != "x_layout"}, trail=[],
                       x=[[[(fr + [(n * 10 + t) % 2000])[0]] for t, fr in enumerate(row)]
                          for n, row in enumerate(case["x"])])
        # drop the last time step
        if T > 1 and all(l < T for l in (case.get("lens") or [T])):
            yield dict(case, T=T - 1, x=[row[:-1] for row in case["x"]])
        for k in ("pad0", "pad1"):
            if k in case:
                for n in range(N):
                    if case[k][n] > 0:
                        c = dict(case)
                        c[k] = list(case[k])
                        c[k][n] -= 1
                        yield c
        if "slices" in case:
            for n in range(N):
                s, e = case["slices"][n]
                for s2, e2 in ((s + 1, e), (s, e - 1), (s - 1, e - 1), (0, 0)):
                    if (s2, e2) != (s, e) and abs(s2) + abs(e2) <= abs(s) + abs(e):
                        c = dict(case, slices=[list(p) for p in case["slices"]])
                        c["slices"][n] = [s2, e2]
                        yield c
        if case.get("lens"):
            for n in range(N):
                if case["lens"][n] > 1:
                    c = dict(case, lens=list(case["lens"]))
                    c["lens"][n] -= 1
                    if case["fn"] == "pad" and case["mode"] == "reflect":
                        continue
                    yield c
        if case.get("entry") == "module" and not case.get("pre_modes"):
            yield dict(case, entry="functional")
        if case.get("dtype") != "float32" and abs(value_frac(case)) <= 2048:   # a pad value float32 holds too
            yield dict(case, dtype="float32")


def _short(x, n=200):
    s = str(x)
    return s if len(s) <= n else s[:n] + "..."


CHECK = C09()
