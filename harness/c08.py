"""C08 — SpecAugment draws stay within bounds; masking touches only masked cells.

Correspondence: the real `spec_augment_draw_parameters` / `spec_augment_apply_parameters` /
`SpecAugment` / `warp_1d_grid` run in-process with `torch.rand` shadowed by a wrapper that
either *feeds* chosen uniform draws (including 0, 2^-24 and 1-2^-24) or *records* the draws a
genuine `torch.manual_seed` produces; the Lean model (exact rationals, draws as inputs) gets
the same draws.  Streams (counted in the evidence):

* exact      – dyadic proportions/warps/draws: every float32 operation of the draw arithmetic
               is checked to be exact (all intermediates float32-representable, the truncated
               products a margin away from an integer) and impl == model as rationals;
               mask-only application is compared cell by cell as rationals;
* tolerance  – anything inexact: continuous values (warp centre/shift, read positions, warped
               features) within a tolerance, truncated products only when the margin rule
               holds, otherwise counted as `tie` and left to the predicate;
* oracle     – large batches, default (0.04) and random proportions, warps beyond half the
               length, orders 1-3, genuine seeds: only the property predicate.

Input classes every stream is crossed with (improvement round): feature dtype
float32/float64/float16, feature memory layout (contiguous, transposed storage, strided slice
with gaps, batch slice with a storage offset, batch-expanded stride 0), lengths None / int64 /
int32, module called directly or through a parent module whose train()/eval() is toggled,
autograd mode (plain, under no_grad, features that require grad), an
enumerated grid "exactly one of the eight limits is 0, all others on" (+ all on / all off), an
enumerated edge-size grid (T = 1, F = 1, elements of length 1) for orders 1-3, and a stream of
*user-supplied* parameter tuples handed to apply_parameters (kind "params": knots on / beyond the
pinned ends, masks [0,len), [len,len), width 0, inside the padding, disabled steps as empty
tensors or None).  warp_1d_grid is called on batches (rows of different length) through the
functional and the Warp1DGrid module, with long and float lengths.
"""
import contextlib
import itertools
import math
from fractions import Fraction

from common.framework import PropertyCheck, frac_str

EPS32 = Fraction(1, 2 ** 23)
BIG = Fraction(2 ** 24 - 1, 2 ** 24)      # largest float32 torch.rand can return
TINY = Fraction(1, 2 ** 24)               # smallest non-zero one
NAMES = ("w0", "w", "v0", "v", "t", "t0", "f", "f0")
CFG_KEYS = ("max_time_warp", "max_freq_warp", "max_time_mask", "max_freq_mask",
            "max_time_mask_proportion", "num_time_mask", "num_time_mask_proportion", "num_freq_mask")
DEFAULT_CFG = {"max_time_warp": "80", "max_freq_warp": "0", "max_time_mask": 100, "max_freq_mask": 27,
               "max_time_mask_proportion": frac_str(0.04), "num_time_mask": 20,
               "num_time_mask_proportion": frac_str(0.04), "num_freq_mask": 2}
MARGIN_REL = Fraction(1, 2 ** 19)         # margin rule for truncated products
SIG_NEAR_END = "C08.warp.knot_near_pinned_end"


def F_(s):
    return Fraction(s)


def is_f32(fr):
    import numpy as np
    return Fraction(float(np.float32(float(fr)))) == fr


def t2frac(x):
    """tensor -> nested lists of exact 'n/d' strings."""
    if x.dim() == 0:
        return frac_str(float(x)) if x.is_floating_point() else int(x)
    return [t2frac(y) for y in x]


def expected_calls(cfg, N):
    """(name, shape) in the order the code draws."""
    out = []
    if F_(cfg["max_time_warp"]) != 0:
        out += [("w0", (N,)), ("w", (N,))]
    if F_(cfg["max_freq_warp"]) != 0:
        out += [("v0", (N,)), ("v", (N,))]
    if cfg["max_time_mask"] and F_(cfg["max_time_mask_proportion"]) != 0 and cfg["num_time_mask"] \
            and F_(cfg["num_time_mask_proportion"]) != 0:
        out += [("t", (N, cfg["num_time_mask"])), ("t0", (N, cfg["num_time_mask"]))]
    if cfg["max_freq_mask"] and cfg["num_freq_mask"]:
        out += [("f", (N, cfg["num_freq_mask"])), ("f0", (N, cfg["num_freq_mask"]))]
    return out


class RandPatch:
    """Shadow torch.rand: feed chosen values (dict name -> nested 'n/d' lists) or record."""

    def __init__(self, cfg, N, feed=None):
        self.expect = expected_calls(cfg, N)
        self.feed = feed
        self.got = {}
        self.shapes = []
        self.ok = True

    def __enter__(self):
        import torch
        self.torch = torch
        self.old = torch.rand
        torch.rand = self.fake
        return self

    def __exit__(self, *a):
        self.torch.rand = self.old

    def fake(self, *size, **kw):
        torch = self.torch
        if len(size) == 1 and not isinstance(size[0], int):
            size = tuple(size[0])
        size = tuple(int(s) for s in size)
        i = len(self.shapes)
        self.shapes.append(list(size))
        name = None
        if i < len(self.expect) and self.expect[i][1] == size:
            name = self.expect[i][0]
        else:
            self.ok = False
        if self.feed is not None and name is not None:
            vals = self.feed[name]
            t = torch.tensor([[float(F_(v)) for v in row] for row in vals] if len(size) == 2
                             else [float(F_(v)) for v in vals], dtype=torch.float32).reshape(size)
        else:
            t = self.old(*size, **kw)
        if name is not None:
            self.got[name] = t.clone()
        return t


def cfg_py(cfg):
    return {k: (float(F_(cfg[k])) if isinstance(cfg[k], str) else cfg[k]) for k in CFG_KEYS}


LAYOUTS = ("contig", "transposed", "strided", "batch_offset", "expanded")
GAP = 777.0     # what the gaps of a non-contiguous buffer hold: a wrong stride shows up at once


def embed(x, layout):
    """The same logical (N, T, F) tensor in another memory layout (a view of a larger buffer)."""
    import torch
    N, T, Fq = x.shape
    if layout == "contig":
        return x
    if layout == "transposed":      # storage order (N, F, T)
        return x.transpose(1, 2).contiguous().transpose(1, 2)
    if layout == "strided":         # every second frame / coefficient of a larger buffer, offset 1 in time
        buf = torch.full((N, 2 * T + 1, 2 * Fq + 1), GAP, dtype=x.dtype)
        v = buf[:, 1:2 * T:2, 0:2 * Fq:2]
        v.copy_(x)
        return v
    if layout == "batch_offset":    # rows 1..N of a larger batch, padded in time
        buf = torch.full((N + 2, T + 3, Fq), GAP, dtype=x.dtype)
        v = buf[1:N + 1, :T]
        v.copy_(x)
        return v
    if layout == "expanded":        # one element broadcast over the batch (stride 0)
        return x[:1].expand(N, T, Fq)
    raise ValueError(layout)


def make_feats(case):
    import random
    import torch
    N, T, Fq = case["N"], case["T"], case["F"]
    spec = case["feats"]
    dt = getattr(torch, case.get("dtype", "float32"))
    if spec["mode"] == "int":
        r = random.Random(spec["seed"])
        x = torch.tensor([[[r.randint(-8, 8) for _ in range(Fq)] for _ in range(T)] for _ in range(N)],
                         dtype=dt).reshape(N, T, Fq)
    elif spec["mode"] == "pos":     # strictly positive: zeros in the output can only come from masks
        r = random.Random(spec["seed"])
        x = torch.tensor([[[r.randint(1, 64) / 4 for _ in range(Fq)] for _ in range(T)] for _ in range(N)],
                         dtype=dt).reshape(N, T, Fq)
    else:
        g = torch.Generator().manual_seed(spec["seed"])
        x = torch.randn(N, T, Fq, generator=g).to(dt)
    return embed(x, case.get("layout", "contig"))


def grad_mode(case, x):
    """Context for the calls: plain, under torch.no_grad(), or with features that require grad."""
    import torch
    g = case.get("grad", "plain")
    if g == "requires_grad":
        x.requires_grad_()
    return torch.no_grad() if g == "no_grad" else contextlib.nullcontext()


def make_lens(case):
    import torch
    if case["lens"] is None:
        return None
    return torch.tensor(case["lens"], dtype=getattr(torch, case.get("lens_dtype", "int64")))


def run_history_step(mod, step):
    """One earlier use of the SAME module object (its result is not judged; an exception on these in-domain
    batches is reported like one of the judged call).  Genuine torch.rand draws, seeded."""
    import torch
    torch.manual_seed(step["seed"])
    x = make_feats({"N": step["N"], "T": step["T"], "F": step["F"], "dtype": step["dtype"],
                    "feats": {"mode": "randn", "seed": step["seed"]}})
    lens = None if step["lens"] is None else torch.tensor(step["lens"])
    if step["op"] == "draw_apply":
        out = mod.apply_parameters(x, mod.draw_parameters(x, lens), lens)
    else:
        mod.train(step["training"])
        try:
            out = mod(x, lens)
        finally:
            mod.train(True)
    if tuple(out.shape) != tuple(x.shape):
        raise RuntimeError(f"earlier call on the same module: output shape {tuple(out.shape)} != {tuple(x.shape)}")


class Api:
    def __init__(self, case):
        import torch
        self.torch = torch
        self.case = case
        self.cfg = cfg_py(case["cfg"])
        self.order = case["order"]
        if case["api"] == "module":
            from pydrobert.torch.modules import SpecAugment
            self.mod = SpecAugment(interpolation_order=self.order, **self.cfg)
            # module life cycle: the object has already served other batches before the judged call
            for step in case.get("history") or []:
                run_history_step(self.mod, step)
        else:
            self.mod = None
            import pydrobert.torch.functional as Fn
            self.Fn = Fn

    def draw(self, x, lens):
        if self.mod is not None:
            return self.mod.draw_parameters(x, lens)
        return self.Fn.spec_augment_draw_parameters(x, *[self.cfg[k] for k in CFG_KEYS], lens)

    def apply(self, x, params, lens):
        if self.mod is not None:
            return self.mod.apply_parameters(x, params, lens)
        return self.Fn.spec_augment_apply_parameters(x, params, self.order, lens)

    def forward(self, x, lens, training):
        if self.mod is not None:
            if self.case.get("entry", "direct") == "parent":
                # the way a user's model does it: SpecAugment is a sub-module and the mode is set on the parent
                torch = self.torch

                class Parent(torch.nn.Module):
                    def __init__(self, sa):
                        super().__init__()
                        self.front = torch.nn.Identity()
                        self.sa = sa

                    def forward(self, x, lens):
                        return self.sa(self.front(x), lens)
                top = Parent(self.mod)
                try:
                    top.train() if training else top.eval()
                    return top(x, lens)
                finally:
                    self.mod.train(True)
            self.mod.train(training)
            try:
                return self.mod(x, lens)
            finally:
                self.mod.train(True)
        return self.Fn.spec_augment(x, *[self.cfg[k] for k in CFG_KEYS], self.order, lens, training)


def bit_equal(a, b):
    """Same shape, dtype and bit pattern (NaN-safe, distinguishes -0.0)."""
    import torch
    a, b = a.detach(), b.detach()
    if a.shape != b.shape or a.dtype != b.dtype:
        return False
    it = {torch.float32: torch.int32, torch.float64: torch.int64, torch.float16: torch.int16}[a.dtype]
    return bool((a.contiguous().view(it) == b.contiguous().view(it)).all())


def band(starts, widths, size):
    import torch
    ar = torch.arange(size).unsqueeze(0)
    if starts.numel() == 0 or widths.numel() == 0:
        return torch.zeros(size, dtype=torch.bool)
    return ((ar >= starts.unsqueeze(1)) & (ar < (starts + widths).unsqueeze(1))).any(0)


ALL_ON = {"max_time_warp": "2", "max_freq_warp": "1", "max_time_mask": 3, "max_freq_mask": 2,
          "max_time_mask_proportion": "1/2", "num_time_mask": 2, "num_time_mask_proportion": "1/2",
          "num_freq_mask": 2}
EDGE_SHAPES = [(1, 1, [1]), (1, 1, [1, 1]), (2, 1, [1, 2]), (3, 1, [1, 3, 2]), (1, 3, [1]), (5, 1, [1, 5]),
               (4, 2, [1, 1, 4]), (12, 5, [1, 12, 1]), (6, 1, None)]
# what float16 adds to the tolerances (bilinear weights, the grid and the ramp are rounded to 11 bits)
DT_POS = {"float32": 0.0, "float64": 0.0, "float16": 0.03}
DT_REL = {"float32": 1e-5, "float64": 1e-5, "float16": 2.0 ** -7}
DT_EPS = {"float32": EPS32, "float64": Fraction(1, 2 ** 52), "float16": Fraction(1, 2 ** 10)}
DT_RANGE = {"float32": Fraction(1, 2 ** 18), "float64": Fraction(1, 2 ** 18), "float16": Fraction(1, 2 ** 8)}


def f32(fr):
    """Round a rational to the nearest float32 (so that case, implementation and model see the same number)."""
    import numpy as np
    return Fraction(float(np.float32(float(fr))))


class C08(PropertyCheck):
    pid = "C08"
    rule = ("one case = one SpecAugment call on a batch (N<=3 small / N<=6 large), one apply_parameters call on "
            "user-supplied parameters, or one warp_1d_grid call on a batch of rows; "
            "configurations from the grid of zero/non-zero limits (random + the enumerated 'exactly one limit 0'), "
            "proportions {0,1/8,1/4,1/2,1,0.04,random}, warps up to beyond half the length, orders 1-3, "
            "T, F and lengths down to 1, dtypes float32/64/16, five memory layouts, lengths None/int64/int32, "
            "module direct or through a parent, fresh or after 1-3 earlier calls on the same object (same/other N, "
            "fewer/more frames, other F/dtype, lengths omitted/given, eval/train, forward or draw+apply); uniform draws injected through a shadowed torch.rand "
            "(0, 2^-24, odd/16, k/8, 1-2^-24) or recorded from genuine torch.manual_seed runs. "
            "non-trivial: >= 1 mask of width > 0 or a non-zero warp; distinct by the whole case")
    assumptions = [
        "torch.rand shadowed in-process (feeds chosen float32 draws or records genuine ones); the model "
        "receives exactly those draws as rationals",
        "float32 rounding is not modelled: discrete outcomes are compared only when the margin rule holds, "
        "continuous ones exactly when every intermediate is float32-representable and with a tolerance otherwise "
        "(float16 features: a wider tolerance)",
        "grid_sample(bilinear, border, align_corners=False) and the order>=2 spline solve are torch "
        "primitives; order 2 is checked by the predicate only, order 3 additionally against the exact cubic "
        "spline of the model where the float32 solve is well conditioned (knot >= 1 frame from the ends, T <= 40)",
    ]
    quick_budget_s = 150
    thorough_budget_s = 1200

    def __init__(self):
        self._stash = {}
        self.streams = {"cases_exact": 0, "cases_tolerance": 0, "cases_with_tie": 0, "cases_oracle": 0,
                        "mask_exact": 0, "mask_tie": 0, "warp_exact": 0, "warp_tolerance": 0,
                        "apply_exact": 0, "apply_tolerance": 0, "grid_tolerance": 0,
                        "params_cases": 0, "grid_frames": 0, "grid3_tolerance": 0, "grid3_illconditioned": 0}

    # ------------------------------------------------------------------ generators
    def _draws(self, rng, cfg, N, style):
        pool_ext = [Fraction(0), TINY, BIG]
        pool_mid = [Fraction(2 * k + 1, 16) for k in range(8)] + [Fraction(k, 8) for k in range(8)]

        def one():
            if style == "extreme":
                return rng.choice(pool_ext)
            if style == "dyadic":
                return rng.choice(pool_mid if rng.random() < 0.8 else pool_ext)
            return Fraction(rng.randrange(2 ** 24), 2 ** 24)
        u = {}
        for name, shape in expected_calls(cfg, N):
            if len(shape) == 1:
                u[name] = [frac_str(one()) for _ in range(N)]
            else:
                u[name] = [[frac_str(one()) for _ in range(shape[1])] for _ in range(N)]
        return u

    def _small_cfg(self, rng, T, Fq, dyadic=True):
        props = ["0", "1/8", "1/4", "1/2", "1"] if dyadic else \
            [frac_str(0.04), frac_str(0.04), frac_str(round(rng.random(), 3)), frac_str(rng.random()), "1"]
        warps = ["0", "1/2", "1", "2", "3", "5", "80"] if dyadic else \
            ["0", "80", frac_str(rng.random() * T), frac_str(0.3), frac_str(float(T))]
        return {"max_time_warp": rng.choice(warps), "max_freq_warp": rng.choice(["0", "0"] + warps[1:]),
                "max_time_mask": rng.choice([0, 1, 2, 5, 100]), "max_freq_mask": rng.choice([0, 1, 2, 27]),
                "max_time_mask_proportion": rng.choice(props), "num_time_mask": rng.choice([0, 1, 2, 3]),
                "num_time_mask_proportion": rng.choice(props), "num_freq_mask": rng.choice([0, 1, 2])}

    def _lens(self, rng, N, T, allow_none=True):
        if allow_none and rng.random() < 0.15:
            return None
        lens = [rng.randint(1, T) for _ in range(N)]
        if rng.random() < 0.5:
            lens[0] = T
        if rng.random() < 0.2:
            lens[rng.randrange(N)] = 1
        return lens

    def _history(self, rng, N, T, Fq, same_n=0.75, omit=0.55):
        """Earlier uses of the same module object: 1-3 calls on batches with the same or another N, fewer / more /
        as many frames and coefficients, lengths omitted or given, other dtypes, training or evaluation mode,
        through forward or through draw_parameters + apply_parameters."""
        steps = []
        for _ in range(rng.choice([1, 1, 2, 3])):
            n = N if rng.random() < same_n else rng.randint(1, 4)
            t = rng.choice([rng.randint(1, T), T + rng.randint(1, 8), T + rng.randint(1, 8), T, 1])
            f = Fq if rng.random() < 0.5 else rng.randint(1, 6)
            r = rng.random()
            steps.append({"N": n, "T": t, "F": f, "lens": None if rng.random() < omit else self._lens(rng, n, t, False),
                          "dtype": "float32" if r < 0.7 else "float64" if r < 0.88 or t > 40 else "float16",
                          "training": rng.random() < 0.8, "op": "forward" if rng.random() < 0.8 else "draw_apply",
                          "seed": rng.randrange(1 << 30)})
        return steps

    def _vary(self, rng, c, half_ok=True):
        """Cross a case with the input classes that do not change what is specified: dtype, memory
        layout, dtype of the lengths, how the module is entered, the autograd mode."""
        r = rng.random()
        c["dtype"] = "float32" if r < 0.64 else "float64" if r < 0.82 or not half_ok else "float16"
        c["layout"] = rng.choice(LAYOUTS[1:]) if rng.random() < 0.45 else "contig"
        c["lens_dtype"] = "int32" if rng.random() < 0.2 else "int64"
        c["entry"] = "parent" if c.get("api") == "module" and rng.random() < 0.45 else "direct"
        r = rng.random()
        c["grad"] = "plain" if r < 0.7 else "no_grad" if r < 0.85 else "requires_grad"
        # module life cycle: the judged call is not the first use of the object
        if c.get("api") == "module" and rng.random() < 0.35:
            c["history"] = self._history(rng, c["N"], c["T"], c["F"])
            if c.get("kind") == "sa" and rng.random() < 0.4:
                c["lens"] = None
        return c

    def cases(self, rng, tier):
        n_small = {"quick": 260, "thorough": 2600, "search": 5000}[tier]
        n_big = {"quick": 50, "thorough": 500, "search": 800}[tier]
        n_grid = {"quick": 140, "thorough": 1400, "search": 2000}[tier]
        n_params = {"quick": 160, "thorough": 1600, "search": 2500}[tier]
        reps = {"quick": 1, "thorough": 6, "search": 6}[tier]
        # -- hand-picked edge cases -------------------------------------------------------
        for T, ln in [(1, 1), (2, 1), (2, 2), (3, 3), (5, 4), (7, 7)]:
            for style in ("extreme", "dyadic"):
                cfg = {"max_time_warp": "80", "max_freq_warp": "1", "max_time_mask": 2, "max_freq_mask": 2,
                       "max_time_mask_proportion": "1", "num_time_mask": 2, "num_time_mask_proportion": "1",
                       "num_freq_mask": 1}
                yield self._sa(rng, 1, T, 3, [ln], cfg, 1, {"mode": "inject", "u": self._draws(rng, cfg, 1, style)},
                               "pos", "functional")
        # -- enumerated mask arithmetic: every (len, prop, count-prop) cell with extreme draws ------
        lens_grid = [1, 2, 3, 5, 8] if tier == "quick" else list(range(1, 17))
        for ln, p, q, mtm in itertools.product(lens_grid, ["1/8", "1/4", "1/2", "1"], ["1/8", "1/2", "1"], [1, 3]):
            cfg = {"max_time_warp": "0", "max_freq_warp": "0", "max_time_mask": mtm, "max_freq_mask": 2,
                   "max_time_mask_proportion": p, "num_time_mask": 2, "num_time_mask_proportion": q,
                   "num_freq_mask": 1}
            yield self._sa(rng, 1, ln, 2, [ln], cfg, 1,
                           {"mode": "inject", "u": self._draws(rng, cfg, 1, rng.choice(["extreme", "dyadic"]))},
                           "pos", rng.choice(["module", "functional"]))
        # -- enumerated: exactly one of the eight limits is 0, all the others on (+ all on, all off) ------
        for _ in range(reps):
            for zero in [None, "all"] + list(CFG_KEYS):
                cfg = dict(ALL_ON)
                for k in (CFG_KEYS if zero == "all" else [zero] if zero else []):
                    cfg[k] = "0" if isinstance(ALL_ON[k], str) else 0
                for style, api in itertools.product(("extreme", "dyadic"), ("module", "functional")):
                    lens = rng.choice([[8, 5], [8, 1], None, [3, 8]])
                    c = self._sa(rng, 2, 8, 4, lens, cfg, 1,
                                 {"mode": "inject", "u": self._draws(rng, cfg, 2, style)}, "pos", api)
                    yield self._vary(rng, c)
                c = self._sa(rng, 2, 8, 4, [8, 6], cfg, rng.choice([2, 3]),
                             {"mode": "seed", "seed": rng.randrange(1 << 30)}, "randn", rng.choice(["module", "functional"]))
                yield self._vary(rng, c)
        # -- enumerated edge sizes: T = 1, F = 1, elements of length 1; every order ----------------------
        for _ in range(reps):
            for (T, Fq, lens), mtw, order in itertools.product(EDGE_SHAPES, ("80", "1/2"), (1, 2, 3)):
                N = 1 if lens is None else len(lens)
                cfg = {"max_time_warp": mtw, "max_freq_warp": rng.choice(["1", "1/2", "80"]), "max_time_mask": 2,
                       "max_freq_mask": rng.choice([1, 27]), "max_time_mask_proportion": "1", "num_time_mask": 2,
                       "num_time_mask_proportion": "1", "num_freq_mask": 1}
                r = rng.random()
                draw = {"mode": "seed", "seed": rng.randrange(1 << 30)} if r < 0.3 else \
                    {"mode": "inject", "u": self._draws(rng, cfg, N, "extreme" if r < 0.65 else "dyadic")}
                c = self._sa(rng, N, T, Fq, lens, cfg, order, draw, rng.choice(["pos", "randn"]),
                             rng.choice(["module", "functional"]))
                yield self._vary(rng, c)
        # -- small batches: exact / tolerance streams -------------------------------------------------
        for i in range(n_small):
            N, T, Fq = rng.randint(1, 3), rng.randint(1, 12), rng.randint(1, 5)
            dy = rng.random() < 0.6
            cfg = self._small_cfg(rng, T, Fq, dy)
            order = 1 if rng.random() < 0.7 else rng.choice([2, 3])
            r = rng.random()
            if r < 0.55:
                draw = {"mode": "inject", "u": self._draws(rng, cfg, N, "dyadic" if dy else "random")}
            elif r < 0.7:
                draw = {"mode": "inject", "u": self._draws(rng, cfg, N, "extreme")}
            else:
                draw = {"mode": "seed", "seed": rng.randrange(1 << 30)}
            c = self._sa(rng, N, T, Fq, self._lens(rng, N, T), cfg, order, draw,
                         rng.choice(["int", "pos", "randn"]), rng.choice(["module", "functional"]))
            yield self._vary(rng, c)
        # -- module life cycle: ONE object, several batches (same N, other T / F / dtype, lengths omitted or
        #    given, evaluation calls in between); the last call is judged like a call on a fresh object ----------
        for i in range({"quick": 70, "thorough": 700, "search": 1200}[tier]):
            N, T, Fq = rng.randint(1, 3), rng.randint(1, 12), rng.randint(1, 5)
            cfg = self._small_cfg(rng, T, Fq, True)
            if rng.random() < 0.6:      # masks that can reach the last valid frame
                cfg.update({"max_time_mask": rng.choice([2, 5, 100]), "max_time_mask_proportion": "1",
                            "num_time_mask": rng.choice([1, 2, 3]), "num_time_mask_proportion": "1"})
            r = rng.random()
            draw = {"mode": "inject", "u": self._draws(rng, cfg, N, "extreme" if r < 0.3 else "dyadic")} if r < 0.6 \
                else {"mode": "seed", "seed": rng.randrange(1 << 30)}
            lens = None if rng.random() < 0.6 else self._lens(rng, N, T, False)
            c = self._sa(rng, N, T, Fq, lens, cfg, 1 if rng.random() < 0.8 else rng.choice([2, 3]), draw,
                         rng.choice(["pos", "randn"]), "module")
            c = self._vary(rng, c)
            c["history"] = self._history(rng, N, T, Fq, same_n=0.9, omit=0.7)
            yield c
        # -- user-supplied parameters handed to apply_parameters ------------------------------------------
        for i in range(n_params):
            yield self._params_case(rng)
        # -- large batches: oracle-only stream -----------------------------------------------------------
        for i in range(n_big):
            T = rng.choice([20, 50, 100, 150, 300] if tier == "quick" else [20, 50, 100, 150, 300, 600, 1000])
            N, Fq = rng.randint(2, 6), rng.choice([1, 3, 8])
            if rng.random() < 0.5:
                cfg = dict(DEFAULT_CFG)
            else:
                cfg = self._small_cfg(rng, T, Fq, False)
                cfg["max_time_warp"] = rng.choice(["80", "5", frac_str(float(T)), frac_str(T / 2), "80"])
            order = rng.choice([1, 1, 1, 2, 3])
            lens = [rng.randint(max(1, T // 8), T) for _ in range(N)]
            if rng.random() < 0.15:
                lens[rng.randrange(N)] = 1
            r = rng.random()
            if r < 0.7:
                draw = {"mode": "seed", "seed": rng.randrange(1 << 30)}
            else:
                draw = {"mode": "inject", "u": self._draws(rng, cfg, N, "extreme" if r < 0.85 else "random")}
            c = self._sa(rng, N, T, Fq, lens, cfg, order, draw, "randn", rng.choice(["module", "functional"]))
            c["big"] = True
            yield self._vary(rng, c, half_ok=False)
        # -- warp_1d_grid directly (batches of rows) -------------------------------------------------------
        for i in range(n_grid):
            T = rng.choice([1, 2, 3, 5, 8, 13, 40]) if rng.random() < 0.8 else rng.choice([100, 400])
            r = rng.random()
            order = 1 if r < 0.62 else 3 if r < 0.85 else 2
            if order == 3 and rng.random() < 0.75:
                # the class on which the exact cubic spline is comparable: the moved knot >= 1 frame inside
                T = rng.choice([3, 5, 8, 13, 20, 40])
                rows = [self._grid_row(rng, T, inside=True) for _ in range(rng.choice([1, 2, 3]))]
            else:
                rows = [self._grid_row(rng, T) for _ in range(rng.choice([1, 1, 2, 3]))]
            c = dict(rows[0])
            c.update({"kind": "grid", "T": T, "order": order,
                      "max_length": rng.random() < 0.8, "api": rng.choice(["functional", "module"]),
                      "lens_float": rng.random() < 0.3})
            if len(rows) > 1:
                c["more"] = rows[1:]
            yield c
        # -- malformed ---------------------------------------------------------------------------------------
        for bad in ("len_zero", "len_big", "lens_shape", "feats_dim", "lens_batch"):
            for api in ("module", "functional"):
                yield {"kind": "malformed", "bad": bad, "api": api}

    def _grid_row(self, rng, T, inside=False):
        ln = rng.randint(1, T) if rng.random() < 0.85 else rng.choice([1, T])
        r = rng.random()
        q = 4 if rng.random() < 0.7 else 1024
        if inside:
            ln = rng.randint(3, T)
            src = Fraction(rng.randint(-q, (ln + 1) * q), q)
            d = Fraction(rng.randint(q, (ln - 2) * q), q)
            return {"len": ln, "src": frac_str(src), "flow": frac_str(d - min(max(src, Fraction(0)), Fraction(ln - 1)))}
        src = Fraction(rng.randint(-q, (ln + 1) * q), q)
        if r < 0.3:      # destination on / next to a pinned end
            d = rng.choice([Fraction(0), Fraction(ln - 1), Fraction(1, 1 << rng.randint(3, 20)),
                            Fraction(ln - 1) - Fraction(1, 1 << rng.randint(3, 20)), Fraction(ln)])
            flow = d - min(max(src, Fraction(0)), Fraction(ln - 1))
        else:
            flow = Fraction(rng.randint(-(ln + 1) * q, (ln + 1) * q), q)
        return {"len": ln, "src": frac_str(src), "flow": frac_str(flow)}

    def _sa(self, rng, N, T, Fq, lens, cfg, order, draw, feats_mode, api):
        return {"kind": "sa", "N": N, "T": T, "F": Fq, "lens": lens, "cfg": cfg, "order": order, "draw": draw,
                "feats": {"mode": feats_mode, "seed": rng.randrange(1 << 30)}, "api": api, "big": False}

    # ---- user-supplied parameters at the legal extremes
    @staticmethod
    def _warp_extreme(rng, size):
        """(src, flow) with the knot / its destination on, next to or beyond the pinned ends."""
        last = Fraction(size - 1)
        tiny = Fraction(1, 1 << rng.randint(3, 20))
        src = rng.choice([Fraction(0), last, last / 2, Fraction(size, 2), Fraction(1, 4), last - Fraction(1, 4),
                          Fraction(-1), Fraction(size + 1), tiny, last - tiny,
                          Fraction(rng.randint(0, 4 * size), 4)])
        cs = min(max(src, Fraction(0)), last)
        dst = rng.choice([Fraction(0), last, tiny, last - tiny, Fraction(size), Fraction(-1), last / 2, cs,
                          Fraction(rng.randint(0, 4 * size), 4), Fraction(rng.randint(-4, 4 * size + 4), 4)])
        src = f32(src)
        flow = f32(dst - f32(min(max(src, Fraction(0)), last)))
        return [frac_str(src), frac_str(flow)]

    @staticmethod
    def _mask_extreme(rng, size, full):
        """(start, width): the whole axis, empty at either end, the last cell, inside, and - for the time
        axis of a padded element - bands inside / across the padding."""
        opts = [(0, size), (size, 0), (size - 1, 1), (0, 0), (0, 1), (0, max(size - 1, 0))]
        a = rng.randint(0, size)
        opts += [(a, rng.randint(0, size - a))] * 3
        if full > size:
            opts += [(size, full - size), (size - 1, 2), (rng.randint(0, size), full)]
        # audit round: the model's masks are signed integers compared exactly as the code compares them
        # (arange >= start & arange < start + width); a band that starts before the axis covers only its
        # part inside it, a negative width covers nothing - never drawn, but accepted by apply_parameters
        opts += [(-1, 2), (-2, 1), (rng.randint(0, size), -1), (-1, full + 2)]
        s, w = rng.choice(opts)
        return [s, w]

    def _params_case(self, rng):
        N, T, Fq = rng.randint(1, 3), rng.choice([1, 2, 3, 5, 8, 12]), rng.choice([1, 2, 3, 5])
        lens = self._lens(rng, N, T)
        eff = lens or [T] * N
        has_tw, has_fw = rng.random() < 0.5, rng.random() < 0.35
        MT, MF = rng.choice([0, 1, 2, 3]), rng.choice([0, 1, 2])
        elems = []
        for n in range(N):
            elems.append({"warp_t": self._warp_extreme(rng, eff[n]) if has_tw else None,
                          "warp_f": self._warp_extreme(rng, Fq) if has_fw else None,
                          "tmasks": [self._mask_extreme(rng, eff[n], T) for _ in range(MT)],
                          "fmasks": [self._mask_extreme(rng, Fq, Fq) for _ in range(MF)]})
        c = {"kind": "params", "N": N, "T": T, "F": Fq, "lens": lens, "elems": elems,
             "order": 1 if rng.random() < 0.75 else rng.choice([2, 3]),
             "absent": rng.choice(["empty", "none"]), "api": rng.choice(["module", "functional"]),
             "feats": {"mode": rng.choice(["int", "pos", "randn"]), "seed": rng.randrange(1 << 30)}}
        # audit round: only one half of a warp pair supplied (centre without shift or shift without centre).
        # The code warps only if BOTH are present; the model's Option pair cannot express a half pair, so the
        # expected behaviour is "that warp is off" (the observation reports warp_t/warp_f = None).
        if (has_tw or has_fw) and rng.random() < 0.12:
            c["half"] = rng.choice([k + ":" + h for k in (["warp_t"] if has_tw else []) + (["warp_f"] if has_fw else [])
                                    for h in ("centre_only", "shift_only")])
        return self._vary(rng, c)

    # ------------------------------------------------------------------ implementation
    def run_impl(self, case):
        return getattr(self, "_impl_" + case["kind"])(case)

    def _impl_malformed(self, case):
        import torch
        x = torch.zeros(2, 4, 3)
        lens = torch.tensor([4, 2])
        bad = case["bad"]
        if bad == "len_zero":
            lens = torch.tensor([4, 0])
        elif bad == "len_big":
            lens = torch.tensor([5, 2])
        elif bad == "lens_shape":
            lens = torch.tensor([[4, 2]])
        elif bad == "lens_batch":
            lens = torch.tensor([4, 2, 1])
        elif bad == "feats_dim":
            x = torch.zeros(4, 3)
        api = Api({"cfg": DEFAULT_CFG, "order": 1, "api": case["api"]})
        res = {}
        for name, fn in (("draw", lambda: api.draw(x, lens)),
                         ("apply", lambda: api.apply(x, tuple(torch.empty(0) for _ in range(8)), lens)),
                         ("forward", lambda: api.forward(x, lens, True))):
            try:
                fn()
                res[name] = "ok"
            except RuntimeError:
                res[name] = "RuntimeError"
            except Exception as e:  # noqa
                res[name] = type(e).__name__
        return res

    @staticmethod
    def _grid_rows(case):
        return [{"len": case["len"], "src": case["src"], "flow": case["flow"]}] + list(case.get("more", []))

    @classmethod
    def _grid_T(cls, case):
        return case["T"] if case["max_length"] else max(r["len"] for r in cls._grid_rows(case))

    def _impl_grid(self, case):
        import torch
        rows = self._grid_rows(case)
        Tg = self._grid_T(case)
        src = torch.tensor([float(F_(r["src"])) for r in rows])
        flow = torch.tensor([float(F_(r["flow"])) for r in rows])
        lens = torch.tensor([r["len"] for r in rows])
        if case.get("lens_float"):
            lens = lens.float()
        ml = case["T"] if case["max_length"] else None
        if case.get("api", "functional") == "module":
            from pydrobert.torch.modules import Warp1DGrid
            g = Warp1DGrid(ml, case["order"])(src, flow, lens)
        else:
            import pydrobert.torch.functional as Fn
            g = Fn.warp_1d_grid(src, flow, lens, ml, case["order"])
        pos = ((g.double() + 1) * Tg - 1) / 2
        return {"shape": list(g.shape), "Tg": Tg, "finite": [bool(torch.isfinite(r).all()) for r in g],
                "dtype": str(g.dtype).replace("torch.", ""),
                "pos": [[float(v) for v in r] for r in pos]}

    def _observe(self, case, api, x, lens, eff, params, out):
        """Per batch element: what `apply_parameters` did, in the terms of the property."""
        import torch
        N, T, Fq = case["N"], case["T"], case["F"]
        empty = torch.empty(0)

        def on(p):
            return p is not None and p.numel() > 0
        w0, w, v0, v, t0, t, f0, f = params
        xd, out = x.detach(), out.detach()
        has_tw, has_fw = on(w0) and on(w), on(v0) and on(v)
        has_tm, has_fm = on(t0) and on(t), on(f0) and on(f)
        warp_only = (w0, w, v0, v, empty, empty, empty, empty)
        base = api.apply(x, warp_only, lens).detach() if (has_tw or has_fw) else xd
        tpos = fpos = None
        if has_tw:
            ramp = torch.arange(T, dtype=x.dtype).view(1, T, 1).expand(N, T, Fq).contiguous()
            tpos = api.apply(ramp, (w0, w, empty, empty, empty, empty, empty, empty), lens)[:, :, 0]
        if has_fw:
            ramp = torch.arange(Fq, dtype=x.dtype).view(1, 1, Fq).expand(N, T, Fq).contiguous()
            fpos = api.apply(ramp, (empty, empty, v0, v, empty, empty, empty, empty), lens)[:, 0, :]
        elems = []
        shape_ok = list(out.shape) == [N, T, Fq] and list(base.shape) == [N, T, Fq]
        for n in range(N if shape_ok else 0):
            tm = band(t0[n], t[n], T) if has_tm else torch.zeros(T, dtype=torch.bool)
            fm = band(f0[n], f[n], Fq) if has_fm else torch.zeros(Fq, dtype=torch.bool)
            m = tm.unsqueeze(1) | fm.unsqueeze(0)
            o, bn = out[n], base[n]
            expect = torch.where(m, torch.zeros_like(bn), bn)
            fin = bool(torch.isfinite(o).all())
            e = {"len": eff[n],
                 "params": {"warp_t": [frac_str(float(w0[n])), frac_str(float(w[n]))] if has_tw else None,
                            "warp_f": [frac_str(float(v0[n])), frac_str(float(v[n]))] if has_fw else None,
                            "tmasks": [[int(a), int(b)] for a, b in zip(t0[n], t[n])] if has_tm else [],
                            "fmasks": [[int(a), int(b)] for a, b in zip(f0[n], f[n])] if has_fm else []},
                 "masked_zero": bool((o[m] == 0).all()),
                 "unmasked_same": bit_equal(torch.where(m, torch.zeros_like(o), o), expect),
                 "n_masked": int(m.sum()),
                 "finite": fin,
                 "in_lo": frac_str(float(xd[n].min())), "in_hi": frac_str(float(xd[n].max())),
                 "out_lo": frac_str(float(o.min())) if fin else "nan",
                 "out_hi": frac_str(float(o.max())) if fin else "nan",
                 "tpos": [float(p) for p in tpos[n]] if tpos is not None else None,
                 "fpos": [float(p) for p in fpos[n]] if fpos is not None else None}
            if not case.get("big"):
                e["out"] = t2frac(o)
                e["feats"] = t2frac(xd[n])
            elems.append(e)
        return elems

    def _impl_sa(self, case):
        import torch
        N, T = case["N"], case["T"]
        x = make_feats(case)
        x_before = x.clone()
        lens_l = case["lens"]
        lens = make_lens(case)
        eff = [T] * N if lens_l is None else lens_l
        api = Api(case)
        feed = case["draw"]["u"] if case["draw"]["mode"] == "inject" else None

        def seeded():
            if feed is None:
                torch.manual_seed(case["draw"]["seed"])
            return RandPatch(case["cfg"], N, feed)
        with grad_mode(case, x):
            with seeded() as rp:
                params = api.draw(x, lens)
            u = {k: t2frac(v) for k, v in rp.got.items()}
            out = api.apply(x, params, lens)
            with seeded():
                fwd = api.forward(x, lens, True)
            with seeded():
                ev = api.forward(x, lens, False)
            with seeded():      # training again after evaluation: the mode switch must not stick
                fwd2 = api.forward(x, lens, True)
            elems = self._observe(case, api, x, lens, eff, params, out)
        obs = {"rand_ok": rp.ok, "rand_shapes": rp.shapes,
               "shapes": {n: list(p.shape) for n, p in zip(("w_0", "w", "v_0", "v", "t_0", "t", "f_0", "f"), params)},
               "out_shape": list(out.shape), "out_dtype": str(out.dtype).replace("torch.", ""),
               "forward_same": bit_equal(fwd, out), "retrain_same": bit_equal(fwd2, out),
               "eval_same": bit_equal(ev, x), "u": u, "elems": elems,
               "input_unchanged": bit_equal(x, x_before)}
        self._stash[self.key(case)] = obs
        return obs

    def _impl_params(self, case):
        import torch
        N, T = case["N"], case["T"]
        x = make_feats(case)
        x_before = x.clone()
        lens = make_lens(case)
        eff = [T] * N if case["lens"] is None else case["lens"]
        api = Api({"cfg": DEFAULT_CFG, "order": case["order"], "api": case["api"], "history": case.get("history")})
        absent = None if case["absent"] == "none" else torch.empty(0)
        el = case["elems"]

        half = case.get("half")

        def warp(key, i):
            if el[0][key] is None:
                return absent
            if half in (key + ":centre_only", key + ":shift_only") and i == (1 if half.endswith("centre_only") else 0):
                return absent
            return torch.tensor([float(F_(e[key][i])) for e in el], dtype=torch.float32)

        def masks(key, i):
            if not el[0][key]:
                return absent
            return torch.tensor([[m[i] for m in e[key]] for e in el], dtype=torch.long)
        params = (warp("warp_t", 0), warp("warp_t", 1), warp("warp_f", 0), warp("warp_f", 1),
                  masks("tmasks", 0), masks("tmasks", 1), masks("fmasks", 0), masks("fmasks", 1))
        with grad_mode(case, x):
            out = api.apply(x, params, lens)
            again = api.apply(x, params, lens)
            elems = self._observe(case, api, x, lens, eff, params, out)
        obs = {"out_shape": list(out.shape), "out_dtype": str(out.dtype).replace("torch.", ""),
               "deterministic": bit_equal(out, again), "elems": elems,
               "input_unchanged": bit_equal(x, x_before)}
        self._stash[self.key(case)] = obs
        return obs

    # ------------------------------------------------------------------ model
    @staticmethod
    def _no_warp(e):
        return e["params"]["warp_t"] is None and e["params"]["warp_f"] is None

    def model_request(self, case):
        if case["kind"] == "malformed":
            return None
        if case["kind"] == "grid":
            if case["order"] == 2:      # r^2 log r: not rational, no executable model
                return None
            return {"op": "c08.grid", "case": {"T": self._grid_T(case), "eps": frac_str(EPS32),
                                               "order": case["order"], "rows": self._grid_rows(case)}}
        obs = self._stash.pop(self.key(case), None)
        if obs is None:
            return None
        if case["kind"] == "params":
            if len(obs["elems"]) != case["N"] or not (case["order"] == 1 or all(self._no_warp(e) for e in obs["elems"])):
                return None
            return {"op": "c08.apply", "case": {
                "T": case["T"], "F": case["F"], "eps_grid": frac_str(EPS32),
                "items": [{"len": e["len"], "feats": e["feats"], "params": e["params"]} for e in obs["elems"]]}}
        if not obs.get("rand_ok") or len(obs["elems"]) != case["N"]:
            return None
        N = case["N"]
        eps = DT_EPS[case.get("dtype", "float32")]
        cfg = dict(case["cfg"])
        cfg["eps"] = frac_str(eps)
        items = []
        for n in range(N):
            u = {}
            for name in NAMES:
                v = obs["u"].get(name)
                if v is None:
                    u[name] = "0" if name in ("w0", "w", "v0", "v") else []
                else:
                    u[name] = v[n]
            e = obs["elems"][n]
            it = {"len": e["len"], "u": u}
            # orders >= 2 are not modelled; their mask-only applications are the same code path as order 1
            if not case.get("big") and (case["order"] == 1 or self._no_warp(e)):
                it["feats"] = e["feats"]
                it["params"] = e["params"]
            items.append(it)
        return {"op": "c08.sa", "case": {"T": case["T"], "F": case["F"], "cfg": cfg, "eps_grid": frac_str(EPS32),
                                         "items": items}}

    # ------------------------------------------------------------------ correspondence
    @staticmethod
    def _margin_ok(p):
        p = F_(p)
        fl = math.floor(p)
        m = MARGIN_REL * (abs(p) + 1)
        # a product of non-negative floats never rounds below 0: near 0 only the upper boundary matters
        return (fl + 1 - p > m) and (fl == 0 and p >= 0 or p - fl > m)

    def pos_tol(self, T, dtype="float32"):
        return 2e-3 + 3e-5 * T + DT_POS[dtype] + (2.0 ** -9 * T if dtype == "float16" else 0.0)

    def _cmp_grid(self, case, impl, model):
        if "error" in impl:
            return [f"warp_1d_grid raised {impl['error']}: {impl.get('message')}"]
        out = []
        tol = self.pos_tol(impl["Tg"])
        if case["order"] == 3:
            # the exact cubic spline (Lean: warpGrid3 = every solution of the system, C08_cubic_warp_model);
            # the float32 5x5 solve is only compared where it is well conditioned: the moved knot at least
            # a frame from both pinned ends and T <= 40 (measured error < 3e-3 frames there)
            for i, (row, m) in enumerate(zip(self._grid_rows(case), model["rows"])):
                if i >= len(impl["pos"]) or not impl["finite"][i]:
                    break
                if impl["Tg"] > 40 or self._gap([row["src"], row["flow"]], row["len"]) < 1.0:
                    self.streams["grid3_illconditioned"] += 1
                    continue
                self.streams["grid3_tolerance"] += 1
                mp = [float(F_(self._raw_pos(g, impl["Tg"]))) for g in m["grid"]]
                tol3 = 1e-3 * impl["Tg"]
                bad = [(j, a, b) for j, (a, b) in enumerate(zip(impl["pos"][i], mp)) if not (abs(a - b) <= tol3)]
                if len(mp) != len(impl["pos"][i]):
                    out.append(f"row {i}: grid has {len(impl['pos'][i])} frames, the model {len(mp)}")
                elif bad:
                    out.append(f"row {i}: order-3 warp_1d_grid read position differs from the exact spline at frame "
                               f"{bad[0][0]}: impl={bad[0][1]} model={bad[0][2]} (len={row['len']}, {len(bad)} frames)")
            return out
        for i, (row, m) in enumerate(zip(self._grid_rows(case), model["rows"])):
            if i >= len(impl["pos"]):
                break
            # outside the valid frames the model is the identity continuation; compare everywhere
            mp = [float(F_(self._raw_pos(g, impl["Tg"]))) for g in m["grid"]]
            bad = [(j, a, b) for j, (a, b) in enumerate(zip(impl["pos"][i], mp)) if not (abs(a - b) <= tol)]
            self.streams["grid_tolerance"] += 1
            self.streams["grid_frames"] += len(mp)
            if len(mp) != len(impl["pos"][i]):
                out.append(f"row {i}: grid has {len(impl['pos'][i])} frames, the model {len(mp)}")
            elif bad:
                out.append(f"row {i}: warp_1d_grid read position differs at frame {bad[0][0]}: impl={bad[0][1]} "
                           f"model={bad[0][2]} (len={row['len']}, {len(bad)} frames)")
            if not m["spec"]["stable_eq"]:
                out.append(f"row {i}: model-internal: the literal float-stable evaluation differs from the closed form")
        return out

    def _cmp_apply(self, case, n, e, ap, out):
        """Application: the model applied the implementation's own / the user's parameters."""
        dtype = case.get("dtype", "float32")
        ip = e["params"]
        if ip["warp_t"] is None and ip["warp_f"] is None:
            self.streams["apply_exact"] += 1
            if e["out"] != ap["out"]:
                out.append(f"elem {n}: masked output differs from the model cell by cell")
            return "exact"
        self.streams["apply_tolerance"] += 1
        lo, hi = F_(e["in_lo"]), F_(e["in_hi"])
        tolv = float(hi - lo) * (4 * self.pos_tol(max(case["T"], case["F"])) + 2 * DT_REL[dtype]) \
            + DT_REL[dtype] * float(max(abs(lo), abs(hi)))
        worst = 0.0
        for ra, rb in zip(e["out"], ap["out"]):
            for a, b in zip(ra, rb):
                if a in ("nan", "inf", "-inf"):
                    worst = float("inf")
                else:
                    worst = max(worst, abs(float(F_(a) - F_(b))))
        if worst > tolv:
            out.append(f"elem {n}: warped output differs from the model by {worst} (tolerance {tolv})")
        for nm, key, size in (("tpos", "time_pos", case["T"]), ("fpos", "freq_pos", case["F"])):
            if e[nm] is not None and ap[key] is not None:
                tol = self.pos_tol(size, dtype)
                for j, (a, b) in enumerate(zip(e[nm], ap[key])):
                    if not abs(a - float(F_(b))) <= tol:
                        out.append(f"elem {n}: {nm}[{j}] read position impl={a} model={float(F_(b))}")
                        break
        return "tolerance"

    def compare(self, case, impl, model):
        if case["kind"] == "grid":
            return self._cmp_grid(case, impl, model)
        if case["kind"] == "params":
            if "error" in impl:
                return [f"apply_parameters raised {impl['error']}: {impl.get('message')}"]
            out = []
            self.streams["params_cases"] += 1
            for n, (e, m) in enumerate(zip(impl["elems"], model["items"])):
                self._cmp_apply(case, n, e, m["apply"], out)
            return out
        if case["kind"] != "sa":
            return []
        if "error" in impl:
            return [f"implementation raised {impl['error']}: {impl.get('message')}"]
        out = []
        exp_shapes = [list(s) for _, s in expected_calls(case["cfg"], case["N"])]
        if impl["rand_shapes"] != exp_shapes:
            out.append(f"torch.rand call shapes impl={impl['rand_shapes']} model={exp_shapes}")
            return out
        case_stream = "exact"
        for n, (e, m) in enumerate(zip(impl["elems"], model["items"])):
            d, diag, ip = m["draw"]["params"], m["draw"]["diag"], e["params"]
            # ---- warps: exact if every intermediate is float32-representable, else tolerance
            for key, inter in (("warp_t", "inter_t"), ("warp_f", "inter_f")):
                if (ip[key] is None) != (d[key] is None):
                    out.append(f"elem {n}: {key} present impl={ip[key] is not None} model={d[key] is not None}")
                    continue
                if ip[key] is None:
                    continue
                exact = all(is_f32(F_(v)) for v in diag[inter])
                size = e["len"] if key == "warp_t" else case["F"]
                for a, b, nm in zip(ip[key], d[key], ("centre", "shift")):
                    a, b = F_(a), F_(b)
                    self.streams["warp_exact" if exact else "warp_tolerance"] += 1
                    if exact:
                        if a != b:
                            out.append(f"elem {n}: {key} {nm} impl={a} model={b} (float-exact case)")
                    else:
                        case_stream = "tolerance" if case_stream == "exact" else case_stream
                        if abs(a - b) > Fraction(size, 2 ** 20):
                            out.append(f"elem {n}: {key} {nm} impl={float(a)} model={float(b)}")
            # ---- masks: compared when the truncated products are a margin away from an integer
            def cap_ok(raw, prop):
                raw = F_(raw)
                # len * prop floors identically in float32 and exactly: a margin from the next integer, or an
                # integer product of a float32-exact proportion
                return (raw.denominator == 1 and is_f32(F_(prop))) or (raw.denominator != 1 and self._margin_ok(raw))
            caps_ok = cap_ok(diag["max_t_raw"], case["cfg"]["max_time_mask_proportion"]) and \
                cap_ok(diag["nums_raw"], case["cfg"]["num_time_mask_proportion"])
            for key, wp, sp in (("tmasks", "tprod", "t0prod"), ("fmasks", "fprod", "f0prod")):
                if len(ip[key]) != len(d[key]):
                    out.append(f"elem {n}: {len(ip[key])} {key} impl vs {len(d[key])} model")
                    continue
                for j, (a, b) in enumerate(zip(ip[key], d[key])):
                    ok_w = self._margin_ok(diag[wp][j]) or F_(diag[wp][j]) == 0
                    if key == "tmasks" and not caps_ok:
                        ok_w = False
                    if not ok_w:
                        case_stream = "tie"
                        self.streams["mask_tie"] += 1
                        continue
                    if a[1] != b[1]:
                        out.append(f"elem {n}: {key}[{j}] width impl={a[1]} model={b[1]}")
                        continue
                    if not (self._margin_ok(diag[sp][j]) or F_(diag[sp][j]) == 0):
                        case_stream = "tie"
                        self.streams["mask_tie"] += 1
                        continue
                    self.streams["mask_exact"] += 1
                    if a[0] != b[0]:
                        out.append(f"elem {n}: {key}[{j}] start impl={a[0]} model={b[0]}")
            # ---- application (the model applied the implementation's own parameters)
            ap = m.get("apply")
            if ap is None:
                continue
            if self._cmp_apply(case, n, e, ap, out) == "tolerance" and case_stream == "exact":
                case_stream = "tolerance"
        if case.get("big"):
            case_stream = "oracle"
        self.streams[{"exact": "cases_exact", "tolerance": "cases_tolerance", "tie": "cases_with_tie",
                      "oracle": "cases_oracle"}[case_stream]] += 1
        return out

    @staticmethod
    def _raw_pos(g, T):
        return str((F_(g) + 1) * T / 2 - Fraction(1, 2))

    # ------------------------------------------------------------------ the property on the implementation
    def _pred_apply(self, case, n, e, fails):
        """What the property says about one element of an `apply_parameters` output."""
        dtype = case.get("dtype", "float32")
        T, Fq, ln, p = case["T"], case["F"], e["len"], e["params"]
        if not e["masked_zero"]:
            fails.append((f"elem {n}: a masked cell is not zero", None))
        if not e["unmasked_same"]:
            fails.append((f"elem {n}: an unmasked cell is not bit-identical to the "
                          + ("input" if self._no_warp(e) else "warp-only output"), None))
        if not e["finite"]:
            fails.append((f"elem {n}: non-finite value in the output (order {case['order']})",
                          self._sig(case, e)))
        else:
            lo, hi = F_(e["in_lo"]), F_(e["in_hi"])
            if e["n_masked"]:
                lo, hi = min(lo, 0), max(hi, 0)
            tol = DT_RANGE[dtype] * max(abs(lo), abs(hi), 1)
            if not (lo - tol <= F_(e["out_lo"]) and F_(e["out_hi"]) <= hi + tol):
                fails.append((f"elem {n}: output range [{float(F_(e['out_lo']))}, {float(F_(e['out_hi']))}] "
                              f"outside the input range [{float(lo)}, {float(hi)}] (order {case['order']})",
                              self._sig(case, e)))
        if case["order"] == 1:
            for nm, key, size, full in (("tpos", "warp_t", ln, T), ("fpos", "warp_f", Fq, Fq)):
                if e[nm] is None:
                    continue
                msg = self._read_order(e[nm][:size], size, self.pos_tol(full, dtype))
                if msg:
                    fails.append((f"elem {n}: linear {key}: {msg} (len={size}, params={p[key]})",
                                  self._sig(case, e, key, size)))

    def _pred_common(self, case, impl, fails):
        N, T, Fq = case["N"], case["T"], case["F"]
        if impl["out_shape"] != [N, T, Fq]:
            fails.append((f"output shape {impl['out_shape']} != input shape {[N, T, Fq]}", None))
        if impl["out_dtype"] != case.get("dtype", "float32"):
            fails.append((f"output dtype {impl['out_dtype']} != input dtype {case.get('dtype', 'float32')}", None))
        if not impl["input_unchanged"]:
            fails.append(("the input tensor was modified in place", None))
        if len(impl["elems"]) != N:
            fails.append(("the output could not be examined per element (wrong shape)", None))

    def predicate(self, case, impl, model):
        kind = case["kind"]
        if kind == "malformed":
            if "error" in impl:
                return [(f"malformed-input probe crashed: {impl['error']}", None)]
            exp = {"feats_dim": ("RuntimeError",) * 3}.get(case["bad"], ("RuntimeError",) * 3)
            return [(f"malformed input {case['bad']}: {nm} gave {impl[nm]} instead of RuntimeError", None)
                    for nm, e in zip(("draw", "apply", "forward"), exp) if impl[nm] != e]
        if kind == "grid":
            return self._pred_grid(case, impl)
        if "error" in impl:
            sig = "C08.warp.feature_dtype" if (case.get("dtype", "float32") != "float32"
                                               and "expected scalar type" in str(impl.get("message"))) else None
            return [(f"SpecAugment raised {impl['error']} on an in-domain input: {impl.get('message')}", sig)]
        fails = []
        self._pred_common(case, impl, fails)
        if kind == "params":
            if not impl["deterministic"]:
                fails.append(("apply_parameters gave two different outputs for the same parameters", None))
            for n, e in enumerate(impl["elems"]):
                self._pred_apply(case, n, e, fails)
            return fails
        N, T, Fq, cfg = case["N"], case["T"], case["F"], case["cfg"]
        if not impl["eval_same"]:
            fails.append(("evaluation mode did not return the input unchanged", None))
        if not impl["forward_same"]:
            fails.append(("forward pass differs from apply_parameters(draw_parameters) under the same draws", None))
        if not impl.get("retrain_same", True):
            fails.append(("forward pass in training mode after an evaluation-mode call differs from "
                          "apply_parameters(draw_parameters) under the same draws", None))
        exp = dict(expected_calls(cfg, N))
        for pn, un in (("w_0", "w0"), ("w", "w"), ("v_0", "v0"), ("v", "v"), ("t_0", "t0"), ("t", "t"),
                       ("f_0", "f0"), ("f", "f")):
            want = list(exp[un]) if un in exp else None
            got = impl["shapes"][pn]
            if (want is None and math.prod(got) != 0) or (want is not None and got != want):
                fails.append((f"parameter {pn} has shape {got}, expected {want or 'empty'}", None))
        mtw, mfw = F_(cfg["max_time_warp"]), F_(cfg["max_freq_warp"])
        for n, e in enumerate(impl["elems"]):
            ln, p = e["len"], e["params"]
            md = model["items"][n]["draw"] if model is not None else None
            # ---- masks
            if p["tmasks"]:
                if md is not None:
                    cap_raw, cnt_raw = F_(md["diag"]["max_t_raw"]), F_(md["diag"]["nums_raw"])
                else:
                    cap_raw = ln * F_(cfg["max_time_mask_proportion"])
                    cnt_raw = ln * F_(cfg["num_time_mask_proportion"])
                # float32 evaluates len * prop with rounding: a product within 2^-20 (relative) below an
                # integer may legitimately floor to that integer (not modelled; counted as a tie)
                cap = min(cfg["max_time_mask"], math.floor(cap_raw * (1 + Fraction(1, 2 ** 20))))
                cnt = min(cfg["num_time_mask"], math.floor(cnt_raw * (1 + Fraction(1, 2 ** 20))))
                for j, (s, wd) in enumerate(p["tmasks"]):
                    if not (0 <= wd <= cap):
                        fails.append((f"elem {n}: time mask {j} width {wd} outside [0, min(max_time_mask, "
                                      f"floor(len*prop))={cap}] (len={ln})", None))
                    if j >= cnt and wd != 0:
                        fails.append((f"elem {n}: time mask {j} has width {wd} although only {cnt} masks are "
                                      f"allowed for len={ln}", None))
                    if not (0 <= s and s + wd <= ln):
                        fails.append((f"elem {n}: time mask {j} [{s}, {s + wd}) leaves the valid frames [0, {ln})", None))
            for j, (s, wd) in enumerate(p["fmasks"]):
                if not (0 <= wd <= min(cfg["max_freq_mask"], Fq)):
                    fails.append((f"elem {n}: frequency mask {j} width {wd} outside [0, {min(cfg['max_freq_mask'], Fq)}]", None))
                if not (0 <= s and s + wd <= Fq):
                    fails.append((f"elem {n}: frequency mask {j} [{s}, {s + wd}) leaves [0, {Fq})", None))
            # ---- warps (float32 values: bounds up to 4 ulps of the size)
            for key, size, mx in (("warp_t", ln, mtw), ("warp_f", Fq, mfw)):
                if p[key] is None:
                    continue
                c0, sh = F_(p[key][0]), F_(p[key][1])
                W = min(mx, Fraction(size, 2))
                tol = Fraction(size, 2 ** 21)
                # the half-window is (size/2 - eps).clamp(0, max) with the machine epsilon of the FEATURE dtype
                # (2^-10 for float16 features: visibly narrower than size/2); |shift| <= W is checked against
                # the upper bound min(max, size/2) of every admissible window
                Wlo = min(mx, max(Fraction(size, 2) - DT_EPS[case.get("dtype", "float32")], Fraction(0)))
                if not (Wlo - tol <= c0 <= size - Wlo + tol):
                    fails.append((f"elem {n}: {key} centre {float(c0)} outside [W, size-W], W={float(Wlo)} size={size}", None))
                if not (abs(sh) <= W + tol):
                    fails.append((f"elem {n}: {key} shift {float(sh)} exceeds W={float(W)}", None))
                if not (-tol <= c0 + sh <= size + tol):
                    fails.append((f"elem {n}: {key} destination {float(c0 + sh)} outside [0, {size}]", None))
            # ---- application
            self._pred_apply(case, n, e, fails)
        return fails

    @staticmethod
    def _read_order(pos, size, tol):
        if any(not math.isfinite(v) for v in pos):
            return "non-finite read position"
        for j in range(len(pos) - 1):
            if pos[j + 1] < pos[j] - tol:
                return f"read order decreases at frame {j}: {pos[j]} -> {pos[j + 1]}"
        if pos[0] > 0.5 + tol:
            return f"first valid frame reads position {pos[0]}, more than half a frame from 0"
        if abs(pos[-1] - (size - 1)) > 0.5 + tol:
            return f"last valid frame reads position {pos[-1]}, more than half a frame from {size - 1}"
        if max(pos) > size - 1 + tol or min(pos) < -tol:
            return f"valid frames read outside the valid frames: [{min(pos)}, {max(pos)}]"
        return None

    @staticmethod
    def _gap(p, size):
        src = min(max(F_(p[0]), 0), size - 1)
        dst = min(max(src + F_(p[1]), 0), size - 1)
        return float(min(dst, size - 1 - dst))

    def _sig(self, case, e, key=None, size=None):
        """Label for the (repaired) defect: the moved knot within 2 frames of a pinned end."""
        for k, s in ((key, size),) if key else (("warp_t", e["len"]), ("warp_f", case["F"])):
            if e["params"].get(k) is not None and self._gap(e["params"][k], s) < 2.0:
                return SIG_NEAR_END
        return None

    def _pred_grid(self, case, impl):
        rows = self._grid_rows(case)
        near = any(self._gap([r["src"], r["flow"]], r["len"]) < 2.0 for r in rows)
        if "error" in impl:
            return [(f"warp_1d_grid raised {impl['error']}: {impl.get('message')}", SIG_NEAR_END if near else None)]
        fails = []
        Tg = impl["Tg"]
        if impl["shape"] != [len(rows), Tg]:
            fails.append((f"grid shape {impl['shape']} != [{len(rows)}, {Tg}]", None))
            return fails
        for i, r in enumerate(rows):
            ln = r["len"]
            sig = SIG_NEAR_END if self._gap([r["src"], r["flow"]], ln) < 2.0 else None
            if not impl["finite"][i]:
                fails.append((f"row {i}: non-finite grid (order {case['order']})", sig))
            elif case["order"] == 1:
                pos = [min(max(v, 0.0), Tg - 1.0) for v in impl["pos"][i][:ln]]
                msg = self._read_order(pos, ln, self.pos_tol(Tg))
                if msg:
                    fails.append((f"row {i}: linear warp_1d_grid: {msg} (len={ln}, src={r['src']}, flow={r['flow']})", sig))
        return fails

    # ------------------------------------------------------------------ bookkeeping
    def nontrivial(self, case, impl):
        if case["kind"] == "grid":
            return any(F_(r["flow"]) != 0 for r in self._grid_rows(case))
        if case["kind"] not in ("sa", "params") or "error" in impl:
            return False
        for e in impl["elems"]:
            p = e["params"]
            if any(w > 0 for _, w in p["tmasks"] + p["fmasks"]):
                return True
            if any(p[k] is not None and F_(p[k][1]) != 0 for k in ("warp_t", "warp_f")):
                return True
        return False

    def key(self, case):
        import json
        return json.dumps(case, sort_keys=True)

    def tags(self, case, impl):
        t = ["kind=" + case["kind"]]
        if case["kind"] == "grid":
            rows = self._grid_rows(case)
            t += [f"order={case['order']}", f"grid:rows={len(rows)}", "grid:api=" + case.get("api", "functional"),
                  "grid:lens=" + ("float" if case.get("lens_float") else "long"),
                  "grid:max_length=" + ("given" if case["max_length"] else "None")]
            for r in rows:
                if self._gap([r["src"], r["flow"]], r["len"]) < 1e-3:
                    t.append("grid:knot_on_pinned_end")
                if r["len"] == 1:
                    t.append("grid:len=1")
            return t
        if case["kind"] not in ("sa", "params"):
            return t
        eff = case["lens"] or [case["T"]] * case["N"]
        t += [f"order={case['order']}", "api=" + case["api"], "dtype=" + case.get("dtype", "float32"),
              "layout=" + case.get("layout", "contig"), "entry=" + case.get("entry", "direct"),
              "grad=" + case.get("grad", "plain"),
              "lens=None" if case["lens"] is None else "lens=" + case.get("lens_dtype", "int64")]
        hist = case.get("history") or []
        t.append(f"history={len(hist)}")
        for h in hist:
            t.append("history:lens=" + ("omitted" if h["lens"] is None else "given")
                     + "->" + ("omitted" if case["lens"] is None else "given"))
            t.append("history:N=" + ("same" if h["N"] == case["N"] else "other"))
            t.append("history:T=" + ("same" if h["T"] == case["T"] else "fewer" if h["T"] < case["T"] else "more"))
            t.append("history:F=" + ("same" if h["F"] == case["F"] else "other"))
            t.append("history:dtype=" + ("same" if h["dtype"] == case.get("dtype", "float32") else "other"))
            t.append("history:op=" + (h["op"] if h["op"] != "forward" else "forward_train" if h["training"] else "forward_eval"))
        if 1 in eff:
            t.append("has_len=1")
        if case["T"] == 1:
            t.append("T=1")
        if case["F"] == 1:
            t.append("F=1")
        if case["kind"] == "params":
            t.append("params:absent=" + case["absent"])
            if case.get("half"):
                t.append("params:half_warp_pair")
            if any(m[0] < 0 or m[1] < 0 for e in case["elems"] for m in e["tmasks"] + e["fmasks"]):
                t.append("params:mask_negative_start_or_width")
            el = case["elems"]
            t.append("params:time_warp=" + ("on" if el[0]["warp_t"] else "off"))
            t.append("params:freq_warp=" + ("on" if el[0]["warp_f"] else "off"))
            t.append("params:time_mask=" + ("on" if el[0]["tmasks"] else "off"))
            t.append("params:freq_mask=" + ("on" if el[0]["fmasks"] else "off"))
            for e, ln in zip(el, eff):
                for k, s in (("warp_t", ln), ("warp_f", case["F"])):
                    if e[k] is not None and self._gap(e[k], s) < 1e-3:
                        t.append("params:knot_on_pinned_end")
                if any(s + w > ln for s, w in e["tmasks"]):
                    t.append("params:mask_in_padding")
                if any(w == ln and s == 0 for s, w in e["tmasks"]) or any(w == case["F"] and s == 0 for s, w in e["fmasks"]):
                    t.append("params:mask_whole_axis")
            return t
        cfg = case["cfg"]
        t += ["draw=" + case["draw"]["mode"], "big" if case.get("big") else "small"]
        t.append("time_warp=" + ("off" if F_(cfg["max_time_warp"]) == 0 else
                                 "beyond_half" if F_(cfg["max_time_warp"]) * 2 >= case["T"] else "on"))
        t.append("freq_warp=" + ("off" if F_(cfg["max_freq_warp"]) == 0 else "on"))
        names = dict(expected_calls(cfg, case["N"]))
        t.append("time_mask=" + ("on" if "t" in names else "off"))
        t.append("freq_mask=" + ("on" if "f" in names else "off"))
        zeros = [k for k in CFG_KEYS if F_(cfg[k]) == 0]
        t.append("zero_limits=" + ("none" if not zeros else "all" if len(zeros) == 8 else
                                   "only:" + zeros[0] if len(zeros) == 1 else "several"))
        for k in ("max_time_mask_proportion", "num_time_mask_proportion"):
            v = F_(cfg[k])
            t.append(f"{k}=" + (str(v) if v.denominator <= 8 else "0.04" if cfg[k] == frac_str(0.04) else "other"))
        if isinstance(impl, dict) and "elems" in impl:
            for e in impl["elems"]:
                for k, s in (("warp_t", e["len"]), ("warp_f", case["F"])):
                    if e["params"][k] is not None and self._gap(e["params"][k], s) < 1e-3:
                        t.append("knot_on_pinned_end")
            if case["draw"]["mode"] == "inject":
                flat = [v for vs in case["draw"]["u"].values() for row in vs for v in (row if isinstance(row, list) else [row])]
                if "0" in flat:
                    t.append("draw_has_0")
                if frac_str(BIG) in flat:
                    t.append("draw_has_1-2^-24")
        return t

    def shrink(self, case):
        if case["kind"] == "grid" and case.get("more"):
            c = dict(case)
            c.pop("more")
            yield c
            for r in case["more"]:
                c = dict(case)
                c.pop("more")
                c.update(r)
                yield c
            return
        if case["kind"] not in ("sa", "params"):
            return
        # the life cycle first: a fresh object, then one earlier call fewer
        if case.get("history"):
            c = dict(case)
            c.pop("history")
            yield c
            if len(case["history"]) > 1:
                for i in range(len(case["history"])):
                    c = dict(case)
                    c["history"] = case["history"][:i] + case["history"][i + 1:]
                    yield c
        # the input classes: the plain variant of the same call
        for k, plain in (("layout", "contig"), ("dtype", "float32"), ("lens_dtype", "int64"), ("entry", "direct"),
                         ("grad", "plain")):
            if case.get(k, plain) != plain:
                c = dict(case)
                c[k] = plain
                yield c
        if case["kind"] == "params":
            N = case["N"]
            if N > 1:
                for n in range(N):
                    c = dict(case)
                    c["N"] = N - 1
                    if case["lens"] is not None:
                        c["lens"] = case["lens"][:n] + case["lens"][n + 1:]
                    c["elems"] = case["elems"][:n] + case["elems"][n + 1:]
                    yield c
            for k, none in (("warp_t", None), ("warp_f", None), ("tmasks", []), ("fmasks", [])):
                if case["elems"][0][k]:
                    c = dict(case)
                    c["elems"] = [dict(e, **{k: none}) for e in case["elems"]]
                    yield c
            for k in ("tmasks", "fmasks"):
                if len(case["elems"][0][k]) > 1:
                    c = dict(case)
                    c["elems"] = [dict(e, **{k: e[k][:-1]}) for e in case["elems"]]
                    yield c
            return
        if case["draw"]["mode"] == "seed":
            # dropping an element changes the genuine draws; shrink the sizes instead
            for k, lo in (("F", 1),):
                if case[k] > lo:
                    c = dict(case)
                    c[k] = case[k] - 1
                    yield c
        else:
            N = case["N"]
            if N > 1:
                for n in range(N):
                    c = dict(case)
                    c["N"] = N - 1
                    if case["lens"] is not None:
                        c["lens"] = case["lens"][:n] + case["lens"][n + 1:]
                    c["draw"] = {"mode": "inject",
                                 "u": {k: v[:n] + v[n + 1:] for k, v in case["draw"]["u"].items()}}
                    yield c
        for k in ("max_time_mask", "max_freq_mask", "num_time_mask", "num_freq_mask"):
            if case["cfg"][k]:
                c = dict(case)
                c["cfg"] = dict(case["cfg"])
                c["cfg"][k] = 0
                if case["draw"]["mode"] == "inject":
                    keep = dict(expected_calls(c["cfg"], case["N"]))
                    c["draw"] = {"mode": "inject", "u": {a: b for a, b in case["draw"]["u"].items() if a in keep}}
                yield c
        for k in ("max_time_warp", "max_freq_warp"):
            if F_(case["cfg"][k]) != 0:
                c = dict(case)
                c["cfg"] = dict(case["cfg"])
                c["cfg"][k] = "0"
                if case["draw"]["mode"] == "inject":
                    keep = dict(expected_calls(c["cfg"], case["N"]))
                    c["draw"] = {"mode": "inject", "u": {a: b for a, b in case["draw"]["u"].items() if a in keep}}
                yield c
        if case["feats"]["mode"] != "pos":
            c = dict(case)
            c["feats"] = {"mode": "pos", "seed": 0}
            yield c

    def extra_checks(self, rng, tier, report):
        report["extra"]["streams"] = dict(self.streams)


CHECK = C08()
