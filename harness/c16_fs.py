"""C16 instrumentation: crash points are FILE-SYSTEM MUTATIONS, whatever Python API makes them.

What is intercepted (for the duration of `instrumented(tr)`; everything is restored afterwards):

  * the functions every route to the file system goes through, patched ON THE MODULES THAT OWN THEM —
    `builtins.open` / `io.open` (hence `os.fdopen`, `tempfile.NamedTemporaryFile`, `pathlib.Path.open`,
    `codecs.open`, `shutil.copyfile`), `os.open` (hence `tempfile.mkstemp`, `Path.touch`), `os.write`,
    `os.sendfile` / `os.copy_file_range` (shutil's fast copy), `os.ftruncate` / `os.truncate`,
    `os.replace` / `os.rename` (hence `shutil.move`, `Path.rename/replace`), `os.remove` / `os.unlink`,
    `os.mkdir` (hence `os.makedirs`, `Path.mkdir`), `os.rmdir`, `os.link` / `os.symlink`, `torch.save`;
  * names a library module bound to one of these functions at import time (`from os import replace`,
    `from tempfile import NamedTemporaryFile`, `from torch import save`): every global of
    `pydrobert.torch.training` that IS one of the patched originals is shadowed too (identity scan);
  * every file object opened for writing / appending / updating is handed out as a `_FileProxy` with FULL
    delegation (`__getattr__`: fileno, flush, name, buffer, seek, …): only `write` / `writelines` /
    `truncate` are events; a write goes through to the OS file at once (write + flush), so what was
    written before an interrupt is in the file (with SIGKILL the still-buffered bytes are lost instead,
    which is the crash point one event earlier);
  * `torch.save(obj, path)` = open(path, "wb") + ONE write of the serialised bytes; `torch.save(obj, file
    object)` = ONE `file.write(serialised bytes)` (the zip writer makes the same bytes in several writes);
    `torch.save(obj, io.BytesIO())` is not a file-system mutation and passes through untouched.

Only paths inside `Tracer.root` (the scenario's workspace) are events; anything else passes through.

An *event* is announced to the `Tracer` BEFORE it is executed: [kind, path, …] with kind in
  mkdir | create | truncate | open (a file opened for writing that exists already: nothing changes) |
  write (data) | replace (src, dst) | remove | rmdir | meta (chmod/utime: content unchanged) | other.
When the tracer's crash index is reached the event is NOT executed, the tracer is marked dead and `Crash`
(a BaseException) is raised — or, `torn` and the event a write, half of the data is written first. Deaths:
  hard (kill -9): from then on every further event also raises, so nothing the library does while
       unwinding (`except:` / `with` exits) reaches the disk;
  soft (KeyboardInterrupt / SystemExit): the exception unwinds through the library's handlers and
       whatever they do to the disk IS executed and recorded in `Tracer.after`.
Events made while the tracer is not armed (constructor, loading) are recorded in `Tracer.idle`.

The JUDGEMENT is never made on these events: `c16_run.abstract_trace` turns them into the state changes
they make (a temp file appears / is complete, a line is appended to the history, a rename, a removal) and
everything is judged on the directory and file states left behind.
"""
import builtins
import contextlib
import io as _io
import os as _os
import sys


class Crash(BaseException):
    pass


class Tracer:
    def __init__(self, root=None):
        self.root = _os.path.abspath(root) if root else None
        self.ops = []          # executed events of the current update
        self.crash_at = None
        self.torn = False
        self.soft = False
        self.dead = False
        self.armed = False     # crash index counts only events made while armed
        self.n = 0
        self.after = []        # soft death: events made while the exception unwinds
        self.idle = []         # events made while not armed (constructor, load, ...)
        self.fds = {}          # os-level file descriptor -> path (os.open / proxies)
        self.atomic = None     # data -> bool: a write that is never torn (set by the scenario runner)
        self.line_paths = set()  # files whose LINES are the unit that reaches the disk (see `feed`)
        self.pending = {}      # path -> beginning of a line that was written but not ended yet

    def feed(self, path, data):
        """Line-buffered files (the history csv): the bytes of a line reach the file when the line is complete,
        however many write() calls it took (`print(row, file=f)` is two, `writelines([row, eol])` too) - the
        check's standing assumption is that a history line reaches the file whole or not at all; a line cut in the
        middle is exercised on purpose by `torn`, not as a by-product of how a line is handed to write().
        -> the data to write NOW as one event (None: nothing yet)."""
        if path not in self.line_paths:
            return data
        buf = self.pending.pop(path, None)
        buf = data if buf is None else buf + data
        nl = "\n" if isinstance(buf, str) else b"\n"
        i = buf.rfind(nl)
        if i < 0:
            self.pending[path] = buf
            return None
        if i + 1 < len(buf):
            self.pending[path] = buf[i + 1:]
        return buf[: i + 1]

    def drain(self, path):
        """flush() / close(): an unfinished line does reach the file."""
        return self.pending.pop(path, None)

    def inside(self, path):
        if self.root is None:
            return True
        try:
            p = _os.path.abspath(_os.fspath(path))
        except TypeError:
            return False
        if isinstance(p, bytes):
            p = _os.fsdecode(p)
        return p == self.root or p.startswith(self.root + _os.sep)

    def arm(self, crash_at, torn=False, soft=False):
        self.ops = []
        self.n = 0
        self.crash_at = crash_at
        self.torn = torn
        self.soft = soft
        self.armed = True

    def disarm(self):
        self.armed = False
        self.crash_at = None

    def mut(self, kind, *args, tearable=False):
        """Announce an event. Returns True when it is to be torn (write half, then die)."""
        if self.dead:
            if self.soft:
                self.after.append([kind] + list(args))
                return False
            raise Crash()
        if not self.armed:
            self.idle.append([kind] + list(args))
            return False
        if self.crash_at is not None and self.n == self.crash_at:
            self.dead = True
            if tearable and self.atomic is not None and len(args) > 1 and self.atomic(args[1]):
                tearable = False
            if self.torn and tearable:
                self.ops.append([kind] + list(args) + ["torn"])
                return True
            raise Crash()
        self.n += 1
        self.ops.append([kind] + list(args))
        return False


def _spath(p):
    p = _os.fspath(p)
    if isinstance(p, bytes):
        p = _os.fsdecode(p)
    return _os.path.abspath(p)


class _FileProxy:
    """A file object opened for writing: everything is delegated to the real object, writes are events that
    reach the OS file at once."""

    def __init__(self, tr, real, path, inplace=False):
        object.__setattr__(self, "_tr", tr)
        object.__setattr__(self, "_real", real)
        object.__setattr__(self, "_path", path)
        object.__setattr__(self, "_inplace", inplace)
        try:
            tr.fds[real.fileno()] = path
            object.__setattr__(self, "_fd", real.fileno())
        except Exception:
            object.__setattr__(self, "_fd", None)

    # ---- the events
    def write(self, s):
        if len(s) == 0:
            return self._real.write(s)
        if self._inplace:
            self._tr.mut("other", "write-in-place", self._path)
            r = self._real.write(s)
            self._real.flush()
            return r
        now = self._tr.feed(self._path, s)
        if now is not None:
            self._emit(now)
        return len(s)

    def _emit(self, s):
        try:
            torn = self._tr.mut("write", self._path, s, tearable=True)
        except Crash:
            self._tr.pending.pop(self._path, None)
            raise
        if torn:
            half = s[: len(s) // 2]
            self._tr.ops[-1][2] = half
            self._real.write(half)
            self._real.flush()
            self._tr.pending.pop(self._path, None)
            raise Crash()
        self._real.write(s)
        self._real.flush()

    def flush(self):
        rest = self._tr.drain(self._path)
        if rest:
            self._emit(rest)
        return self._real.flush()

    def writelines(self, ls):
        for s in ls:
            self.write(s)

    def truncate(self, *a):
        self._tr.mut("truncate", self._path)
        return self._real.truncate(*a)

    # ---- plumbing
    def close(self):
        fd = self._fd
        if fd is not None and self._tr.fds.get(fd) == self._path:
            self._tr.fds.pop(fd, None)
        try:
            if not self._real.closed:
                rest = self._tr.drain(self._path)
                if rest:
                    self._emit(rest)
        finally:
            self._real.close()

    def __getattr__(self, name):
        return getattr(object.__getattribute__(self, "_real"), name)

    def __setattr__(self, name, value):
        setattr(self._real, name, value)

    def __enter__(self):
        self._real.__enter__()
        return self

    def __exit__(self, *exc):
        self.close()
        return False

    def __iter__(self):
        return iter(self._real)

    def __next__(self):
        return next(self._real)


_W_FLAGS = _os.O_WRONLY | _os.O_RDWR | _os.O_CREAT | _os.O_TRUNC | _os.O_APPEND


def _nonempty(path):
    try:
        return _os.path.getsize(path) > 0
    except OSError:
        return False


class _Patches:
    """The wrappers, bound to one tracer. `real` holds the originals."""

    def __init__(self, tr):
        import torch
        self.tr = tr
        self.torch = torch
        self.real = {
            ("builtins", "open"): builtins.open, ("io", "open"): _io.open,
            ("torch", "save"): torch.save, ("torch.serialization", "save"): torch.serialization.save,
        }
        for name in ("open", "close", "write", "sendfile", "copy_file_range", "ftruncate", "truncate", "replace",
                     "rename", "remove", "unlink", "mkdir", "rmdir", "link", "symlink", "chmod", "utime", "pwrite",
                     "writev"):
            if hasattr(_os, name):
                self.real[("os", name)] = getattr(_os, name)
        self.wrap = {}
        for (mod, name), fn in self.real.items():
            w = getattr(self, f"w_{mod.split('.')[0]}_{name}", None)
            if w is None:
                w = self._generic(mod, name, fn)
            self.wrap[(mod, name)] = w

    # ---- open
    def _open_event(self, path, creating, truncating):
        exists = _os.path.exists(path)
        if not exists:
            if creating:
                self.tr.mut("create", path)
            return
        if truncating and _nonempty(path):
            self.tr.mut("truncate", path)
        else:
            self.tr.mut("open", path)

    def _do_open(self, real_open, file, mode="r", *a, **k):
        writing = any(c in mode for c in "wax+")
        if not writing:
            return real_open(file, mode, *a, **k)
        tr = self.tr
        if isinstance(file, int):
            path = tr.fds.get(file)
            f = real_open(file, mode, *a, **k)
            if path is None:
                return f
            return _FileProxy(tr, f, path, inplace="+" in mode and "a" not in mode and "w" not in mode)
        if k.get("opener") is not None:
            # the path is decided by the opener (tempfile.NamedTemporaryFile): it goes through os.open, which
            # announces the creation and registers the descriptor
            f = real_open(file, mode, *a, **k)
            try:
                path = tr.fds.get(f.fileno())
            except Exception:
                path = None
            if path is None:
                return f
            return _FileProxy(tr, f, path)
        try:
            path = _spath(file)
        except TypeError:
            return real_open(file, mode, *a, **k)
        if not tr.inside(path):
            return real_open(file, mode, *a, **k)
        self._open_event(path, creating=any(c in mode for c in "wax"), truncating="w" in mode)
        f = real_open(file, mode, *a, **k)
        return _FileProxy(tr, f, path, inplace="+" in mode and "a" not in mode and "w" not in mode)

    def w_builtins_open(self, file, mode="r", *a, **k):
        return self._do_open(self.real[("builtins", "open")], file, mode, *a, **k)

    def w_io_open(self, file, mode="r", *a, **k):
        return self._do_open(self.real[("io", "open")], file, mode, *a, **k)

    def w_os_open(self, path, flags, *a, **k):
        real = self.real[("os", "open")]
        if not (flags & _W_FLAGS) or k.get("dir_fd") is not None:
            return real(path, flags, *a, **k)
        try:
            p = _spath(path)
        except TypeError:
            return real(path, flags, *a, **k)
        if not self.tr.inside(p):
            return real(path, flags, *a, **k)
        self._open_event(p, creating=bool(flags & _os.O_CREAT), truncating=bool(flags & _os.O_TRUNC))
        fd = real(path, flags, *a, **k)
        self.tr.fds[fd] = p
        return fd

    def w_os_close(self, fd):
        path = self.tr.fds.pop(fd, None)
        try:
            if path is not None and path not in self.tr.fds.values():
                rest = self.tr.drain(path)
                if rest:
                    self._fd_emit(fd, path, rest)
        finally:
            self.real[("os", "close")](fd)

    def _fd_emit(self, fd, path, data):
        real = self.real[("os", "write")]
        try:
            torn = self.tr.mut("write", path, data, tearable=True)
        except Crash:
            self.tr.pending.pop(path, None)
            raise
        if torn:
            half = data[: len(data) // 2]
            self.tr.ops[-1][2] = half
            real(fd, half)
            self.tr.pending.pop(path, None)
            raise Crash()
        real(fd, data)

    def _fd_write(self, name, fd, data, *a, **k):
        real = self.real[("os", name)]
        path = self.tr.fds.get(fd)
        if path is None:
            return real(fd, data, *a, **k)
        data = bytes(data)
        now = self.tr.feed(path, data)
        if now is not None:
            self._fd_emit(fd, path, now)
        return len(data)

    def w_os_write(self, fd, data):
        return self._fd_write("write", fd, data)

    def w_os_pwrite(self, fd, data, offset):
        path = self.tr.fds.get(fd)
        if path is not None:
            self.tr.mut("other", "pwrite", path)
        return self.real[("os", "pwrite")](fd, data, offset)

    def w_os_writev(self, fd, buffers):
        path = self.tr.fds.get(fd)
        if path is not None:
            return self._fd_write("write", fd, b"".join(bytes(b) for b in buffers))
        return self.real[("os", "writev")](fd, buffers)

    def _fd_copy(self, name, out_pos):
        real = self.real[("os", name)]

        def w(*a, **k):
            fd = a[out_pos] if len(a) > out_pos else None
            path = self.tr.fds.get(fd)
            if path is not None:
                # bytes arrive in the file without passing a write(): one event per call, content unknown
                self.tr.mut("write", path, None)
            return real(*a, **k)
        return w

    def w_os_sendfile(self, *a, **k):
        return self._fd_copy("sendfile", 0)(*a, **k)

    def w_os_copy_file_range(self, *a, **k):
        return self._fd_copy("copy_file_range", 1)(*a, **k)

    def w_os_ftruncate(self, fd, length):
        path = self.tr.fds.get(fd)
        if path is not None:
            self.tr.mut("truncate", path)
        return self.real[("os", "ftruncate")](fd, length)

    # ---- path operations
    def _two(self, name, kind):
        real = self.real[("os", name)]

        def w(src, dst, *a, **k):
            try:
                s, d = _spath(src), _spath(dst)
            except TypeError:
                return real(src, dst, *a, **k)
            if self.tr.inside(s) or self.tr.inside(d):
                self.tr.mut(kind, s, d)
            return real(src, dst, *a, **k)
        return w

    def _one(self, name, kind, *extra):
        real = self.real[("os", name)]

        def w(path, *a, **k):
            try:
                p = _spath(path)
            except TypeError:
                return real(path, *a, **k)
            if self.tr.inside(p):
                self.tr.mut(kind, *extra, p)
            return real(path, *a, **k)
        return w

    def _generic(self, mod, name, fn):
        if mod != "os":
            return fn
        if name in ("replace", "rename"):
            return self._two(name, "replace")
        if name in ("link", "symlink"):
            return self._two(name, "other")
        if name in ("remove", "unlink"):
            real = self.real[("os", name)]

            def w(path, *a, **k):
                try:
                    p = _spath(path)
                except TypeError:
                    return real(path, *a, **k)
                if self.tr.inside(p):
                    # removing what is not there changes nothing (Path.unlink(missing_ok=True), a racing clean-up)
                    self.tr.mut("remove" if _os.path.lexists(p) else "meta", p)
                return real(path, *a, **k)
            return w
        if name == "mkdir":
            return self._one(name, "mkdir")
        if name == "rmdir":
            return self._one(name, "rmdir")
        if name == "truncate":
            return self._one(name, "truncate")
        if name in ("chmod", "utime"):
            return self._one(name, "meta")
        return fn

    # ---- torch.save
    def _serialise(self, obj, a, k):
        b = _io.BytesIO()
        self.real[("torch", "save")](obj, b, *a, **k)
        return b.getvalue()

    def w_torch_save(self, obj, f, *a, **k):
        real = self.real[("torch", "save")]
        if isinstance(f, (str, bytes, _os.PathLike)):
            if not self.tr.inside(_spath(f)):
                return real(obj, f, *a, **k)
            data = self._serialise(obj, a, k)
            with self.w_builtins_open(f, "wb") as g:
                g.write(data)
            return None
        if isinstance(f, _io.BytesIO) or not hasattr(f, "write"):
            return real(obj, f, *a, **k)        # an in-memory buffer: not a file-system mutation
        target = f
        for _ in range(3):                       # tempfile wrappers keep the file object in `.file`
            if isinstance(target, _FileProxy):
                break
            target = getattr(target, "file", None)
            if target is None:
                break
        if not isinstance(target, _FileProxy):
            return real(obj, f, *a, **k)
        f.write(self._serialise(obj, a, k))
        return None


_SCAN = {}


def _bound_names(pt):
    """(module, name, original) for every global of the library's modules (and of tempfile / shutil) that IS one of
    the patched originals (`from os import replace`, `from torch import save`, ...). Computed once per set of
    loaded library modules."""
    import tempfile
    import shutil
    key = (id(sys.modules.get("pydrobert.torch.training")), len(sys.modules))
    if _SCAN.get("key") != key:
        lib = tuple(m for n, m in list(sys.modules.items())
                    if m is not None and n.startswith("pydrobert.torch"))
        by_id = {id(fn): key_ for key_, fn in pt.real.items() if pt.wrap[key_] is not fn}
        found = []
        for m in lib + (tempfile, shutil):
            for name, val in list(vars(m).items()):
                k = by_id.get(id(val))
                if k is not None:
                    found.append((m, name, k))
        _SCAN["key"], _SCAN["found"] = key, found
    return _SCAN["found"]


@contextlib.contextmanager
def instrumented(tr):
    """Route every file-system mutation of the process through tracer `tr` (see the module docstring)."""
    from pydrobert.torch import training
    pt = _Patches(tr)
    mods = {"builtins": builtins, "io": _io, "os": _os, "torch": pt.torch, "torch.serialization": pt.torch.serialization}
    saved = []
    try:
        bound = _bound_names(pt)        # before anything is patched: identities of the originals
        for (mod, name), w in pt.wrap.items():
            if w is pt.real[(mod, name)]:
                continue
            saved.append((mods[mod], name, getattr(mods[mod], name)))
            setattr(mods[mod], name, w)
        for m, name, k in bound:
            saved.append((m, name, getattr(m, name)))
            setattr(m, name, pt.wrap[k])
        yield training
    finally:
        for m, name, val in reversed(saved):
            setattr(m, name, val)
