"""C16 instrumentation: counting / crashing proxies put in place of the names that
`pydrobert.torch.training` uses for file-system mutation (`os`, `tempfile`, `open`, `torch`),
from OUTSIDE the library (module attributes shadowed inside a context manager).

A *mutating call* is announced to the `Tracer` before it is executed. When the tracer's crash
index is reached the call is NOT executed, the tracer is marked dead and `Crash` (a
BaseException) is raised. Two kinds of death:
  hard (kill -9): from then on every further mutating call also raises, so nothing the library does
       while unwinding (`except:` / `with` exits) reaches the disk;
  soft (KeyboardInterrupt / SystemExit): the exception unwinds through the library's handlers and
       whatever they do to the disk IS executed and recorded in `Tracer.after` (the model says: nothing).
Calls made while the tracer is not armed (constructor, loading) are recorded in `Tracer.idle`.

History file: every `f.write(text)` on the file object returned by `open(path, "a")` is a mutating
call of its own (`hwrite`) and reaches the file at once (write + flush): `csv.writer.writerow` makes
exactly one such call per line, so "header line written, data row not" is a crash point (it is what
an interrupt between the two `writerow` calls leaves behind: the `with` block flushes the header).
`open_a` (creates the file when absent) is one more call. A torn `hwrite` of a data row writes the
first half of the line.
"""
import builtins
import contextlib
import os as _os
import tempfile as _tempfile


class Crash(BaseException):
    pass


class Tracer:
    def __init__(self, crash_at=None, torn=False):
        self.ops = []          # executed mutating calls of the current update: [kind, arg...]
        self.crash_at = crash_at
        self.torn = torn
        self.soft = False
        self.dead = False
        self.armed = False     # crash index counts only calls made while armed
        self.n = 0
        self.unexpected = []   # mutating entry points the model knows nothing about
        self.after = []        # soft death: mutating calls made while the exception unwinds
        self.idle = []         # mutating calls made while not armed (constructor, load, ...)

    def arm(self, crash_at, torn=False, soft=False):
        self.ops = []
        self.n = 0
        self.crash_at = crash_at
        self.torn = torn
        self.soft = soft
        self.armed = True

    def disarm(self):
        self.armed = False
        self.crash_at = None

    def mut(self, kind, *args, tearable=False):
        """Announce a mutating call. Returns True when the call is to be torn (write half, die)."""
        if self.dead:
            if self.soft:
                self.after.append([kind] + [str(a) for a in args[:2]])
                return False
            raise Crash()
        if not self.armed:
            self.idle.append([kind] + [str(a) for a in args[:2]])
            return False
        if self.crash_at is not None and self.n == self.crash_at:
            self.dead = True
            if self.torn and tearable:
                return True
            raise Crash()
        self.n += 1
        self.ops.append([kind] + list(args))
        return False


class OsProxy:
    """Stands in for the `os` module inside training.py."""

    _MUT = ("rename", "renames", "unlink", "rmdir", "removedirs", "mkdir", "link", "symlink", "truncate",
            "chmod", "utime", "mkfifo", "open", "write")

    def __init__(self, tr):
        self._tr = tr
        self.path = _os.path

    def __getattr__(self, name):
        real = getattr(_os, name)
        if name in OsProxy._MUT:
            def f(*a, **k):
                self._tr.unexpected.append("os." + name)
                self._tr.mut("os." + name, *[str(x) for x in a[:2]])
                return real(*a, **k)
            return f
        return real

    def replace(self, src, dst, **k):
        self._tr.mut("replace", str(src), str(dst))
        return _os.replace(src, dst, **k)

    def remove(self, p, **k):
        self._tr.mut("remove", str(p))
        return _os.remove(p, **k)

    def makedirs(self, p, *a, **k):
        self._tr.mut("mkdirs", str(p))
        return _os.makedirs(p, *a, **k)


class TempfileProxy:
    def __init__(self, tr):
        self._tr = tr

    def __getattr__(self, name):
        real = getattr(_tempfile, name)
        if name in ("mkstemp", "mkdtemp", "TemporaryFile", "TemporaryDirectory", "SpooledTemporaryFile"):
            def f(*a, **k):
                self._tr.unexpected.append("tempfile." + name)
                self._tr.mut("tempfile." + name)
                return real(*a, **k)
            return f
        return real

    def NamedTemporaryFile(self, *a, **k):
        self._tr.mut("mktemp", str(k.get("dir")))
        f = _tempfile.NamedTemporaryFile(*a, **k)
        self._tr.ops[-1].append(f.name)
        if k.get("delete", True):
            self._tr.unexpected.append("NamedTemporaryFile(delete=True)")
        return f


class TorchProxy:
    def __init__(self, tr):
        import torch
        self._tr = tr
        self._torch = torch

    def __getattr__(self, name):
        return getattr(self._torch, name)

    def save(self, obj, f, *a, **k):
        name = getattr(f, "name", None) if not isinstance(f, (str, bytes)) else f
        torn = self._tr.mut("write", str(name), tearable=True)
        if torn:
            import io
            b = io.BytesIO()
            self._torch.save(obj, b, *a, **k)
            data = b.getvalue()
            if isinstance(f, (str, bytes)):
                with builtins.open(f, "wb") as g:
                    g.write(data[: len(data) // 2])
            else:
                f.write(data[: len(data) // 2])
                f.flush()
            raise Crash()
        return self._torch.save(obj, f, *a, **k)


class _AppendFile:
    """Text file opened for append/write: every write() is a mutating call that reaches the disk at once."""

    def __init__(self, tr, real, path):
        self._tr, self._real, self._path = tr, real, path
        self._closed = False

    def write(self, s):
        # a data row can be torn; the header line (first field "epoch") is atomic in the model
        torn = self._tr.mut("hwrite", str(self._path), s, tearable=not s.startswith("epoch,"))
        if torn:
            self._real.write(s[: len(s) // 2])
            self._real.flush()
            raise Crash()
        self._real.write(s)
        self._real.flush()
        return len(s)

    def writelines(self, ls):
        for s in ls:
            self.write(s)

    def flush(self):
        pass

    def close(self):
        if self._closed:
            return
        self._closed = True
        self._real.close()

    def __enter__(self):
        return self

    def __exit__(self, *exc):
        self.close()
        return False


def make_open(tr):
    def _open(path, mode="r", *a, **k):
        if any(c in mode for c in "wax+"):
            tr.mut("open_" + mode.replace("t", ""), str(path), _os.path.exists(path))
            real = builtins.open(path, mode, *a, **k)
            if "b" in mode or "+" in mode:
                # a way of writing the model knows nothing about: reported, and left to work as it is
                tr.unexpected.append(f"open({mode})")
                return real
            return _AppendFile(tr, real, path)
        return builtins.open(path, mode, *a, **k)
    return _open


@contextlib.contextmanager
def instrumented(tr):
    """Shadow training.os / tempfile / open / torch with proxies bound to tracer `tr`."""
    from pydrobert.torch import training
    saved = {k: training.__dict__.get(k, _MISSING) for k in ("os", "tempfile", "open", "torch")}
    try:
        training.os = OsProxy(tr)
        training.tempfile = TempfileProxy(tr)
        training.open = make_open(tr)
        training.torch = TorchProxy(tr)
        yield training
    finally:
        for k, v in saved.items():
            if v is _MISSING:
                training.__dict__.pop(k, None)
            else:
                setattr(training, k, v)


_MISSING = object()
