"""C14 — batching loses nothing: buckets, loaders and collation preserve every utterance.

Streams (``case["kind"]``):

* ``sampler``  — the real ``BucketBatchSampler`` (+ ``_get_batch_sampler_len``) driven directly
  with arbitrary ``idx2bucket`` / ``bucket2size`` maps over arbitrary sampler orders
  (exhaustive for small sizes, plus a malformed stream: missing keys, size 0).
* ``params``   — ``_get_bucket_batch_sampler_params`` on arbitrary length lists.
* ``window``   — ``extract_window`` (exhaustive for small T / left / right).
* ``lang`` / ``spect`` / ``cw`` — the three collate functions called directly.
* ``loader``   — real data directories written to a temp dir, the real loaders
  (SpectDataLoader, LangDataLoader, ContextWindowDataLoader and the four deprecated classes)
  iterated for several epochs with ``num_workers=0``, optionally under a simulated process
  group; the Lean model gets the epoch orderings from an independent sampler object.
"""
import atexit
import contextlib
import itertools
import os
import shutil
import tempfile
import warnings

from common.framework import PropertyCheck

PAD = -100          # config.INDEX_PAD_VALUE (asserted at run time)
F = 2               # feature width of the generated data sets


# ------------------------------------------------------------------------------ helpers
@contextlib.contextmanager
def fake_dist(rank, world):
    import torch.distributed as d
    saved = {k: getattr(d, k) for k in ("is_available", "is_initialized", "get_rank", "get_world_size")}
    try:
        if world:
            d.is_available = lambda: True
            d.is_initialized = lambda *a, **k: True
            d.get_rank = lambda *a, **k: rank
            d.get_world_size = lambda *a, **k: world
        else:
            d.is_initialized = lambda *a, **k: False
        yield
    finally:
        for k, v in saved.items():
            setattr(d, k, v)


class ListSampler:
    """A sampler with the interface `_get_batch_sampler_len` needs, yielding a fixed order."""

    def __init__(self, order):
        self.order = list(order)
        self.epoch = 0

    def get_samples_for_epoch(self, epoch):
        return iter(self.order)

    def __iter__(self):
        self.epoch += 1
        return iter(self.order)

    def __len__(self):
        return len(self.order)


def is_subsequence(b, order):
    it = iter(order)
    return all(any(x == y for y in it) for x in b)


def multiset(xs):
    return sorted(xs)


_ROOT = None
_DIRS = {}


def _root():
    global _ROOT
    if _ROOT is None:
        _ROOT = tempfile.mkdtemp(prefix="c14_")
        atexit.register(shutil.rmtree, _ROOT, True)
    return _ROOT


def utt_id(i):
    return f"u{i:02d}"


def feat_of(i, T):
    return [[1000 * (i + 1) + F * t + f for f in range(F)] for t in range(T)]


def ali_of(i, T):
    return [1000 * (i + 1) + t for t in range(T)]


def ref_of(i, R, two_d):
    if two_d:
        return [[1000 * (i + 1) + r, r, r + 1] for r in range(R)]
    return [1000 * (i + 1) + r for r in range(R)]


def dataset_dir(lens, rlens, two_d, with_ali, with_ref):
    """A SpectDataSet directory (feat/, ali/, ref/); cached per run."""
    import torch
    key = (tuple(lens), tuple(rlens), two_d, with_ali, with_ref)
    if key in _DIRS:
        return _DIRS[key]
    d = os.path.join(_root(), f"ds{len(_DIRS)}")
    os.makedirs(os.path.join(d, "feat"))
    if with_ali:
        os.makedirs(os.path.join(d, "ali"))
    os.makedirs(os.path.join(d, "ref"))
    for i, (T, R) in enumerate(zip(lens, rlens)):
        torch.save(torch.tensor(feat_of(i, T), dtype=torch.float).view(T, F), f"{d}/feat/{utt_id(i)}.pt")
        if with_ali:
            torch.save(torch.tensor(ali_of(i, T), dtype=torch.long), f"{d}/ali/{utt_id(i)}.pt")
        if with_ref:
            r = torch.tensor(ref_of(i, R, two_d), dtype=torch.long)
            if two_d:
                r = r.view(R, 3)
            torch.save(r, f"{d}/ref/{utt_id(i)}.pt")
    _DIRS[key] = d
    return d


def tolist_int(t):
    """Tensor -> nested list of Python ints (values are integer valued by construction)."""
    import torch
    return t.to(torch.long).tolist()


def sub_order(case, e):
    """The sample order the loader's sampler yields in epoch `e` for this rank, from an
    independent sampler object (C13 checks that object against its own model)."""
    from pydrobert.torch.data import EpochRandomSampler, EpochSequentialSampler
    N = len(case["lens"])
    cls = case["cls"]
    mode = "ignore" if cls.startswith("cw") else ("drop" if case["drop"] else case["uneven"])
    with fake_dist(case.get("rank", 0), case.get("world", 0)):
        if shuffle_of(case):
            s = EpochRandomSampler(list(range(N)), e, case["seed"], mode)
        else:
            s = EpochSequentialSampler(list(range(N)), e, mode)
        return [int(x) for x in s.get_samples_for_epoch(e)]


def shuffle_of(case):
    return bool(case["shuffle"])


def key_lens(case):
    """The lengths the loader buckets/sorts by."""
    return case["rlens"] if case["cls"] == "lang" else case["lens"]


# ------------------------------------------------------------------------------ the check
class C14(PropertyCheck):
    pid = "C14"
    rule = ("streams: sampler (BucketBatchSampler driven directly; exhaustive over n<=4 indices x 3 buckets x "
            "sizes 1..3 x drop, random larger, malformed maps), params (_get_bucket_batch_sampler_params on "
            "length lists with ties), window (extract_window exhaustive T<=4, left/right<=3), lang/spect/cw "
            "(collate functions, every flag), loader (data sets of 0..10 utterances in a temp dir, all loader "
            "classes, several epochs, num_workers=0, optional simulated world size). non-trivial: >= 2 buckets "
            "in use or an incomplete batch (sampler/loader), a padded row (collate), an edge-padded window; "
            "distinct by the case dict")
    assumptions = [
        "torch.distributed simulated by patching is_available/is_initialized/get_rank/get_world_size",
        "epoch orderings taken from an independent EpochRandomSampler/EpochSequentialSampler object (C13)",
        "torch.nn.utils.rnn.pad_sequence, torch.cat, torch.flip, torch.utils.data.BatchSampler at their documented meaning",
        "integer-valued features so float32 is exact; num_workers=0 (worker processes not modelled)",
        "size_batch_by_length with a zero-length bucket bound: ZeroDivisionError is a listed known finding",
    ]
    exhaustive = {"quick": False, "thorough": False}
    quick_budget_s = 200
    thorough_budget_s = 1500

    # ================================================================== generators
    def cases(self, rng, tier):
        yield from self.hand_cases()
        yield from self.sampler_cases(rng, tier)
        yield from self.window_cases(rng, tier)
        yield from self.params_cases(rng, tier)
        yield from self.collate_cases(rng, tier)
        yield from self.loader_cases(rng, tier)

    def hand_cases(self):
        # the docstring example
        N = 14
        for drop in (True, False):
            yield {"kind": "sampler", "order": list(range(N)), "i2b": [[n, int(n % 3 == 0)] for n in range(N)],
                   "b2s": [[0, 2], [1, 2]], "drop": drop}

    def sampler_cases(self, rng, tier):
        nmax = {"quick": 4, "thorough": 5, "search": 5}[tier]
        for n in range(0, nmax + 1):
            for assign in itertools.product(range(3), repeat=n):
                used = sorted(set(assign))
                for sizes in itertools.product((1, 2, 3), repeat=len(used)):
                    for drop in (False, True):
                        yield {"kind": "sampler", "order": list(range(n)),
                               "i2b": [[i, 10 * b] for i, b in enumerate(assign)],
                               "b2s": [[10 * b, s] for b, s in zip(used, sizes)], "drop": drop}
        nrand = {"quick": 300, "thorough": 4000, "search": 3000}[tier]
        for _ in range(nrand):
            n = rng.randrange(0, 14)
            nb = rng.randrange(1, 5)
            ids = rng.sample(range(0, 40), n)
            order = list(ids)
            if n and rng.random() < 0.15:          # a sampler may repeat an index
                order += [rng.choice(ids) for _ in range(rng.randrange(1, 4))]
            rng.shuffle(order)
            bids = rng.sample(range(0, 9), nb)
            i2b = [[i, rng.choice(bids)] for i in ids]
            b2s = [[b, rng.randrange(1, 6)] for b in bids]
            rng.shuffle(b2s)
            case = {"kind": "sampler", "order": order, "i2b": i2b, "b2s": b2s, "drop": rng.random() < 0.5}
            r = rng.random()
            if r < 0.06 and i2b:
                case["i2b"] = i2b[:-1]
                case["malformed"] = "idx2bucket misses an index"
            elif r < 0.12:
                case["b2s"] = b2s[:-1]
                case["malformed"] = "bucket2size misses a bucket"
            elif r < 0.18:
                case["b2s"] = [[b, 0] if k == 0 else [b, s] for k, (b, s) in enumerate(b2s)]
                case["malformed"] = "a bucket size of 0"
            yield case

    def window_cases(self, rng, tier):
        tmax, cmax = (4, 3) if tier == "quick" else (6, 4)
        for T in range(1, tmax + 1):
            feat = [[10 * t + 1, 10 * t + 2] for t in range(T)]
            for frame in range(T):
                for left in range(cmax + 1):
                    for right in range(cmax + 1):
                        for rev in (False, True):
                            yield {"kind": "window", "feat": feat, "frame": frame, "left": left,
                                   "right": right, "reverse": rev}

    def params_cases(self, rng, tier):
        if tier == "quick":
            nmax, vals = 5, (1, 2, 3)
        else:
            nmax, vals = 6, (1, 2, 3, 5)
        for n in range(0, nmax + 1):
            for lens in itertools.combinations_with_replacement(vals, n):
                for nb in (2, 3, 4):
                    for B, dyn in ((1, False), (2, True)):
                        yield {"kind": "params", "lens": list(lens), "nb": nb, "B": B, "dynamic": dyn}
        for _ in range({"quick": 200, "thorough": 3000, "search": 2000}[tier]):
            n = rng.randrange(0, 14)
            hi = rng.choice((2, 4, 9, 30))
            lo = 0 if rng.random() < 0.1 else 1
            lens = [rng.randrange(lo, hi + 1) for _ in range(n)]
            yield {"kind": "params", "lens": lens, "nb": rng.randrange(2, 7), "B": rng.randrange(1, 6),
                   "dynamic": rng.random() < 0.5}

    def collate_cases(self, rng, tier):
        n = {"quick": 150, "thorough": 1500, "search": 1000}[tier]
        for _ in range(n):
            N = rng.randrange(1, 6)
            lens = [rng.choice((0, 1, 1, 2, 3, 3)) for _ in range(N)]
            rl = [rng.choice((0, 1, 2, 2, 4)) for _ in range(N)]
            yield {"kind": "lang", "rlens": rl, "two_d": rng.random() < 0.4, "sort": rng.random() < 0.5,
                   "batch_first": rng.random() < 0.5, "has_uttids": rng.random() < 0.5}
            ali = rng.choice(("all", "all", "none", "some"))
            ref = rng.choice(("all", "all", "none", "some"))
            yield {"kind": "spect", "lens": lens, "rlens": rl, "two_d": rng.random() < 0.4,
                   "ali": [ali == "all" or (ali == "some" and rng.random() < 0.6) for _ in range(N)],
                   "ref": [ref == "all" or (ref == "some" and rng.random() < 0.6) for _ in range(N)],
                   "sort": rng.random() < 0.5, "batch_first": rng.random() < 0.5,
                   "has_alis": rng.random() < 0.7, "has_uttids": rng.random() < 0.5}
            yield {"kind": "cw", "lens": lens, "C": rng.randrange(1, 4),
                   "ali": [ali != "none" and (ali == "all" or rng.random() < 0.6) for _ in range(N)],
                   "has_uttids": rng.random() < 0.5}

    LOADER_CLASSES = ("spect", "spect", "spect", "lang", "lang", "cw", "spect_train", "spect_eval",
                      "cw_train", "cw_eval")

    def length_sets(self, rng, tier):
        """Data sets of 0..10 utterances; ties at bucket boundaries, buckets smaller than a batch."""
        fixed = [[], [3], [2, 2], [1, 2, 3], [2, 2, 2, 2], [1, 1, 5, 5, 5], [4, 1, 3, 1, 2, 6],
                 [1, 1, 1, 1, 1, 9, 9, 9, 9, 9], [3, 1, 4, 1, 5, 9, 2, 6, 5, 3]]
        extra = 3 if tier == "quick" else 12
        for _ in range(extra):
            n = rng.randrange(0, 11)
            hi = rng.choice((2, 3, 6))
            fixed.append([rng.randrange(1, hi + 1) for _ in range(n)])
        return fixed

    def loader_cases(self, rng, tier):
        sets = self.length_sets(rng, tier)
        per_set = {"quick": 36, "thorough": 300, "search": 200}[tier]
        for lens in sets:
            N = len(lens)
            rl = [rng.randrange(1, 5) for _ in range(N)]
            if N >= 4 and rng.random() < 0.5:
                rl[1] = rl[0]
                rl[3] = rl[2]
            for _ in range(per_set):
                cls = rng.choice(self.LOADER_CLASSES)
                world = rng.choice((0, 0, 0, 2, 3)) if not cls.startswith("cw") else rng.choice((0, 0, 2))
                case = {
                    "kind": "loader", "cls": cls, "lens": lens, "rlens": rl,
                    "B": rng.choice((1, 2, 2, 3, 4, 11)), "nb": rng.choice((1, 2, 2, 3, 4)),
                    "dynamic": rng.random() < 0.4, "drop": rng.random() < 0.4,
                    "shuffle": rng.random() < 0.6, "sort": rng.random() < 0.5,
                    "batch_first": rng.random() < 0.5,
                    "suppress_uttids": rng.random() < 0.5, "suppress_alis": rng.random() < 0.5,
                    "tokens_only": rng.random() < 0.6, "two_d": rng.random() < 0.4,
                    "defaults": rng.random() < 0.25,
                    "seed": rng.randrange(1, 1000), "init_epoch": rng.choice((0, 0, 3)),
                    "epochs": rng.choice((1, 2, 3)), "world": world,
                    "rank": rng.randrange(world) if world else 0, "uneven": "uneven",
                    "left": rng.randrange(0, 3), "right": rng.randrange(0, 3), "reverse": rng.random() < 0.3,
                }
                if world and tier != "quick" and rng.random() < 0.3:
                    case["epochs"] = 6
                if cls.startswith("cw"):
                    case["nb"] = 1
                    case["dynamic"] = False
                yield case

    # ================================================================== implementation
    def run_impl(self, case):
        from pydrobert.torch import config
        assert config.INDEX_PAD_VALUE == PAD
        with warnings.catch_warnings():
            warnings.simplefilter("ignore")
            return getattr(self, "impl_" + case["kind"])(case)

    # ---- sampler
    def impl_sampler(self, case):
        from pydrobert.torch.data import BucketBatchSampler
        from pydrobert.torch._dataloaders import _get_batch_sampler_len
        bs = BucketBatchSampler(ListSampler(case["order"]), dict(map(tuple, case["i2b"])),
                                dict(map(tuple, case["b2s"])), case["drop"])
        try:
            ln = int(_get_batch_sampler_len(bs))
        except Exception as e:
            ln = {"err": type(e).__name__}
        out, err = [], None
        try:
            for b in bs:
                out.append([int(x) for x in b])
        except Exception as e:
            err = type(e).__name__
        again, err2 = [], None
        try:
            for b in bs:
                again.append([int(x) for x in b])
        except Exception as e:
            err2 = type(e).__name__
        return {"batches": out, "err": err, "len": ln, "repeatable": again == out and err == err2}

    # ---- params
    def impl_params(self, case):
        import torch
        from pydrobert.torch._dataloaders import _get_bucket_batch_sampler_params
        ds = [(torch.zeros(l, 1), None) for l in case["lens"]]
        try:
            i2b, b2s = _get_bucket_batch_sampler_params(ds, case["nb"], case["B"], case["dynamic"])
        except Exception as e:
            return {"err": type(e).__name__}
        if sorted(i2b) != list(range(len(ds))):
            return {"err": "idx2bucket keys " + str(sorted(i2b))}
        if sorted(b2s) != list(range(len(b2s))):
            return {"err": "bucket2size keys " + str(sorted(b2s))}
        return {"idx2bucket": [int(i2b[i]) for i in range(len(ds))], "sizes": [int(b2s[j]) for j in range(len(b2s))]}

    # ---- window
    def impl_window(self, case):
        import torch
        from pydrobert.torch.data import extract_window
        feat = torch.tensor(case["feat"], dtype=torch.float)
        w = extract_window(feat, case["frame"], case["left"], case["right"], case["reverse"])
        return {"window": tolist_int(w), "shape": list(w.shape)}

    # ---- collate functions
    def lang_items(self, case):
        return [(ref_of(i, R, case["two_d"]), utt_id(i)) for i, R in enumerate(case["rlens"])]

    def impl_lang(self, case):
        import torch
        from pydrobert.torch.data import lang_seq_to_batch
        W = 3 if case["two_d"] else None
        seq = []
        for ref, uid in self.lang_items(case):
            t = torch.tensor(ref, dtype=torch.long)
            if W:
                t = t.view(len(ref), 3)
            seq.append((t, uid) if case["has_uttids"] else t)
        out = lang_seq_to_batch(seq, case["batch_first"], case["sort"], case["has_uttids"])
        if case["has_uttids"]:
            refs, sizes, ids = out
            ids = list(ids)
        else:
            (refs, sizes), ids = out, None
        return {"refs": refs.tolist(), "sizes": sizes.tolist(), "ids": ids, "shape": list(refs.shape)}

    def spect_items(self, case):
        items = []
        for i, (T, R) in enumerate(zip(case["lens"], case["rlens"])):
            items.append({"feat": feat_of(i, T),
                          "ali": ali_of(i, T) if (case["has_alis"] and case["ali"][i]) else None,
                          "ref": ref_of(i, R, case["two_d"]) if case["ref"][i] else None,
                          "id": utt_id(i)})
        return items

    def impl_spect(self, case):
        import torch
        from pydrobert.torch.data import spect_seq_to_batch
        seq = []
        for it in self.spect_items(case):
            T = len(it["feat"])
            tup = [torch.tensor(it["feat"], dtype=torch.float).view(T, F)]
            if case["has_alis"]:
                tup.append(None if it["ali"] is None else torch.tensor(it["ali"], dtype=torch.long))
            if it["ref"] is None:
                tup.append(None)
            else:
                r = torch.tensor(it["ref"], dtype=torch.long)
                tup.append(r.view(len(it["ref"]), 3) if case["two_d"] else r)
            if case["has_uttids"]:
                tup.append(it["id"])
            seq.append(tuple(tup))
        out = list(spect_seq_to_batch(seq, case["batch_first"], case["sort"], case["has_alis"],
                                      case["has_uttids"]))
        ids = list(out.pop()) if case["has_uttids"] else None
        if case["has_alis"]:
            feats, alis, refs, fs, rs = out
        else:
            (feats, refs, fs, rs), alis = out, None
        return {"feats": tolist_int(feats), "alis": None if alis is None else alis.tolist(),
                "refs": None if refs is None else refs.tolist(), "feat_sizes": fs.tolist(),
                "ref_sizes": None if rs is None else rs.tolist(), "ids": ids,
                "n_members": len(out) + (1 if ids is not None else 0)}

    def cw_items(self, case):
        C = case["C"]
        items = []
        for i, T in enumerate(case["lens"]):
            win = [[[1000 * (i + 1) + 100 * t + 10 * c + f for f in range(F)] for c in range(C)] for t in range(T)]
            items.append({"win": win, "ali": ali_of(i, T) if case["ali"][i] else None, "id": utt_id(i)})
        return items

    def impl_cw(self, case):
        import torch
        from pydrobert.torch.data import context_window_seq_to_batch
        seq = []
        for it in self.cw_items(case):
            T = len(it["win"])
            tup = [torch.tensor(it["win"], dtype=torch.float).view(T, case["C"], F),
                   None if it["ali"] is None else torch.tensor(it["ali"], dtype=torch.long)]
            if case["has_uttids"]:
                tup.append(it["id"])
            seq.append(tuple(tup))
        out = context_window_seq_to_batch(seq, case["has_uttids"])
        res = {"windows": tolist_int(out[0]), "alis": None if out[1] is None else out[1].tolist()}
        if case["has_uttids"]:
            res["sizes"] = out[2].tolist()
            res["ids"] = list(out[3])
        return res

    # ---- loaders
    def build_loader(self, case, init_epoch):
        from pydrobert.torch import data
        cls = case["cls"]
        two_d = case["two_d"]
        d = dataset_dir(case["lens"], case["rlens"], two_d, True, True)
        common = {"num_workers": 0}
        if cls == "lang":
            p = data.LangDataLoaderParams(batch_size=case["B"], num_length_buckets=case["nb"],
                                          size_batch_by_length=case["dynamic"], drop_last=case["drop"])
            kw = {} if case["defaults"] else {"suppress_uttids": case["suppress_uttids"],
                                              "tokens_only": case["tokens_only"]}
            return data.LangDataLoader(os.path.join(d, "ref"), p, shuffle=case["shuffle"],
                                       batch_first=case["batch_first"], sort_batch=case["sort"],
                                       init_epoch=init_epoch, on_uneven_distributed=case["uneven"],
                                       seed=case["seed"], **kw, **common)
        if cls.startswith("spect"):
            p = data.SpectDataLoaderParams(batch_size=case["B"], num_length_buckets=case["nb"],
                                           size_batch_by_length=case["dynamic"], drop_last=case["drop"])
            kw = {} if case["defaults"] else {"suppress_uttids": case["suppress_uttids"],
                                              "suppress_alis": case["suppress_alis"],
                                              "tokens_only": case["tokens_only"]}
            if cls == "spect":
                return data.SpectDataLoader(d, p, shuffle=case["shuffle"], batch_first=case["batch_first"],
                                            sort_batch=case["sort"], init_epoch=init_epoch,
                                            on_uneven_distributed=case["uneven"], seed=case["seed"],
                                            **kw, **common)
            kw.update(shuffle=case["shuffle"], sort_batch=case["sort"],
                      on_uneven_distributed=case["uneven"])
            if cls == "spect_train":
                return data.SpectTrainingDataLoader(d, p, init_epoch=init_epoch, batch_first=case["batch_first"],
                                                    seed=case["seed"], **kw, **common)
            return data.SpectEvaluationDataLoader(d, p, init_epoch=init_epoch, batch_first=case["batch_first"],
                                                  seed=case["seed"], **kw, **common)
        p = data.ContextWindowDataLoaderParams(batch_size=case["B"], drop_last=case["drop"],
                                               context_left=case["left"], context_right=case["right"],
                                               reverse=case["reverse"])
        kw = {} if case["defaults"] else {"suppress_uttids": case["suppress_uttids"]}
        if cls == "cw":
            return data.ContextWindowDataLoader(d, p, shuffle=case["shuffle"], init_epoch=init_epoch,
                                                seed=case["seed"], **kw, **common)
        kw["shuffle"] = case["shuffle"]
        if cls == "cw_train":
            return data.ContextWindowTrainingDataLoader(d, p, init_epoch=init_epoch, seed=case["seed"],
                                                        **kw, **common)
        return data.ContextWindowEvaluationDataLoader(d, p, init_epoch=init_epoch, seed=case["seed"],
                                                      **kw, **common)

    def canon_batch(self, case, loader, batch):
        """-> {"rows": [utterance index per row], problems: [...]} ; checks losslessness of the
        collation against the data set contents (cut back to reported size == original tensor,
        padding cells == pad value, ids attached to their rows)."""
        cls = case["cls"]
        ds = loader.dataset
        probs = []
        if cls.startswith("cw"):
            return self.canon_cw(case, ds, batch)
        has_ids = not ds.suppress_uttids
        batch = list(batch)
        ids = list(batch.pop()) if has_ids else None
        if cls == "lang":
            refs, rsizes = batch
            feats = fsizes = alis = None
            has_alis = False
            two_d = not ds.tokens_only and case["two_d"]
        else:
            has_alis = not ds.suppress_alis
            if has_alis:
                feats, alis, refs, fsizes, rsizes = batch
            else:
                (feats, refs, fsizes, rsizes), alis = batch, None
            two_d = not ds.tokens_only and case["two_d"]
        bf = loader.batch_first

        def rows_of(t):
            return t if bf else t.transpose(0, 1)
        key = rows_of(refs) if cls == "lang" else rows_of(feats)
        sizes = rsizes if cls == "lang" else fsizes
        n_rows = key.size(0)
        if sizes.numel() != n_rows:
            probs.append(f"{sizes.numel()} sizes for {n_rows} rows")
        if n_rows and key.size(1) != int(sizes.max()):
            probs.append(f"padded length {key.size(1)} != longest reported size {int(sizes.max())}")
        rows = []
        for n in range(n_rows):
            # which utterance is this row? from its content (first cell), cross-checked with the id
            sz = int(sizes[n])
            if sz > 0:
                first = key[n][0]
                i = int(first.flatten()[0].item()) // 1000 - 1
            elif ids is not None:
                i = int(ids[n][1:])
            else:
                i = -1
            rows.append(i)
            if ids is not None and (i < 0 or ids[n] != utt_id(i)):
                probs.append(f"row {n} holds utterance {i} but carries id {ids[n]}")
            if i < 0 or i >= len(case["lens"]):
                probs.append(f"row {n}: unidentifiable content")
                continue
            T, R = case["lens"][i], case["rlens"][i]
            if cls != "lang":
                f = rows_of(feats)[n]
                if int(fsizes[n]) != T or tolist_int(f[:T]) != feat_of(i, T):
                    probs.append(f"row {n}: feats cut to its size != utterance {i}")
                if bool((f[int(fsizes[n]):] != 0).any()):
                    probs.append(f"row {n}: feature padding is not 0")
                if has_alis:
                    if alis is None:
                        probs.append("alis missing although every utterance has one")
                    else:
                        a = rows_of(alis)[n]
                        if a[:T].tolist() != ali_of(i, T):
                            probs.append(f"row {n}: alis cut to its size != utterance {i}")
                        if bool((a[T:] != PAD).any()):
                            probs.append(f"row {n}: ali padding is not {PAD}")
            if refs is None:
                probs.append("refs missing although every utterance has one")
            else:
                r = rows_of(refs)[n]
                if int(rsizes[n]) != R or r[:R].tolist() != ref_of(i, R, two_d):
                    probs.append(f"row {n}: refs cut to its size != utterance {i}")
                if bool((r[int(rsizes[n]):] != PAD).any()):
                    probs.append(f"row {n}: ref padding is not {PAD}")
        return {"rows": rows, "problems": probs, "has_ids": ids is not None}

    def canon_cw(self, case, ds, batch):
        import torch
        probs = []
        has_ids = not ds.suppress_uttids
        if has_ids:
            windows, alis, wsizes, ids = batch
            ids = list(ids)
        else:
            (windows, alis), wsizes, ids = batch, None, None
        left, right, rev = case["left"], case["right"], case["reverse"]
        C = 1 + left + right
        if windows.dim() != 3 or windows.size(1) != C or windows.size(2) != F:
            probs.append(f"windows shape {list(windows.shape)}")
            return {"rows": [], "problems": probs, "has_ids": has_ids}
        # utterance of every window row, from the centre frame's content
        centre = (C - 1 - left) if rev else left
        owners = [int(windows[k, centre, 0].item()) // 1000 - 1 for k in range(windows.size(0))]
        rows = [k for k, _ in itertools.groupby(owners)]
        pos = 0
        for n, i in enumerate(rows):
            if i < 0 or i >= len(case["lens"]):
                probs.append(f"group {n}: unidentifiable content")
                break
            T = case["lens"][i]
            feat = feat_of(i, T)
            exp = [[feat[min(max(t - left + c, 0), T - 1)] for c in range(C)] for t in range(T)]
            if rev:
                exp = [w[::-1] for w in exp]
            got = tolist_int(windows[pos:pos + T])
            if got != exp:
                probs.append(f"group {n}: windows of utterance {i} are not feat[clamp(t-left+c)]")
            if alis is None:
                probs.append("alis missing although every utterance has one")
            elif alis[pos:pos + T].tolist() != ali_of(i, T):
                probs.append(f"group {n}: alis != utterance {i}")
            if has_ids:
                if n >= len(ids) or ids[n] != utt_id(i) or int(wsizes[n]) != T:
                    probs.append(f"group {n}: id/size not attached to utterance {i}")
            pos += T
        if pos != windows.size(0):
            probs.append("window count does not add up")
        if has_ids and len(ids) != len(rows):
            probs.append(f"{len(ids)} ids for {len(rows)} utterances")
        return {"rows": rows, "problems": probs, "has_ids": has_ids}

    def impl_loader(self, case):
        W, rank = case.get("world", 0), case.get("rank", 0)
        e0, k = case["init_epoch"], case["epochs"]
        with fake_dist(rank, W):
            loader = self.build_loader(case, e0)
            obs = {"epochs": [], "n_utts": len(loader.dataset)}
            for _ in range(k):
                lb = len(loader)
                bs = [self.canon_batch(case, loader, b) for b in loader]
                la = len(loader)
                obs["epochs"].append({
                    "len_before": lb, "len_after": la, "rows": [b["rows"] for b in bs],
                    "problems": [p for b in bs for p in b["problems"]][:5],
                    "has_ids": [b["has_ids"] for b in bs][:1]})
            obs["epoch_attr"] = int(loader.epoch)
            # identical (seed, epoch) => identical batches: a fresh loader started at the last epoch ...
            l2 = self.build_loader(case, e0 + k - 1)
            obs["direct_last"] = [self.canon_batch(case, l2, b)["rows"] for b in l2]
            # ... and the same object rewound to the first
            loader.epoch = e0
            obs["rewound_first"] = [self.canon_batch(case, loader, b)["rows"] for b in loader]
        return obs

    # ================================================================== model requests
    def model_request(self, case):
        k = case["kind"]
        if k == "sampler":
            return {"op": "c14.bucket", "case": {x: case[x] for x in ("order", "i2b", "b2s", "drop")}}
        if k == "params":
            return {"op": "c14.params", "case": {x: case[x] for x in ("lens", "nb", "B", "dynamic")}}
        if k == "window":
            return {"op": "c14.window", "case": {x: case[x] for x in ("feat", "frame", "left", "right", "reverse")}}
        if k == "lang":
            items = [{"ref": r if case["two_d"] else [[t] for t in r], "id": u} for r, u in self.lang_items(case)]
            return {"op": "c14.collate_lang", "case": {"items": items, "sort": case["sort"], "pad": PAD,
                                                       "width": 3 if case["two_d"] else 1}}
        if k == "spect":
            items = []
            for it in self.spect_items(case):
                items.append({"feat": it["feat"], "id": it["id"],
                              "ali": None if it["ali"] is None else [[a] for a in it["ali"]],
                              "ref": None if it["ref"] is None else (
                                  it["ref"] if case["two_d"] else [[t] for t in it["ref"]])})
            return {"op": "c14.collate_spect", "case": {"items": items, "sort": case["sort"], "pad": PAD,
                                                        "F": F, "W": 3 if case["two_d"] else 1}}
        if k == "cw":
            items = [{"win": [[c for c in w] for w in it["win"]], "ali": it["ali"], "id": it["id"]}
                     for it in self.cw_items(case)]
            # one window (C x F) travels as a row list of C rows; the model treats it as opaque
            return {"op": "c14.collate_cw", "case": {"items": [
                {"win": [[x for row in w for x in row] for w in it["win"]], "ali": it["ali"], "id": it["id"]}
                for it in items]}}
        if k == "loader":
            e0, n = case["init_epoch"], case["epochs"]
            orders = [sub_order(case, e) for e in range(e0, e0 + n + 1)]
            return {"op": "c14.loader", "case": {
                "lens": key_lens(case), "nb": case["nb"], "B": case["B"], "dynamic": case["dynamic"],
                "drop": case["drop"], "sort": case["sort"] and not case["cls"].startswith("cw"),
                "orders": orders}}
        return None

    # ================================================================== correspondence
    def compare(self, case, impl, model):
        k = case["kind"]
        if k == "loader":
            return self.compare_loader(case, impl, model)
        if "error" in impl:
            return [f"implementation raised {impl['error']}: {impl.get('message')}"]
        out = []
        if k == "sampler":
            for f in ("batches", "err", "len"):
                if impl[f] != model[f]:
                    out.append(f"{f}: impl={impl[f]} model={model[f]}")
        elif k == "params":
            if "err" in impl or "err" in model:
                if impl.get("err") != model.get("err"):
                    out.append(f"impl={impl} model={model}")
            else:
                for f in ("idx2bucket", "sizes"):
                    if impl[f] != model[f]:
                        out.append(f"{f}: impl={impl[f]} model={model[f]}")
        elif k == "window":
            if impl["window"] != model["model"]:
                out.append(f"window: impl={impl['window']} model={model['model']}")
        elif k == "lang":
            m = model["refs"] if case["batch_first"] else model["refs_tf"]
            if not case["two_d"]:
                m = [[c[0] for c in r] for r in m]
            if impl["refs"] != m:
                out.append(f"refs: impl={impl['refs']} model={m}")
            if impl["sizes"] != model["sizes"]:
                out.append(f"sizes: impl={impl['sizes']} model={model['sizes']}")
            if impl["ids"] is not None and impl["ids"] != model["ids"]:
                out.append(f"ids: impl={impl['ids']} model={model['ids']}")
        elif k == "spect":
            sfx = "" if case["batch_first"] else "_tf"
            mf = model["feats" + sfx]
            if impl["feats"] != mf:
                out.append(f"feats: impl={impl['feats']} model={mf}")
            ma = model["alis" + sfx] if case["has_alis"] else None
            if ma is not None:
                ma = [[c[0] for c in r] for r in ma]
            if impl["alis"] != ma:
                out.append(f"alis: impl={impl['alis']} model={ma}")
            mr = model["refs" + sfx]
            if mr is not None and not case["two_d"]:
                mr = [[c[0] for c in r] for r in mr]
            if impl["refs"] != mr:
                out.append(f"refs: impl={impl['refs']} model={mr}")
            for f in ("feat_sizes", "ref_sizes"):
                if impl[f] != model[f]:
                    out.append(f"{f}: impl={impl[f]} model={model[f]}")
            if impl["ids"] is not None and impl["ids"] != model["ids"]:
                out.append(f"ids: impl={impl['ids']} model={model['ids']}")
        elif k == "cw":
            C = case["C"]
            mw = [[w[c * F:(c + 1) * F] for c in range(C)] for w in model["windows"]]
            if impl["windows"] != mw:
                out.append(f"windows: impl={impl['windows']} model={mw}")
            if impl["alis"] != model["alis"]:
                out.append(f"alis: impl={impl['alis']} model={model['alis']}")
            if case["has_uttids"] and (impl["sizes"] != model["sizes"] or impl["ids"] != model["ids"]):
                out.append(f"sizes/ids: impl={impl['sizes']},{impl['ids']} model={model['sizes']},{model['ids']}")
        return out

    def compare_loader(self, case, impl, model):
        if "error" in impl:
            if "err" in model and impl["error"] == model["err"]:
                return []
            return [f"implementation raised {impl['error']}: {impl.get('message')}; model={short(model)}"]
        if "err" in model:
            return [f"model fails with {model['err']}, implementation built a loader"]
        out = []
        if impl["n_utts"] != len(case["lens"]):
            out.append(f"data set has {impl['n_utts']} utterances, directory {len(case['lens'])}")
        for j, (a, b) in enumerate(zip(impl["epochs"], model["epochs"])):
            if a["rows"] != b["rows"]:
                out.append(f"epoch {j}: batches impl={a['rows']} model={b['rows']}")
            if a["len_before"] != b["len"]:
                out.append(f"epoch {j}: len() before the epoch impl={a['len_before']} model={b['len']}")
            nxt = model["epochs"][j + 1]["len"]
            if a["len_after"] != nxt:
                out.append(f"epoch {j}: len() after the epoch impl={a['len_after']} model={nxt}")
        if impl["epoch_attr"] != case["init_epoch"] + case["epochs"]:
            out.append(f"loader.epoch = {impl['epoch_attr']} after {case['epochs']} epochs from {case['init_epoch']}")
        return out

    # ================================================================== the property itself
    def predicate(self, case, impl, model):
        k = case["kind"]
        fn = getattr(self, "pred_" + k)
        return fn(case, impl, model)

    @staticmethod
    def check_batches(batches, order, bucket_of, spec, drop, where=""):
        """The sampler clauses of the property on a list of index batches, with the Lean spec
        (per bucket: full chunks in order + rest) as oracle."""
        fails = []
        by_bucket = {}
        for b in batches:
            hs = {bucket_of(x) for x in b}
            if len(hs) != 1:
                fails.append((f"{where}batch {b} mixes buckets {sorted(hs)}" if b else f"{where}empty batch",
                              "C14.batch.mixed"))
                continue
            if not is_subsequence(b, order):
                fails.append((f"{where}batch {b} is not in sampler order", "C14.batch.order"))
            by_bucket.setdefault(hs.pop(), []).append(b)
        seen = set()
        for sp in spec:
            if sp is None:
                continue
            h = sp["bucket"]
            seen.add(h)
            want = list(sp["full"])
            if not drop and sp["rest"]:
                want.append(sp["rest"])
            got = by_bucket.get(h, [])
            if got != want:
                fails.append((f"{where}bucket {h} (size {sp['size']}): batches {got}, expected {want}"
                              + (f" (and only {sp['rest']} dropped)" if drop else ""), "C14.bucket.chunks"))
        for h in by_bucket:
            if h not in seen:
                fails.append((f"{where}batches of an unknown bucket {h}", "C14.bucket.unknown"))
        exp_all = multiset([x for sp in spec if sp for c in sp["full"] for x in c]
                           + ([] if drop else [x for sp in spec if sp for x in sp["rest"]]))
        if multiset([x for b in batches for x in b]) != exp_all:
            fails.append((f"{where}indices delivered != indices expected", "C14.cover"))
        return fails

    def pred_sampler(self, case, impl, model):
        if "error" in impl:
            return [(f"harness-level exception {impl['error']}: {impl.get('message')}", None)]
        i2b, b2s = dict(map(tuple, case["i2b"])), dict(map(tuple, case["b2s"]))
        wellformed = all(x in i2b and i2b[x] in b2s and b2s[i2b[x]] > 0 for x in case["order"])
        if not wellformed:
            if impl["err"] is None:
                return [("ill-formed maps accepted silently: " + case.get("malformed", "?"), "C14.malformed.accepted")]
            return []
        fails = []
        if impl["err"] is not None:
            return [(f"iteration raised {impl['err']} on well-formed maps", "C14.sampler.raises")]
        fails += self.check_batches(impl["batches"], case["order"], lambda x: i2b[x], model["spec"], case["drop"])
        if impl["len"] != len(impl["batches"]):
            fails.append((f"_get_batch_sampler_len = {impl['len']} but {len(impl['batches'])} batches yielded",
                          "C14.len"))
        if not impl["repeatable"]:
            fails.append(("a second iteration over the same order differs", "C14.repeat"))
        return fails

    def pred_params(self, case, impl, model):
        if "error" in impl:
            return [(f"harness-level exception {impl['error']}: {impl.get('message')}", None)]
        lens, B = case["lens"], case["B"]
        if "err" in impl:
            if impl["err"] == "ZeroDivisionError" and case["dynamic"] and 0 in lens:
                # known finding: the documented formula has no value for a zero-length bucket bound
                return [(f"size_batch_by_length with zero-length utterances raises ZeroDivisionError (lens={lens})",
                         "C14.dynamic.zero_length_bound")]
            return [(f"_get_bucket_batch_sampler_params raised {impl['err']} (lens={lens})",
                     "C14.params.raises." + impl["err"])]
        fails = []
        i2b, sizes = impl["idx2bucket"], impl["sizes"]
        if any(b >= len(sizes) for b in i2b):
            fails.append(("a bucket id without a size", "C14.params.nosize"))
            return fails
        for a in range(len(lens)):
            for b in range(len(lens)):
                if lens[a] <= lens[b] and i2b[a] > i2b[b]:
                    fails.append((f"length classes are mixed: len {lens[a]} -> bucket {i2b[a]}, "
                                  f"len {lens[b]} -> bucket {i2b[b]}", "C14.pure"))
        Y = max(lens) if lens else 0
        for j, s in enumerate(sizes):
            members = [lens[i] for i in range(len(lens)) if i2b[i] == j]
            if not members:
                fails.append((f"bucket {j} is empty", "C14.params.empty"))
                continue
            if s < B:
                fails.append((f"bucket {j}: size {s} < batch_size {B}", "C14.params.size"))
            if case["dynamic"]:
                y = max(members)
                if not (s * y <= Y * B < (s + 1) * y):
                    fails.append((f"bucket {j}: size {s} is not the greatest x with x*{y} <= {Y}*{B}",
                                  "C14.params.dynamic"))
            elif s != B:
                fails.append((f"bucket {j}: size {s} != batch_size {B}", "C14.params.size"))
        if "bounds" in model:
            bd = model["bounds"]
            for i, l in enumerate(lens):
                j = i2b[i]
                lo = bd[j - 1] if j > 0 else -1
                if j >= len(bd) or not (lo < l <= bd[j]):
                    fails.append((f"length {l} in bucket {j} outside ({lo}, {bd[j] if j < len(bd) else '?'}]",
                                  "C14.pure"))
        return fails

    def pred_window(self, case, impl, model):
        if "error" in impl:
            return [(f"extract_window raised {impl['error']}: {impl.get('message')}", "C14.window.raises")]
        if impl["window"] != model["spec"]:
            return [(f"window {impl['window']} != feat[clamp(frame-left+i)] = {model['spec']}", "C14.window")]
        return []

    def pred_lang(self, case, impl, model):
        if "error" in impl:
            return [(f"lang_seq_to_batch raised {impl['error']}: {impl.get('message')}", "C14.collate.raises")]
        items = self.lang_items(case)
        refs = impl["refs"] if case["batch_first"] else transpose(impl["refs"], len(items))
        return self.check_rows(case, refs, impl["sizes"], impl["ids"], [r for r, _ in items],
                               [u for _, u in items], [PAD] * 3 if case["two_d"] else PAD, "refs")

    @staticmethod
    def check_rows(case, rows, sizes, ids, originals, uids, pad, name):
        fails = []
        N = len(originals)
        if len(rows) != N or len(sizes) != N:
            return [(f"{name}: {len(rows)} rows / {len(sizes)} sizes for {N} utterances", "C14.collate.rows")]
        cut = [r[:s] for r, s in zip(rows, sizes)]
        if case["sort"]:
            if any(sizes[i] < sizes[i + 1] for i in range(N - 1)):
                fails.append((f"{name}: sizes {sizes} not descending although sort was asked", "C14.collate.sort"))
            pairs = sorted(zip(map(repr, cut), ids if ids is not None else [None] * N))
            want = sorted(zip(map(repr, originals), uids if ids is not None else [None] * N))
            if pairs != want:
                fails.append((f"{name}: rows cut to their sizes (with ids) are not the original sequences",
                              "C14.collate.lossless"))
        else:
            if cut != originals:
                fails.append((f"{name}: row n cut to its size != sequence n", "C14.collate.lossless"))
            if ids is not None and ids != uids:
                fails.append((f"{name}: ids {ids} != {uids}", "C14.collate.ids"))
        for r, s in zip(rows, sizes):
            if any(c != pad for c in r[s:]):
                fails.append((f"{name}: a padding cell does not hold {pad}", "C14.collate.pad"))
                break
        return fails

    def pred_spect(self, case, impl, model):
        if "error" in impl:
            return [(f"spect_seq_to_batch raised {impl['error']}: {impl.get('message')}", "C14.collate.raises")]
        items = self.spect_items(case)
        N = len(items)
        bf = case["batch_first"]
        fails = []
        want_members = 4 + (1 if case["has_alis"] else 0) + (1 if case["has_uttids"] else 0)
        if impl["n_members"] != want_members:
            fails.append((f"{impl['n_members']} tuple members, expected {want_members}", "C14.collate.tuple"))
        feats = impl["feats"] if bf else transpose(impl["feats"], N)
        uids = [it["id"] for it in items]
        # rows are identified through the features (unique content), everything else must follow them
        fails += self.check_rows(case, feats, impl["feat_sizes"], impl["ids"], [it["feat"] for it in items],
                                 uids, [0] * F, "feats")
        if fails:
            return fails
        if impl["ids"] is not None:
            order = [items[int(u[1:])] for u in impl["ids"]]
        else:
            by_feat = {repr(it["feat"]): it for it in items}
            if len(by_feat) != len(items):
                return fails        # zero-length features are all alike: rows cannot be told apart
            order = [by_feat[repr(r[:s])] for r, s in zip(feats, impl["feat_sizes"])]
        all_ali = case["has_alis"] and all(it["ali"] is not None for it in items)
        if (impl["alis"] is not None) != all_ali:
            fails.append(("alis present iff every utterance has one: violated", "C14.collate.none"))
        elif all_ali:
            alis = impl["alis"] if bf else transpose(impl["alis"], N)
            for n, it in enumerate(order):
                T = len(it["feat"])
                if alis[n][:T] != it["ali"] or any(c != PAD for c in alis[n][T:]):
                    fails.append((f"alis row {n} does not belong to the utterance in feats row {n}",
                                  "C14.collate.attached"))
        all_ref = all(it["ref"] is not None for it in items)
        if (impl["refs"] is not None) != all_ref or (impl["ref_sizes"] is not None) != all_ref:
            fails.append(("refs present iff every utterance has one: violated", "C14.collate.none"))
        elif all_ref:
            refs = impl["refs"] if bf else transpose(impl["refs"], N)
            padr = [PAD] * 3 if case["two_d"] else PAD
            for n, it in enumerate(order):
                R = impl["ref_sizes"][n]
                if refs[n][:R] != it["ref"] or any(c != padr for c in refs[n][R:]):
                    fails.append((f"refs row {n} does not belong to the utterance in feats row {n}",
                                  "C14.collate.attached"))
        return fails

    def pred_cw(self, case, impl, model):
        if "error" in impl:
            return [(f"context_window_seq_to_batch raised {impl['error']}: {impl.get('message')}",
                     "C14.collate.raises")]
        items = self.cw_items(case)
        fails = []
        if impl["windows"] != [w for it in items for w in it["win"]]:
            fails.append(("windows are not the concatenation of the utterances' windows", "C14.cw.cat"))
        all_ali = all(it["ali"] is not None for it in items)
        if (impl["alis"] is not None) != all_ali:
            fails.append(("alis present iff every utterance has one: violated", "C14.collate.none"))
        elif all_ali and impl["alis"] != [a for it in items for a in it["ali"]]:
            fails.append(("alis are not the concatenation of the utterances' alis", "C14.cw.cat"))
        if case["has_uttids"]:
            if impl["sizes"] != [len(it["win"]) for it in items] or impl["ids"] != [it["id"] for it in items]:
                fails.append(("window_sizes / uttids not attached", "C14.collate.ids"))
            C = case["C"]
            split = [[[w[c * F:(c + 1) * F] for c in range(C)] for w in g] for g in model["spec"]["split"]]
            if split != [it["win"] for it in items]:
                fails.append(("splitting the model's concatenation by sizes does not return the windows", None))
        return fails

    def pred_loader(self, case, impl, model):
        cls = case["cls"]
        if "error" in impl:
            sig = None
            msg = str(impl.get("message"))
            if impl["error"] == "IndexError" and not case["lens"] and case["nb"] > 1:
                sig = "C14.loader.empty_dataset_buckets"
            elif impl["error"] == "IndexError" and cls == "lang" and case["nb"] > 1:
                sig = "C14.loader.lang_bucket_indexerror"
            elif cls in ("spect_train", "spect_eval") and "on_uneven_distributed" in msg:
                sig = "C14.loader.deprecated_seed_positional"
            elif impl["error"] == "ZeroDivisionError" and case["dynamic"] and 0 in key_lens(case):
                sig = "C14.dynamic.zero_length_bound"
            return [(f"{cls} loader raised {impl['error']}: {msg} ", sig)]
        fails = []
        N = len(case["lens"])
        if impl["n_utts"] != N:
            return [(f"the loader's data set has {impl['n_utts']} utterances, the directory {N}",
                     "C14.loader.utterances_lost")]
        if model is None or "err" in model:
            return [("no model verdict for a loader the implementation built", None)]
        lens = key_lens(case)
        params = model.get("params")
        e0 = case["init_epoch"]
        counts = []
        for j, ep in enumerate(impl["epochs"]):
            where = f"epoch {e0 + j}: "
            for p in ep["problems"]:
                fails.append((where + p, "C14.loader.collate"))
            order = sub_order(case, e0 + j)
            batches = ep["rows"]
            if case["nb"] > 1 and not cls.startswith("cw"):
                i2b, sizes = params["idx2bucket"], params["sizes"]
                spec = self.py_spec(order, lambda x: i2b[x], sizes)
                bucket_of = (lambda x: i2b[x])
                # never mix length classes
                bd = params["bounds"]
                for b in batches:
                    cl = {sum(1 for q in bd if lens[x] > q) for x in b}
                    if len(cl) > 1:
                        fails.append((where + f"batch {b} mixes length classes (lengths {[lens[x] for x in b]}, "
                                      f"bounds {bd})", "C14.pure"))
            else:
                spec = self.py_spec(order, lambda x: 0, [case["B"]])
                bucket_of = (lambda x: 0)
            if any(x not in order for b in batches for x in b):
                fails.append((where + "a batch holds an index the sampler did not produce", "C14.cover"))
                continue
            unsorted = [sorted(b, key=order.index) for b in batches]
            fails += self.check_batches(unsorted, order, bucket_of, spec, case["drop"], where)
            if case["sort"] and not cls.startswith("cw"):
                for b in batches:
                    if any(lens[b[i]] < lens[b[i + 1]] for i in range(len(b) - 1)):
                        fails.append((where + f"batch {b} not sorted by length", "C14.loader.sort"))
            elif batches != unsorted:
                fails.append((where + "rows are not in sampler order although sort_batch is off", "C14.loader.order"))
            counts.append(len(batches))
            if ep["len_before"] != len(batches):
                stale = j > 0 and ep["len_before"] == impl["epochs"][0]["len_before"]
                fails.append((where + f"len() = {ep['len_before']} before the epoch, {len(batches)} batches yielded",
                              "C14.loader.len_stale" if stale else "C14.loader.len"))
        varying = case.get("world", 0) > 1 and case["shuffle"]
        if not varying:
            for j, ep in enumerate(impl["epochs"]):
                if ep["len_after"] != counts[j]:
                    fails.append((f"epoch {e0 + j}: len() = {ep['len_after']} after the epoch, {counts[j]} batches",
                                  "C14.loader.len"))
        if impl["direct_last"] != impl["epochs"][-1]["rows"]:
            fails.append((f"epoch {e0 + len(counts) - 1}: a loader started there yields {impl['direct_last']}, the "
                          f"iterated one {impl['epochs'][-1]['rows']}", "C14.loader.determinism"))
        if impl["rewound_first"] != impl["epochs"][0]["rows"]:
            fails.append((f"epoch {e0} differs after rewinding loader.epoch", "C14.loader.determinism"))
        if not case["defaults"] and impl["epochs"] and impl["epochs"][0]["has_ids"]:
            if impl["epochs"][0]["has_ids"][0] != (not case["suppress_uttids"]):
                fails.append(("suppress_uttids not honoured", "C14.loader.uttids"))
        return fails

    @staticmethod
    def py_spec(order, bucket_of, sizes):
        """The declarative per-bucket spec (filter, cut into groups of the size), used for loader
        cases where the driver's reply carries the model output only. Mirrors Spec.fullChunks /
        Spec.remainder, which the sampler stream evaluates in Lean."""
        spec = []
        for h in dict.fromkeys(bucket_of(x) for x in order):
            n = sizes[h]
            p = [x for x in order if bucket_of(x) == h]
            k = len(p) // n * n
            spec.append({"bucket": h, "size": n, "full": [p[i:i + n] for i in range(0, k, n)], "rest": p[k:]})
        return spec

    # ================================================================== evidence helpers
    def nontrivial(self, case, impl):
        k = case["kind"]
        if not isinstance(impl, dict) or "error" in impl:
            return False
        if k == "sampler":
            bs = impl["batches"]
            i2b = dict(map(tuple, case["i2b"]))
            b2s = dict(map(tuple, case["b2s"]))
            try:
                short = any(len(b) < b2s[i2b[b[0]]] for b in bs)
                return len({i2b[b[0]] for b in bs}) >= 2 or short or (case["drop"] and len(case["order"]) > sum(map(len, bs)))
            except Exception:
                return False
        if k == "params":
            return "sizes" in impl and len(impl["sizes"]) >= 2
        if k == "window":
            return case["frame"] < case["left"] or case["frame"] + case["right"] + 1 > len(case["feat"])
        if k in ("lang", "spect"):
            ls = case["rlens"] if k == "lang" else case["lens"]
            return len(set(ls)) >= 2
        if k == "cw":
            return len(case["lens"]) >= 2
        if k == "loader":
            eps = impl.get("epochs", [])
            if not eps or not eps[0]["rows"]:
                return False
            rows = eps[0]["rows"]
            return case["nb"] > 1 or any(len(b) < case["B"] for b in rows) or case["drop"]
        return True

    def tags(self, case, impl):
        k = case["kind"]
        t = [f"kind={k}"]
        if k == "sampler":
            t.append(f"drop={case['drop']}")
            if "malformed" in case:
                t.append("malformed")
        elif k == "params":
            t.append(f"dynamic={case['dynamic']}")
            if isinstance(impl, dict) and "sizes" in impl:
                t.append(f"buckets_after_dedup={len(impl['sizes'])}" if len(impl["sizes"]) < case["nb"] else "buckets_kept")
        elif k == "loader":
            t += [f"cls={case['cls']}", f"nb={'>1' if case['nb'] > 1 else 1}", f"drop={case['drop']}",
                  f"shuffle={case['shuffle']}", f"sort={case['sort']}", f"batch_first={case['batch_first']}",
                  f"dynamic={case['dynamic']}", f"world={case['world']}", f"N={len(case['lens'])}",
                  f"suppress_uttids={'default' if case['defaults'] else case['suppress_uttids']}"]
        elif k in ("lang", "spect"):
            t += [f"{k}.sort={case['sort']}", f"{k}.batch_first={case['batch_first']}",
                  f"{k}.has_uttids={case['has_uttids']}"]
        return t

    def shrink(self, case):
        k = case["kind"]
        if k == "sampler":
            for i in range(len(case["order"])):
                c = dict(case)
                c["order"] = case["order"][:i] + case["order"][i + 1:]
                yield c
            for i in range(len(case["b2s"])):
                if case["b2s"][i][1] > 1:
                    c = dict(case)
                    c["b2s"] = [list(x) for x in case["b2s"]]
                    c["b2s"][i][1] -= 1
                    yield c
        elif k == "params":
            for i in range(len(case["lens"])):
                c = dict(case)
                c["lens"] = case["lens"][:i] + case["lens"][i + 1:]
                yield c
            for f in ("nb", "B"):
                if case[f] > (2 if f == "nb" else 1):
                    c = dict(case)
                    c[f] -= 1
                    yield c
        elif k == "loader":
            if case["epochs"] > 1:
                c = dict(case)
                c["epochs"] -= 1
                yield c
            for i in range(len(case["lens"])):
                c = dict(case)
                c["lens"] = case["lens"][:i] + case["lens"][i + 1:]
                c["rlens"] = case["rlens"][:i] + case["rlens"][i + 1:]
                yield c
            for f, v in (("world", 0), ("init_epoch", 0), ("dynamic", False), ("sort", False),
                         ("shuffle", False), ("drop", False), ("two_d", False)):
                if case[f] != v:
                    c = dict(case)
                    c[f] = v
                    if f == "world":
                        c["rank"] = 0
                    yield c
            for f in ("B", "nb"):
                if case[f] > 1:
                    c = dict(case)
                    c[f] -= 1
                    yield c
        elif k in ("lang", "spect", "cw"):
            ls = "rlens" if k == "lang" else "lens"
            n = len(case[ls])
            for i in range(n):
                if n <= 1:
                    break
                c = dict(case)
                for f in ("lens", "rlens", "ali", "ref"):
                    if f in case and isinstance(case[f], list):
                        c[f] = case[f][:i] + case[f][i + 1:]
                yield c


def transpose(rows_tf, N):
    """[t][n] -> [n][t]."""
    return [[rows_tf[t][n] for t in range(len(rows_tf))] for n in range(N)]


def short(x, n=300):
    s = repr(x)
    return s if len(s) <= n else s[:n] + "..."


CHECK = C14()
