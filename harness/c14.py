"""C14 — batching loses nothing: buckets, loaders and collation preserve every utterance.

Streams (``case["kind"]``):

* ``sampler``  — the real ``BucketBatchSampler`` (+ ``_get_batch_sampler_len``) driven directly
  with arbitrary ``idx2bucket`` / ``bucket2size`` maps over arbitrary sampler orders
  (exhaustive for small sizes, plus a malformed stream: missing keys, size 0), over a stub
  sampler, a plain list or the library's own epoch samplers; repeated, abandoned and
  interleaved (two live iterators) passes.
* ``params``   — ``_get_bucket_batch_sampler_params`` on arbitrary length lists.
* ``window``   — ``extract_window`` (exhaustive for small T / left / right).
* ``lang`` / ``spect`` / ``cw`` — the three collate functions called directly.
* ``loader``   — real data directories written to a temp dir (optionally with a file prefix /
  suffix, renamed sub-directories, no ali/ or no ref/ directory, distractor files), the real
  loaders (SpectDataLoader, LangDataLoader, ContextWindowDataLoader and the four deprecated
  classes) given a path or a data-set object, merged or split parameter objects, options passed
  or left to the class defaults, driven through a sequence of operations (k epochs, a jump of
  ``loader.epoch``, an abandoned iteration, an interleaved section with several live iterators,
  ``len()`` and look-ups of other epochs in the middle of passes, a rewind), optionally under a simulated process
  group with every ``on_uneven_distributed`` mode, a few with worker processes; the Lean model
  (C13's sampler model + the ``Loader`` object model) gets the whole-data-set ordering of each
  epoch computed here with numpy, never from the library.
"""
import atexit
import contextlib
import re
import itertools
import os
import shutil
import tempfile
import warnings

from common.framework import PropertyCheck

PAD = -100          # config.INDEX_PAD_VALUE (asserted at run time)
F = 2               # feature width of the generated data sets


# ------------------------------------------------------------------------------ helpers
@contextlib.contextmanager
def fake_dist(rank, world):
    import torch.distributed as d
    saved = {k: getattr(d, k) for k in ("is_available", "is_initialized", "get_rank", "get_world_size")}
    try:
        if world:
            d.is_available = lambda: True
            d.is_initialized = lambda *a, **k: True
            d.get_rank = lambda *a, **k: rank
            d.get_world_size = lambda *a, **k: world
        else:
            d.is_initialized = lambda *a, **k: False
        yield
    finally:
        for k, v in saved.items():
            setattr(d, k, v)


class ListSampler:
    """A sampler with the interface `_get_batch_sampler_len` needs, yielding a fixed order."""

    def __init__(self, order):
        self.order = list(order)
        self.epoch = 0

    def get_samples_for_epoch(self, epoch):
        return iter(self.order)

    def __iter__(self):
        self.epoch += 1
        return iter(self.order)

    def __len__(self):
        return len(self.order)


def is_subsequence(b, order):
    it = iter(order)
    return all(any(x == y for y in it) for x in b)


def multiset(xs):
    return sorted(xs)


_ROOT = None
_DIRS = {}


def _root():
    global _ROOT
    if _ROOT is None:
        _ROOT = tempfile.mkdtemp(prefix="c14_")
        atexit.register(shutil.rmtree, _ROOT, True)
    return _ROOT


def utt_id(i):
    return f"u{i:02d}"


def feat_of(i, T):
    return [[1000 * (i + 1) + F * t + f for f in range(F)] for t in range(T)]


def ali_of(i, T):
    return [1000 * (i + 1) + t for t in range(T)]


def ref_of(i, R, two_d):
    if two_d:
        return [[1000 * (i + 1) + r, r, r + 1] for r in range(R)]
    return [1000 * (i + 1) + r for r in range(R)]


SUBDIRS = {False: ("feat", "ali", "ref"), True: ("f", "a", "r")}


def layout_key(case):
    return (case.get("prefix", ""), case.get("suffix", ".pt"), bool(case.get("subdirs", False)),
            bool(case.get("with_ali", True)), bool(case.get("with_ref", True)))


def dataset_dir(lens, rlens, two_d, with_ali=True, with_ref=True, prefix="", suffix=".pt", subdirs=False):
    """A SpectDataSet directory (feat/, ali/, ref/ or f/, a/, r/); cached per run. With a file
    prefix / a non-default suffix every sub-directory also holds a file that must NOT count
    (right suffix but no prefix / the default suffix)."""
    import torch
    key = (tuple(lens), tuple(rlens), two_d, with_ali, with_ref, prefix, suffix, subdirs)
    if key in _DIRS:
        return _DIRS[key]
    d = os.path.join(_root(), f"ds{len(_DIRS)}")
    fd, ad, rd = (os.path.join(d, x) for x in SUBDIRS[bool(subdirs)])
    present = [fd] + ([ad] if with_ali else []) + ([rd] if with_ref else [])
    for x in present:
        os.makedirs(x)
    for i, (T, R) in enumerate(zip(lens, rlens)):
        name = prefix + utt_id(i) + suffix
        torch.save(torch.tensor(feat_of(i, T), dtype=torch.float).view(T, F), os.path.join(fd, name))
        if with_ali:
            torch.save(torch.tensor(ali_of(i, T), dtype=torch.long), os.path.join(ad, name))
        if with_ref:
            r = torch.tensor(ref_of(i, R, two_d), dtype=torch.long)
            if two_d:
                r = r.view(R, 3)
            torch.save(r, os.path.join(rd, name))
    for x in present:
        if prefix:
            torch.save(torch.zeros(1, F), os.path.join(x, "x-" + utt_id(97) + suffix))
        if suffix != ".pt":
            torch.save(torch.zeros(1, F), os.path.join(x, prefix + utt_id(98) + ".pt"))
    _DIRS[key] = d
    return d


def tolist_int(t):
    """Tensor -> nested list of Python ints (values are integer valued by construction)."""
    import torch
    return t.to(torch.long).tolist()


# What a loader class does with an option that is left out of the constructor call: the documented
# defaults of the three loaders, the historical ones of the deprecated Training / Evaluation classes.
CLS_DEFAULTS = {
    "spect": dict(shuffle=True, sort_batch=False, batch_first=True, suppress_alis=True,
                  suppress_uttids=True, tokens_only=True),
    "spect_train": dict(shuffle=True, sort_batch=True, batch_first=True, suppress_alis=False,
                        suppress_uttids=True, tokens_only=False),
    "spect_eval": dict(shuffle=False, sort_batch=True, batch_first=True, suppress_alis=False,
                       suppress_uttids=False, tokens_only=False),
    "lang": dict(shuffle=True, sort_batch=False, batch_first=True, suppress_uttids=True, tokens_only=True),
    "cw": dict(shuffle=True, suppress_uttids=True),
    "cw_train": dict(shuffle=True, suppress_uttids=True),
    "cw_eval": dict(shuffle=False, suppress_uttids=False),
}
CASE_KEY = {"shuffle": "shuffle", "sort_batch": "sort", "batch_first": "batch_first",
            "suppress_alis": "suppress_alis", "suppress_uttids": "suppress_uttids", "tokens_only": "tokens_only"}
MVN_MEAN, MVN_STD = [500.0, -3.0], [2.0, 0.5]


def omitted(case):
    om = set(case.get("omit", ()))
    if case.get("defaults"):
        om |= {"suppress_uttids", "suppress_alis", "tokens_only"}
    return om


def eff(case):
    """The options in force for a loader case: the value in the call, or the class default when the
    option is left out (`omit`)."""
    cls = case["cls"]
    d = CLS_DEFAULTS[cls]
    om = omitted(case)
    cw = cls.startswith("cw")
    o = {"cw": cw, "lang": cls == "lang"}
    for k, ck in CASE_KEY.items():
        if k in d:
            o[k] = d[k] if k in om else bool(case[ck])
    if cw:
        o.update(sort_batch=False, batch_first=True, suppress_alis=False, tokens_only=True)
    if cls == "lang":
        o["suppress_alis"] = True
    o["init_epoch"] = 0 if "init_epoch" in om else case["init_epoch"]
    o["uneven"] = "raise" if "uneven" in om else case.get("uneven", "uneven")
    o["nb"] = 1 if (cw or case.get("legacy_params")) else case["nb"]
    N = len(case["lens"])
    sub = case.get("subset")
    o["ids"] = sorted(i for i in sub if 0 <= i < N) if sub else list(range(N))
    o["sos"], o["eos"] = case.get("sos"), case.get("eos")
    o["with_ali"] = bool(case.get("with_ali", True))
    o["with_ref"] = bool(case.get("with_ref", True))
    o["transformed"] = bool(case.get("mvn") or case.get("delta"))
    o["workers"] = int(case.get("num_workers", 0))
    o["drop"] = bool(case["drop"])
    # SpectDataSet decides AT CONSTRUCTION whether alignments are available (`has_ali`): it does not even
    # look for ali/ when built with suppress_alis=True (observation, formerly proposed as finding C14.attr.suppress_alis_after_construction)
    o["ali_found"] = o["with_ali"] and not (cls.startswith("spect") and o["suppress_alis"])
    o["left"], o["right"], o["reverse"] = case.get("left", 0), case.get("right", 0), bool(case.get("reverse"))
    # the shuffling seed stored on the epoch sampler (None: not given to the constructor - drawn from torch's
    # generator, read back from the object by `seed_of`)
    o["base_seed"] = None if "seed" in om else case["seed"]
    return o


# Public attributes that the code re-reads at iteration time and that a script may therefore assign
# AFTER construction (the documented contract of an attribute: the object then behaves like one
# constructed with that value). FLAG_ATTRS are known to the Lean `View` model (`Attr`); "drop" is the
# batch sampler's `drop_incomplete` / `drop_last` (`VOp.setDrop`); the context-window attributes only
# change what a window looks like (harness-level presentation, no operation of the Lean model).
FLAG_ATTRS = ("batch_first", "sort_batch", "suppress_uttids", "suppress_alis", "tokens_only")
CTX_ATTRS = ("left", "right", "reverse")
SAMPLER_ATTRS = ("base_seed",)       # loader.batch_sampler.sampler.base_seed (shuffled loaders): `SOp.setSeed`
SNAP_KEYS = FLAG_ATTRS + ("drop",) + CTX_ATTRS + SAMPLER_ATTRS
LATE_POS = ("start", "mid", "end")


def late_attrs(cls):
    """The assignable attributes of a loader class (and of its data set / batch sampler)."""
    if cls.startswith("cw"):
        return ("suppress_uttids",) + CTX_ATTRS
    if cls == "lang":
        return ("batch_first", "sort_batch", "suppress_uttids", "tokens_only")
    return FLAG_ATTRS


def with_attr(o, name, value):
    """The options in force after `obj.name = value`."""
    o = dict(o)
    o[name] = value if name in ("left", "right") else int(value) if name == "base_seed" else bool(value)
    return o


def snap(o):
    return {k: o[k] for k in SNAP_KEYS}


def assign_attr(loader, name, value):
    """`loader.batch_first = v` / `loader.dataset.suppress_uttids = v` / `loader.batch_sampler.drop_incomplete = v`
    ...; returns what the attribute reads afterwards."""
    from pydrobert.torch.data import BucketBatchSampler
    if name in ("batch_first", "sort_batch"):
        obj = loader
    elif name == "drop":
        obj = loader.batch_sampler
        name = "drop_incomplete" if isinstance(obj, BucketBatchSampler) else "drop_last"
    elif name == "base_seed":
        obj = loader.batch_sampler.sampler
    else:
        obj = loader.dataset
    setattr(obj, name, value)
    return getattr(obj, name)


def model_op(op, arg):
    """An operation as the Lean driver reads it (None: no operation of the model)."""
    if op == "attr":
        name, value = arg
        if name in CTX_ATTRS:
            return None
        if name == "base_seed":
            return {"seed": int(value)}
        return {"drop": bool(value)} if name == "drop" else {"attr": [name, bool(value)]}
    if op in ("set", "next", "peek"):
        return {op: arg}
    return op if op in ("open", "len") else "serve"


def aligned(case, impl, model):
    """(operation, what the implementation showed, what the model showed) per operation; the model has
    no event for an operation it does not know (None)."""
    mi = iter((model or {}).get("events", ()))
    for (op, arg), a in zip(ops_of(case), impl.get("events", ())):
        b = next(mi, None) if model_op(op, arg) is not None else None
        yield (op, arg), a, b


def ref_expected(case, o, i):
    """The reference of utterance i as the data set must present it (tokens_only, sos, eos)."""
    two = bool(case["two_d"]) and not o["tokens_only"]
    r = ref_of(i, case["rlens"][i], two)
    if o["sos"] is not None:
        r = ([[o["sos"], -1, -1]] if two else [o["sos"]]) + r
    if o["eos"] is not None:
        r = r + ([[o["eos"], -1, -1]] if two else [o["eos"]])
    return r


def key_lens(case):
    """The lengths the loader buckets / sorts by, per data-set index."""
    o = eff(case)
    if o["lang"]:
        return [len(ref_expected(case, o, i)) for i in o["ids"]]
    return [case["lens"][i] for i in o["ids"]]


WEAVE_OPS = ("open", "next", "len", "peek")


def weave_of(case):
    """The interleaved section of a loader case as primitive operations: `["open"]` (it_k =
    iter(loader), k counts the iterators of the section), `["next", k]`, `["len"]` (len(loader)),
    `["peek", e]` (list(loader.batch_sampler.sampler.get_samples_for_epoch(e))), `["set", e]`;
    `["drain", k]` stands for as many `next(it_k)` as exhaust any pass over this data set (one per
    utterance + 1: the last ones see StopIteration)."""
    n_full = len(eff(case)["ids"]) + 1
    out = []
    for w in case.get("weave") or ():
        if w[0] == "drain":
            out += [("next", int(w[1]))] * n_full
        elif w[0] in ("open", "len"):
            out.append((w[0], None))
        elif w[0] == "attr":
            out.append(("attr", (w[1], w[2])))
        else:
            out.append((w[0], int(w[1])))
    return out


def ops_of(case):
    """The operations applied to the loader object: k epochs, then optionally a jump of
    `loader.epoch` + one epoch, optionally an abandoned iteration (first batch only) + one epoch,
    optionally an interleaved section (several live iterators advanced alternately, len() and
    look-ups of other epochs in the middle of passes that are then continued to their end),
    finally a rewind to the first epoch + one epoch."""
    o = eff(case)
    e0 = o["init_epoch"]

    def late(pos):      # assignments to public attributes after construction: [position, attribute, value]
        return [("attr", (n, v)) for p, n, v in case.get("late") or () if p == pos]
    ops = late("start")
    for i in range(case["epochs"]):
        ops.append(("serve", "epoch"))
        if i == 0:
            ops += late("mid")
    if case.get("jump") is not None:
        ops += [("set", int(case["jump"])), ("serve", "jump")]
    if case.get("abandon"):
        ops += [("set", e0), ("partial", "abandoned"), ("serve", "after_abandon")]
    ops += weave_of(case)
    ops += late("end")
    ops += [("set", e0), ("serve", "rewound")]
    return ops


def epochs_reached(case):
    """Every epoch whose ordering the model can need for this operation sequence (bookkeeping of
    the epoch counter only: a full pass and the first next() of an iterator advance it)."""
    o = eff(case)
    e, out, started = o["init_epoch"], set(), []
    for op, arg in ops_of(case):
        if op == "set":
            e = arg
        elif op == "open":
            started.append(False)
        elif op == "attr":
            pass
        elif op == "len":
            out.add(e)
        elif op == "peek":
            out.add(arg)
        elif op == "next":
            if arg < len(started) and not started[arg]:
                started[arg] = True
                out.update((e, e + 1))
                e += 1
        else:
            out.update((e, e + 1))
            e += 1
    return sorted(out)


def revisits(case):
    """(attribute, how the epoch was materialised before, how it is asked for again) for every assignment
    after which an epoch that the object had ALREADY materialised (full pass / first batch of an iterator /
    len() / look-up) is asked for again - bookkeeping of the epoch counter only."""
    e, started = eff(case)["init_epoch"], []
    seen, pending, out = {}, [], set()       # epoch -> how it was materialised last; [attribute, {epoch: way}]
    last, fresh = [None], []                 # the epoch materialised last; assignments made since

    def touch(ep, way):
        for name, old in pending:
            if ep in old:
                out.add((name, old[ep], way, False))
        for name in fresh:                   # the sharpest form: the LAST epoch materialised before the assignment
            if last[0] == ep:                # is the FIRST one asked for after it
                out.add((name, seen[ep], way, True))
        del fresh[:]
        seen[ep] = way
        last[0] = ep
    for op, arg in ops_of(case):
        if op == "set":
            e = arg
        elif op == "open":
            started.append(False)
        elif op == "attr":
            pending.append((arg[0], dict(seen)))
            fresh.append(arg[0])
        elif op == "len":
            touch(e, "len")
        elif op == "peek":
            touch(arg, "lookup")
        elif op == "next":
            if arg < len(started) and not started[arg]:
                started[arg] = True
                touch(e, "pass")
                e += 1
        else:
            touch(e, "pass")
            e += 1
    return sorted(out)


def ordering(case, seed, e, N):
    """The whole-data-set ordering of epoch e, from numpy directly (the documented seeding
    `RandomState((base_seed, epoch)).permutation(N)`), or 0..N-1 without shuffling."""
    if eff(case)["shuffle"]:
        import numpy as np
        return [int(x) for x in np.random.RandomState((seed, e)).permutation(N)]
    return list(range(N))


def sub_order(case, seed, e):
    """The sample order an independent library sampler object yields in epoch `e` for this rank
    (C13 checks that object against its own model); cross-checked against the model's order."""
    from pydrobert.torch.data import EpochRandomSampler, EpochSequentialSampler
    o = eff(case)
    N = len(o["ids"])
    mode = "ignore" if o["cw"] else ("drop" if case["drop"] else o["uneven"])
    with fake_dist(case.get("rank", 0), case.get("world", 0)):
        if o["shuffle"]:
            s = EpochRandomSampler(list(range(N)), e, seed, mode)
        else:
            s = EpochSequentialSampler(list(range(N)), e, mode)
        return [int(x) for x in s.get_samples_for_epoch(e)]


# ------------------------------------------------------------------------------ the check
class C14(PropertyCheck):
    pid = "C14"
    rule = ("streams: sampler (BucketBatchSampler driven directly; exhaustive over n<=4 indices x 3 buckets x "
            "sizes 1..3 x drop, random larger with int / negative / string / tuple bucket ids, drop_incomplete "
            "omitted, a plain list or the library's EpochRandomSampler / EpochSequentialSampler as sampler, "
            "malformed maps; every run = len, two full passes, a pass abandoned after its first batch with len() "
            "in the middle, a further full pass, two passes alive at once advanced alternately with len() and a "
            "look-up of another epoch after the first batch, both continued to their end), params "
            "(_get_bucket_batch_sampler_params on length lists with ties, over every element layout of the "
            "data sets), window (extract_window exhaustive T<=4, left/right<=3 + other widths, contexts up to "
            "9, strided / transposed / float64 / int64 inputs, input unchanged), lang/spect/cw (collate "
            "functions, every flag, all arguments defaulted, list/tuple input, float64 / int32 members, "
            "inputs unchanged, output dtypes, tuple arity), loader (data sets of 0..10 utterances incl. a "
            "zero-length one in a temp dir with default / prefixed / re-suffixed / renamed / ali-less / "
            "ref-less layouts and distractor files, all seven loader classes, path or data-set object, merged / "
            "split / legacy parameter objects, deprecated keyword routes, subset_ids, sos/eos, mvn and deltas, "
            "options passed or left to the class defaults incl. an undrawn seed under torch.manual_seed, "
            "every on_uneven_distributed mode under simulated world sizes 2 and 3, rejected keywords, "
            "pin_memory, 1-2 worker processes; operations: k epochs, jump of loader.epoch, abandoned "
            "iteration, an interleaved section - up to three iter(loader) objects alive at once and advanced "
            "alternately, len(loader) / sampler.get_samples_for_epoch(e') / loader.epoch = e' after the first, "
            "any, every batch of passes that are continued to their end -, rewind, fresh loader at the last "
            "epoch; PUBLIC ATTRIBUTES ASSIGNED AFTER CONSTRUCTION - loader.batch_first / sort_batch, "
            "loader.dataset.suppress_alis / suppress_uttids / tokens_only / left / right / reverse, "
            "loader.batch_sampler.drop_incomplete | drop_last (no process group), the epoch through "
            "batch_sampler.sampler.epoch - before the first pass, between passes, before the last pass and "
            "between iter(loader) / the batches of a live iterator, to the other or the same value than "
            "constructed, every batch judged by the values at ITS collate call, the last epoch pass compared "
            "member by member with a loader constructed with the values in force; sampler stream: "
            "BucketBatchSampler.sampler / idx2bucket / bucket2size / drop_incomplete assigned after construction "
            "and flipped on the used object, base_seed of a library EpochRandomSampler re-assigned). "
            "REASSIGN, THEN THE SAME EPOCH AGAIN - sampler stream: drop_incomplete / bucket2size / idx2bucket / sampler "
            "of the bucket sampler, batch_size / drop_last / sampler of torch's BatchSampler, base_seed / total + "
            "effective_total / epoch (there and back) of a library epoch sampler underneath are assigned on an "
            "object that has ALREADY materialised epoch E (full pass | len() | get_samples_for_epoch(E)), then len, "
            "samples and batches of E must equal those of a fresh object constructed with the new value at E; loader "
            "stream: loader.batch_sampler.sampler.base_seed (shuffled loaders) is a further assignable attribute at "
            "every position incl. between the batches of a live iterator, and an interleaved pattern materialises an "
            "epoch (pass / len / look-up), assigns base_seed | drop flag | a presentation flag and asks for the SAME "
            "epoch again (len, look-up, a pass to its end), once or twice; passes are identified by (seed in force, "
            "epoch), the Lean Seeded model runs every operation on the orderings of the seed stored at that moment. non-trivial: >= 2 buckets in use or an "
            "incomplete batch (sampler/loader), a padded row (collate), an edge-padded window; distinct by "
            "the case dict")
    assumptions = [
        "torch.distributed simulated by patching is_available/is_initialized/get_rank/get_world_size",
        "epoch orderings: numpy RandomState((seed, epoch)).permutation(N) computed by the harness (range(N) "
        "without shuffling), sliced per rank by C13's Lean model; cross-checked against a library sampler object",
        "torch.nn.utils.rnn.pad_sequence, torch.cat, torch.flip, torch.utils.data.BatchSampler / DataLoader at "
        "their documented meaning",
        "integer-valued features so float32 is exact; with mvn / deltas the data set's own item is the "
        "'original tensor' (the transform itself is C18's subject)",
        "worker processes (fork) only in a small slice; everything else num_workers=0",
        "defaults of the deprecated Training/Evaluation loader classes taken from their signatures "
        "(CLS_DEFAULTS in harness/c14.py)",
        "size_batch_by_length with a zero-length bucket bound: ZeroDivisionError is a listed known finding",
        "an attribute assigned after construction takes effect at the next collate / dataset[i] call "
        "(num_workers=0; with worker processes only assignments made before iter(loader) are generated)",
        "SpectDataSet fixes at construction whether alignments are available (has_ali): after "
        "dataset.suppress_alis = False on a data set built with True the ali member is None (listed known finding)",
        "the orderings of a re-seeded loader: numpy RandomState((s, epoch)).permutation(N) for every seed s a script "
        "assigns, computed by the harness and handed to the driver per seed",
    ]
    exhaustive = {"quick": False, "thorough": False}
    _seeds = {}         # base seeds drawn by loaders built without `seed` (run_impl -> model_request)
    quick_budget_s = 200
    thorough_budget_s = 1500

    # ================================================================== generators
    def cases(self, rng, tier):
        yield from self.hand_cases()
        yield from self.sampler_cases(rng, tier)
        yield from self.window_cases(rng, tier)
        yield from self.params_cases(rng, tier)
        yield from self.collate_cases(rng, tier)
        yield from self.loader_cases(rng, tier)

    def hand_cases(self):
        # the docstring example
        N = 14
        for drop in (True, False):
            yield {"kind": "sampler", "order": list(range(N)), "i2b": [[n, int(n % 3 == 0)] for n in range(N)],
                   "b2s": [[0, 2], [1, 2]], "drop": drop}

    def sampler_cases(self, rng, tier):
        nmax = {"quick": 4, "thorough": 5, "search": 5}[tier]
        for n in range(0, nmax + 1):
            for assign in itertools.product(range(3), repeat=n):
                used = sorted(set(assign))
                for sizes in itertools.product((1, 2, 3), repeat=len(used)):
                    for drop in (False, True):
                        yield {"kind": "sampler", "order": list(range(n)),
                               "i2b": [[i, 10 * b] for i, b in enumerate(assign)],
                               "b2s": [[10 * b, s] for b, s in zip(used, sizes)], "drop": drop}
        nrand = {"quick": 300, "thorough": 4000, "search": 3000}[tier]
        for _ in range(nrand):
            n = rng.randrange(0, 14)
            nb = rng.randrange(1, 5)
            real = rng.choice((None, None, None, None, "epoch_random", "epoch_random", "epoch_seq"))
            if real:                                # the library's epoch samplers underneath
                ids = list(range(n))
                seed, E = rng.randrange(1, 1000), rng.choice((0, 0, 1, 7))
                order = list(ids)
                if real == "epoch_random":
                    import numpy as np
                    order = [int(x) for x in np.random.RandomState((seed, E)).permutation(n)]
            else:
                ids = rng.sample(range(0, 40), n)
                order = list(ids)
                if n and rng.random() < 0.15:          # a sampler may repeat an index
                    order += [rng.choice(ids) for _ in range(rng.randrange(1, 4))]
                rng.shuffle(order)
            bids = rng.sample(range(0, 9), nb)
            i2b = [[i, rng.choice(bids)] for i in ids]
            b2s = [[b, rng.randrange(1, 6)] for b in bids]
            rng.shuffle(b2s)
            case = {"kind": "sampler", "order": order, "i2b": i2b, "b2s": b2s, "drop": rng.random() < 0.5}
            kind = rng.choice(("int", "int", "neg", "str", "tuple"))
            if kind != "int":
                case["idkind"] = kind       # bucket ids are any sortable hashables
            if not case["drop"] and rng.random() < 0.2:
                case["drop_omitted"] = True
            if real:
                case.update(sampler=real, seed=seed, epoch=E)
            elif rng.random() < 0.12:
                case["sampler"] = "plain"   # any collection of indices; len() then is not defined
            r = rng.random()
            if r < 0.06 and i2b:
                case["i2b"] = i2b[:-1]
                case["malformed"] = "idx2bucket misses an index"
            elif r < 0.12:
                case["b2s"] = b2s[:-1]
                case["malformed"] = "bucket2size misses a bucket"
            elif r < 0.18:
                case["b2s"] = [[b, 0] if k == 0 else [b, s] for k, (b, s) in enumerate(b2s)]
                case["malformed"] = "a bucket size of 0"
            yield case

    def window_cases(self, rng, tier):
        tmax, cmax = (4, 3) if tier == "quick" else (6, 4)
        for T in range(1, tmax + 1):
            feat = [[10 * t + 1, 10 * t + 2] for t in range(T)]
            for frame in range(T):
                for left in range(cmax + 1):
                    for right in range(cmax + 1):
                        for rev in (False, True):
                            yield {"kind": "window", "feat": feat, "frame": frame, "left": left,
                                   "right": right, "reverse": rev}
        # other widths, memory layouts and dtypes of the feature matrix, larger contexts
        for _ in range({"quick": 250, "thorough": 2500, "search": 1500}[tier]):
            T, Fw = rng.randrange(1, 7), rng.choice((1, 2, 3, 5))
            yield {"kind": "window", "feat": [[10 * t + f + 1 for f in range(Fw)] for t in range(T)],
                   "frame": rng.randrange(T), "left": rng.choice((0, 1, 2, 4, 9)),
                   "right": rng.choice((0, 1, 2, 4, 9)), "reverse": rng.random() < 0.5,
                   "layout": rng.choice(("contig", "strided", "transposed", "f64", "i64"))}

    def params_cases(self, rng, tier):
        if tier == "quick":
            nmax, vals = 5, (1, 2, 3)
        else:
            nmax, vals = 6, (1, 2, 3, 5)
        for n in range(0, nmax + 1):
            for lens in itertools.combinations_with_replacement(vals, n):
                for nb in (2, 3, 4):
                    for B, dyn in ((1, False), (2, True)):
                        yield {"kind": "params", "lens": list(lens), "nb": nb, "B": B, "dynamic": dyn}
        # num_buckets outside what the loaders pass (they only call with > 1): one bucket, and the malformed 0 -
        # an empty data set returns two empty maps BEFORE the division, a non-empty one divides by zero
        for lens in ([], [2], [1, 3, 3], [2, 2, 5, 7]):
            for dyn in (False, True):
                yield {"kind": "params", "lens": lens, "nb": 1, "B": 2, "dynamic": dyn}
                yield {"kind": "params", "lens": lens, "nb": 0, "B": 2, "dynamic": dyn, "malformed": "nb0"}
        for _ in range({"quick": 200, "thorough": 3000, "search": 2000}[tier]):
            n = rng.randrange(0, 14)
            hi = rng.choice((2, 4, 9, 30))
            lo = 0 if rng.random() < 0.1 else 1
            lens = [rng.randrange(lo, hi + 1) for _ in range(n)]
            yield {"kind": "params", "lens": lens, "nb": rng.randrange(2, 7), "B": rng.randrange(1, 6),
                   "dynamic": rng.random() < 0.5,
                   "elem": rng.choice(("pair", "pair", "bare", "bare2d", "lang_pair", "quad"))}

    def collate_cases(self, rng, tier):
        n = {"quick": 220, "thorough": 1800, "search": 1000}[tier]
        for _ in range(n):
            N = rng.randrange(1, 6)
            lens = [rng.choice((0, 1, 1, 2, 3, 3)) for _ in range(N)]
            rl = [rng.choice((0, 1, 2, 2, 4)) for _ in range(N)]
            extra = {"seq_type": rng.choice(("list", "list", "tuple")),
                     "fdtype": rng.choice(("float32", "float32", "float64")),
                     "rdtype": rng.choice(("int64", "int64", "int32"))}
            if rng.random() < 0.15:     # every optional argument left to its documented default
                yield {"kind": "lang", "rlens": rl, "two_d": rng.random() < 0.4, "sort": True,
                       "batch_first": True, "has_uttids": False, "omit_args": True, **extra}
                yield {"kind": "spect", "lens": lens, "rlens": rl, "two_d": rng.random() < 0.4,
                       "ali": [rng.random() < 0.8 for _ in range(N)], "ref": [rng.random() < 0.8 for _ in range(N)],
                       "sort": True, "batch_first": True, "has_alis": True, "has_uttids": False,
                       "omit_args": True, **extra}
                yield {"kind": "cw", "lens": lens, "C": rng.randrange(1, 4), "ali": [True] * N,
                       "has_uttids": False, "omit_args": True, **extra}
                continue
            yield {"kind": "lang", "rlens": rl, "two_d": rng.random() < 0.4, "sort": rng.random() < 0.5,
                   "batch_first": rng.random() < 0.5, "has_uttids": rng.random() < 0.5, **extra}
            ali = rng.choice(("all", "all", "none", "some"))
            ref = rng.choice(("all", "all", "none", "some"))
            yield {"kind": "spect", "lens": lens, "rlens": rl, "two_d": rng.random() < 0.4,
                   "ali": [ali == "all" or (ali == "some" and rng.random() < 0.6) for _ in range(N)],
                   "ref": [ref == "all" or (ref == "some" and rng.random() < 0.6) for _ in range(N)],
                   "sort": rng.random() < 0.5, "batch_first": rng.random() < 0.5,
                   "has_alis": rng.random() < 0.7, "has_uttids": rng.random() < 0.5, **extra}
            yield {"kind": "cw", "lens": lens, "C": rng.randrange(1, 4),
                   "ali": [ali != "none" and (ali == "all" or rng.random() < 0.6) for _ in range(N)],
                   "has_uttids": rng.random() < 0.5, **extra}

    LOADER_CLASSES = ("spect", "spect", "spect", "lang", "lang", "cw", "spect_train", "spect_eval",
                      "cw_train", "cw_eval")

    def length_sets(self, rng, tier):
        """Data sets of 0..10 utterances; ties at bucket boundaries, buckets smaller than a batch,
        a zero-length utterance."""
        fixed = [[], [3], [2, 2], [1, 2, 3], [0, 2, 1], [2, 2, 2, 2], [1, 1, 5, 5, 5], [4, 1, 3, 1, 2, 6],
                 [1, 1, 1, 1, 1, 9, 9, 9, 9, 9], [3, 1, 4, 1, 5, 9, 2, 6, 5, 3]]
        extra = 3 if tier == "quick" else 12
        for _ in range(extra):
            n = rng.randrange(0, 11)
            hi = rng.choice((2, 3, 6))
            fixed.append([rng.randrange(1, hi + 1) for _ in range(n)])
        return fixed

    def layouts(self, rng):
        """Directory layouts of one data set: the default one + two drawn ones (each layout is a
        directory on disk, so they are drawn per data set, not per case)."""
        out = [{}]
        for _ in range(2):
            lay = {}
            if rng.random() < 0.4:
                lay["prefix"] = "p-"
            if rng.random() < 0.3:
                lay["suffix"] = ".t7"
            if rng.random() < 0.4:
                lay["subdirs"] = True
            r = rng.random()
            if r < 0.25:
                lay["with_ali"] = False
            elif r < 0.5:
                lay["with_ref"] = False
            out.append(lay)
        return out

    def loader_cases(self, rng, tier):
        sets = self.length_sets(rng, tier)
        per_set = {"quick": 40, "thorough": 300, "search": 200}[tier]
        n_workers_left = {"quick": 10, "thorough": 60, "search": 10}[tier]
        for bad in ("batch_size", "drop_last", "sampler", "batch_sampler", "collate_fn"):
            cls = rng.choice(self.LOADER_CLASSES)
            yield self.loader_case(rng, tier, cls, [2, 1], [1, 2], {}, bad_kwarg=bad)
        for lens in sets:
            N = len(lens)
            rl = [rng.randrange(1, 5) for _ in range(N)]
            if N >= 4 and rng.random() < 0.5:
                rl[1] = rl[0]
                rl[3] = rl[2]
            if 0 in lens:
                rl[rng.randrange(N)] = 0
            lays = self.layouts(rng)
            for _ in range(per_set):
                cls = rng.choice(self.LOADER_CLASSES)
                case = self.loader_case(rng, tier, cls, lens, rl, rng.choice(lays))
                if n_workers_left > 0 and N and rng.random() < 0.08:
                    n_workers_left -= 1
                    case["num_workers"] = rng.choice((1, 2))
                    case["epochs"] = 1
                    case.pop("weave", None)     # worker processes pre-fetch at iter(loader): not this model
                yield case

    def loader_case(self, rng, tier, cls, lens, rl, lay, bad_kwarg=None):
        N = len(lens)
        cw = cls.startswith("cw")
        world = rng.choice((0, 0, 0, 2, 3)) if not cw else rng.choice((0, 0, 2))
        case = {
            "kind": "loader", "cls": cls, "lens": lens, "rlens": rl,
            "B": rng.choice((1, 2, 2, 3, 4, 11)), "nb": rng.choice((1, 2, 2, 3, 4)),
            "dynamic": rng.random() < 0.4, "drop": rng.random() < 0.4,
            "shuffle": rng.random() < 0.6, "sort": rng.random() < 0.5,
            "batch_first": rng.random() < 0.5,
            "suppress_uttids": rng.random() < 0.5, "suppress_alis": rng.random() < 0.5,
            "tokens_only": rng.random() < 0.6, "two_d": rng.random() < 0.4,
            "defaults": rng.random() < 0.25,
            "seed": rng.randrange(1, 1000), "init_epoch": rng.choice((0, 0, 3)),
            "epochs": rng.choice((1, 2, 3)), "world": world,
            "rank": rng.randrange(world) if world else 0,
            "uneven": rng.choice(("uneven", "uneven", "uneven", "raise", "ignore", "drop")),
            "left": rng.randrange(0, 3), "right": rng.randrange(0, 3), "reverse": rng.random() < 0.3,
        }
        if world and tier != "quick" and rng.random() < 0.3:
            case["epochs"] = 6
        if cw:
            case["nb"] = 1
            case["dynamic"] = False
        # ---- options left to the class defaults
        om = [k for k in ("shuffle", "sort_batch", "batch_first", "init_epoch", "uneven", "seed")
              if rng.random() < 0.1 and not (cw and k in ("sort_batch", "batch_first", "uneven"))]
        if om:
            case["omit"] = om
        # ---- how the data and the parameters reach the constructor
        if rng.random() < 0.2:
            case["data_as"] = "dataset"
            case["defaults"] = False
        if rng.random() < 0.25:
            case["split_params"] = True
            if cls.startswith("spect") and rng.random() < 0.3:
                case["legacy_params"] = True
        if N >= 2 and rng.random() < 0.15:
            keep = sorted(rng.sample(range(N), rng.randrange(1, N)))
            case["subset"] = keep + ([99] if rng.random() < 0.3 else [])
            if case.get("split_params") and rng.random() < 0.5:
                case["subset_via_loader_params"] = True
        if rng.random() < 0.2:
            case["sos"] = 7
        if rng.random() < 0.2:
            case["eos"] = 8
        # ---- deprecated keyword routes instead of the parameter objects (path entry only)
        if case.get("data_as") != "dataset":
            via = []
            if cw and rng.random() < 0.2:
                via.append("context")
            if cls.startswith("spect") and ("sos" in case or "eos" in case) and rng.random() < 0.3:
                via.append("sos_eos")
            if cls != "lang" and case.get("subset") and not case.get("subset_via_loader_params") \
                    and rng.random() < 0.3:
                via.append("subset")
            if via:
                case["via_kwargs"] = via
        if cls != "lang" and 0 not in lens:     # (a transform of an empty utterance is C18's subject)
            if rng.random() < 0.12:
                case["mvn"] = True
            if rng.random() < 0.08:
                case["delta"] = 1
        if rng.random() < 0.1:
            case["pin_memory"] = True
        case.update(lay)
        if cls == "lang":
            case.pop("with_ref", None)
        # ---- what is done with the object
        e0 = 0 if "init_epoch" in om else case["init_epoch"]
        if rng.random() < 0.3:
            case["jump"] = rng.randrange(0, e0 + case["epochs"] + 4)
        if rng.random() < 0.25:
            case["abandon"] = True
        if bad_kwarg:
            case["bad_kwarg"] = bad_kwarg
            return case
        # ---- public attributes assigned AFTER construction (before the first pass / between passes /
        # before the last pass); the constructor got the case's own value (or the class default)
        o = eff(case)

        def draw(name):
            if name in ("left", "right"):
                return rng.randrange(0, 3)
            if name == "base_seed":     # another seed (70 %), or the constructor's again
                return case["seed"] + (rng.choice((1, 2)) if rng.random() < 0.7 else 0)
            return (not o[name]) if rng.random() < 0.7 else bool(o[name])
        # the attributes every DERIVED quantity (len, samples, index batches) depends on: the batch sampler's drop
        # flag (no process group), the epoch sampler's base_seed (shuffled loaders)
        derived = ([] if world else ["drop"]) + (["base_seed"] if o["shuffle"] else [])
        names = list(late_attrs(cls)) + derived
        if rng.random() < 0.45:
            case["late"] = [[rng.choice(LATE_POS), n, draw(n)]
                            for n in rng.sample(names, rng.choice((1, 1, 2, 3)))]
        if rng.random() < 0.1:
            case["epoch_via"] = "sampler"       # loader.batch_sampler.sampler.epoch = e instead of loader.epoch = e
        mid_pass = list(late_attrs(cls)) + [n for n in derived if n != "drop"]
        case["weave"] = self.weave_script(rng, len(o["ids"]), e0, case["epochs"],
                                          [(n, draw(n)) for n in mid_pass],
                                          [(n, draw(n)) for n in derived + derived + names])
        return case

    @staticmethod
    def weave_script(rng, N, e0, epochs, attrs=(), between=()):
        """An interleaved section (see `weave_of`): what a training script may do with a loader
        WHILE a pass over it is in flight, the pass being continued to its end afterwards - len()
        for a progress display after the first / any / every batch, a look-up of another epoch's
        samples, a second (third) iterator of the same loader advanced alternately (zip(loader,
        loader)), an epoch assignment, an assignment to a public attribute of the loader / its data
        set (`attrs`: (name, value) pairs to draw from) that every LATER collate call has to honour;
        one iterator may be left unfinished. Pattern `revisit` (`between`: (name, value) pairs that may be
        assigned while no pass is in flight - also the batch sampler's drop flag): an epoch e is MATERIALISED
        (a pass over it / len() at it / a look-up of it), an attribute is reassigned, and the SAME epoch e is
        asked for again (len, look-up, a pass continued to its end) - whatever was derived for e from the old
        value must not survive."""
        some_epoch = lambda: rng.choice((e0, e0, e0 + 1, max(e0 - 1, 0), e0 + epochs, rng.randrange(0, e0 + epochs + 4)))
        w = [["set", e0]] if rng.random() < 0.7 else []
        pat = rng.choice(("log_every", "log_once", "peek_once", "zip", "zip_len", "random", "random")
                         + (("attr_once", "attr_once") if attrs else ())
                         + (("revisit", "revisit", "revisit") if between else ()))

        def attr():
            n, v = rng.choice(attrs)
            return ["attr", n, v]
        if pat == "log_every":          # for i, batch in enumerate(loader): print(i, len(loader))
            w.append(["open"])
            for _ in range(N + 1):
                w += [["next", 0], ["len"]]
        elif pat in ("log_once", "peek_once"):      # after the first / in the middle / before the last batch
            w.append(["open"])
            w += [["next", 0]] * rng.choice((1, 1, max(N // 2, 1), max(N - 1, 1), rng.randrange(1, N + 2)))
            w.append(["len"] if pat == "log_once" else ["peek", some_epoch()])
            if rng.random() < 0.3:
                w.append(rng.choice((["len"], ["peek", some_epoch()])))
            w.append(["drain", 0])
        elif pat == "attr_once":        # loader.batch_first = False (..) before / in the middle of a pass
            if rng.random() < 0.4:
                w.append(attr())
            w.append(["open"])
            if rng.random() < 0.4:      # between iter(loader) and the first batch
                w.append(attr())
            w += [["next", 0]] * rng.choice((0, 1, 1, max(N // 2, 1), rng.randrange(1, N + 2)))
            w += [attr() for _ in range(rng.choice((1, 1, 2)))]
            w.append(["drain", 0])
        elif pat == "revisit":
            e = some_epoch()
            k = 0
            for _ in range(rng.choice((1, 1, 2))):
                w.append(["set", e])
                way = rng.choice(("pass", "len", "peek"))
                if way == "pass":
                    w += [["open"], ["drain", k]]
                    k += 1
                else:
                    w.append(["len"] if way == "len" else ["peek", e])
                n, v = rng.choice(between)
                w.append(["attr", n, v])
                if way != "len" or rng.random() < 0.5:      # (len() then the pass: the loader still stands at e)
                    w.append(["set", e])
                w += rng.choice(([], [], [["len"]], [["peek", e]], [["len"], ["peek", e]]))
                w += [["open"], ["drain", k]]
                k += 1
        elif pat in ("zip", "zip_len"):             # for a, b in zip(loader, loader)
            w += [["open"], ["open"]]
            for i in range(N + 1):
                w += [["next", 0], ["next", 1]]
                if pat == "zip_len" and rng.random() < 0.4:
                    w.append(["len"])
        else:
            n_it, alive = 0, []
            for _ in range(rng.randrange(5, 14)):
                r = rng.random()
                if (r < 0.2 and n_it < 3) or not n_it:
                    w.append(["open"])
                    alive.append(n_it)
                    n_it += 1
                elif r < 0.6:
                    w.append(["next", rng.choice(alive)])
                elif r < 0.68 and attrs:
                    w.append(attr())
                elif r < 0.8:
                    w.append(["len"])
                elif r < 0.92:
                    w.append(["peek", some_epoch()])
                else:
                    w.append(["set", some_epoch()])
            rng.shuffle(alive)
            if len(alive) > 1 and rng.random() < 0.3:
                alive.pop()             # left unfinished (and alive) while the others go on
            for k in alive:
                w.append(["drain", k])
                if rng.random() < 0.3:
                    w.append(["len"])
        return w

    # ================================================================== implementation
    def run_impl(self, case):
        from pydrobert.torch import config
        assert config.INDEX_PAD_VALUE == PAD
        with warnings.catch_warnings():
            warnings.simplefilter("ignore")
            return getattr(self, "impl_" + case["kind"])(case)

    # ---- sampler
    @staticmethod
    def raw_bucket(kind, b):
        """Bucket ids are arbitrary sortable hashables; every coding below keeps the order of `b`."""
        if kind == "neg":
            return b - 5
        if kind == "str":
            return f"b{b:03d}"
        if kind == "tuple":
            return (b // 3, b % 3)
        return b

    def impl_sampler(self, case):
        from pydrobert.torch.data import BucketBatchSampler, EpochRandomSampler, EpochSequentialSampler
        from pydrobert.torch._dataloaders import _get_batch_sampler_len
        kind = case.get("idkind", "int")
        i2b = {i: self.raw_bucket(kind, b) for i, b in case["i2b"]}
        b2s = {self.raw_bucket(kind, b): n for b, n in case["b2s"]}
        plain = case.get("sampler") == "plain"
        real = case.get("sampler") in ("epoch_random", "epoch_seq")
        E = case.get("epoch", 0)
        if real:        # the library's own epoch samplers underneath (order = their epoch E)
            n = len(case["order"])
            smp = (EpochRandomSampler(range(n), E, case["seed"], "ignore") if case["sampler"] == "epoch_random"
                   else EpochSequentialSampler(range(n), E, "ignore"))
        else:
            smp = list(case["order"]) if plain else ListSampler(case["order"])
        args = (smp, i2b, b2s) + (() if case.get("drop_omitted") else (case["drop"],))
        bs = BucketBatchSampler(*args)

        def rewind(e=E):
            if real:
                smp.epoch = e

        def length(obj=None):
            if plain:
                return "undefined"
            rewind()
            try:
                return int(_get_batch_sampler_len(bs if obj is None else obj))
            except Exception as e:
                return {"err": type(e).__name__}

        def full(e=E, obj=None):
            out, err = [], None
            rewind(e)
            try:
                for b in (bs if obj is None else obj):
                    out.append([int(x) for x in b])
            except Exception as e:
                err = type(e).__name__
            return out, err
        ln = length()
        out, err = full()
        again, err2 = full()
        # a pass abandoned after its first batch, with len() asked in the middle, leaves no trace
        first, mid = None, None
        try:
            rewind()
            it = iter(bs)
            first = next(it, None)
            mid = length()
            del it
        except Exception:
            pass
        third, err3 = full()
        # two passes alive at once, advanced alternately, len() (and, with a library sampler, a look-up
        # of another epoch) asked after the first batch; BOTH are continued to their end. With a
        # library sampler the second pass is the NEXT epoch's (a lone pass over it is the reference).
        out_b, err_b = full(E + 1) if real else (out, err)
        got, errs, mid2, other = [[], []], [None, None], None, None
        rewind()
        it_a = iter(bs)
        live = [it_a]
        try:
            b = next(it_a, None)
            if b is not None:
                got[0].append([int(x) for x in b])
            else:
                live = []
        except Exception as e:
            errs[0], live = type(e).__name__, []
        mid2 = length()
        if real:
            other = sorted(int(x) for x in smp.get_samples_for_epoch(E + 3))
        rewind(E + 1)
        it_b = iter(bs)
        live.append(it_b)
        turn = 0
        while live:
            it = live[turn % len(live)]
            which = 0 if it is it_a else 1
            try:
                b = next(it, None)
                if b is None:
                    live.remove(it)
                else:
                    got[which].append([int(x) for x in b])
                    turn += 1
            except Exception as e:
                errs[which] = type(e).__name__
                live.remove(it)
        woven = (got[0] == out and got[1] == out_b and errs == [err, err_b] and mid2 == ln
                 and (other is None or other == list(range(len(case["order"])))))
        # the documented public attributes (sampler, idx2bucket, bucket2size, drop_incomplete) are read at
        # iteration time: (1) an object built from OTHER values and then ASSIGNED this case's behaves like the
        # one constructed with them; (2) flipping drop_incomplete on the used object gives what an object
        # constructed with the flipped flag gives, flipping it back restores the first behaviour
        drop = bool(case["drop"]) and not case.get("drop_omitted")
        late = BucketBatchSampler([] if plain else ListSampler([]), {}, {}, not drop)
        late.sampler, late.idx2bucket, late.bucket2size, late.drop_incomplete = smp, i2b, b2s, drop
        assigned = [full(obj=late), length(late), late.drop_incomplete]
        flipped = BucketBatchSampler(smp, i2b, b2s, not drop)
        want_flip = [full(obj=flipped), length(flipped)]
        bs.drop_incomplete = not drop
        got_flip = [full(), length()]
        bs.drop_incomplete = drop
        back = [full(), length()]
        attr_detail = None
        if assigned != [(out, err), ln, drop]:
            attr_detail = {"assigned_after_construction": assigned, "constructed": [[out, err], ln, drop]}
        elif got_flip != want_flip:
            attr_detail = {"drop_incomplete_flipped_on_the_object": got_flip, "constructed_flipped": want_flip}
        elif back != [(out, err), ln]:
            attr_detail = {"drop_incomplete_flipped_back": back, "at_first": [[out, err], ln]}
        elif case.get("sampler") == "epoch_random":
            # the epoch sampler's documented attribute base_seed, assigned after construction
            smp.base_seed = case["seed"] + 1
            fresh = EpochRandomSampler(range(len(case["order"])), E, case["seed"] + 1, "ignore")
            got_s, want_s = ([int(x) for x in q.get_samples_for_epoch(E + 1)] for q in (smp, fresh))
            smp.base_seed = case["seed"]
            if got_s != want_s or [int(x) for x in smp.get_samples_for_epoch(E)] != case["order"]:
                attr_detail = {"base_seed_assigned": got_s, "constructed_with_it": want_s}
        revisit_detail = self.sampler_revisit(case, i2b, b2s, drop)
        return {"batches": out, "err": err, "len": ln, "repeatable": again == out and err == err2,
                "attrs_ok": attr_detail is None, "attrs_detail": attr_detail,
                "revisit_ok": revisit_detail is None, "revisit_detail": revisit_detail,
                "after_abandon": third == out and err3 == err and mid == ln
                and (first is None or (bool(out) and [int(x) for x in first] == out[0])),
                "interleaved": woven,
                "interleaved_detail": None if woven else {"a": got[0], "b": got[1], "b_alone": out_b, "errs": errs,
                                                          "len": mid2, "other_epoch": other}}

    def sampler_revisit(self, case, i2b, b2s, drop):
        """REASSIGN, THEN REVISIT THE SAME EPOCH. Every public attribute the batch sampler / the epoch
        sampler underneath reads at iteration time (drop_incomplete, bucket2size, idx2bucket, sampler;
        base_seed, total / effective_total, epoch of a library epoch sampler) is assigned on an object
        that has ALREADY materialised the epoch in question - by a full pass, by len(), or by
        get_samples_for_epoch(E) - and the SAME epoch is asked for again: len, samples and batches must
        be those of a fresh object constructed with the new values at that epoch (nothing derived from
        the old values may survive under a key that does not hold the reassigned attribute).
        -> None, or the first difference."""
        from pydrobert.torch.data import BucketBatchSampler, EpochRandomSampler, EpochSequentialSampler
        from pydrobert.torch._dataloaders import _get_batch_sampler_len
        from torch.utils.data import BatchSampler
        skind = case.get("sampler")
        plain = skind == "plain"
        real = skind in ("epoch_random", "epoch_seq")
        E = case.get("epoch", 0)
        n = len(case["order"])
        seed = case.get("seed", 0)
        base = {"order": list(case["order"]), "seed": seed, "total": n, "i2b": i2b, "b2s": b2s, "drop": drop}

        def mk_sampler(v):
            if real:
                if skind == "epoch_random":
                    return EpochRandomSampler(range(v["total"]), E, v["seed"], "ignore")
                return EpochSequentialSampler(range(v["total"]), E, "ignore")
            return list(v["order"]) if plain else ListSampler(v["order"])

        def mk(v):
            if v.get("flavour") == "torch":     # torch's BatchSampler: what a loader with one bucket uses
                return BatchSampler(mk_sampler(v), v["B"], v["drop"])
            return BucketBatchSampler(mk_sampler(v), v["i2b"], v["b2s"], v["drop"])

        def at(bso, e):
            if real:
                bso.sampler.epoch = e

        def length(bso, e):
            if plain:
                return "undefined"
            at(bso, e)
            try:
                return int(_get_batch_sampler_len(bso))
            except Exception as ex:
                return {"err": type(ex).__name__}

        def full(bso, e):
            out, err = [], None
            at(bso, e)
            try:
                for b in bso:
                    out.append([int(x) for x in b])
            except Exception as ex:
                err = type(ex).__name__
            return [out, err]

        def samples(bso, e):
            if not real:
                return None
            return [int(x) for x in bso.sampler.get_samples_for_epoch(e)]

        def materialise(bso, way, e):
            {"pass": full, "len": length, "samples": samples}[way](bso, e)

        def observe(bso, e):
            return {"len": length(bso, e), "samples": samples(bso, e), "batches": full(bso, e)}
        bks = sorted(b2s)
        nxt = {b: bks[(j + 1) % len(bks)] for j, b in enumerate(bks)}
        i2b_alt = {i: nxt.get(b, b) for i, b in i2b.items()}
        b2s_alt = {b: s % 3 + 1 for b, s in b2s.items()}
        v_smp = ({**base, "seed": seed + 1} if skind == "epoch_random" else {**base, "total": max(n - 1, 0)}
                 if real else {**base, "order": list(reversed(case["order"]))})

        def set_total(bso, way):
            bso.sampler.total = bso.sampler.effective_total = max(n - 1, 0)

        def there_and_back(bso, way):       # the epoch counter itself: on to E + 1, that epoch materialised, back
            materialise(bso, way, E + 1)
            at(bso, E)
        alts = [("drop_incomplete", lambda bso, way: setattr(bso, "drop_incomplete", not drop), {**base, "drop": not drop}),
                ("bucket2size", lambda bso, way: setattr(bso, "bucket2size", b2s_alt), {**base, "b2s": b2s_alt}),
                ("idx2bucket", lambda bso, way: setattr(bso, "idx2bucket", i2b_alt), {**base, "i2b": i2b_alt}),
                ("sampler", lambda bso, way: setattr(bso, "sampler", mk_sampler(v_smp)), v_smp)]
        if real:
            alts += [("sampler.total / effective_total", set_total, {**base, "total": max(n - 1, 0)}),
                     ("sampler.epoch (on to the next epoch and back)", there_and_back, base)]
        if skind == "epoch_random":
            alts.append(("sampler.base_seed", lambda bso, way: setattr(bso.sampler, "base_seed", seed + 1),
                         {**base, "seed": seed + 1}))
        # the same with torch's BatchSampler on top (the one-bucket path of the loaders; `_get_batch_sampler_len`
        # hands its len() on): batch_size, drop_last, sampler and the epoch sampler's attributes
        B = max([s for s in b2s.values() if isinstance(s, int) and s > 0] or [1])
        tb = {**base, "flavour": "torch", "B": B}
        talts = [("batch_size (torch BatchSampler)", lambda bso, way: setattr(bso, "batch_size", B % 3 + 1), {**tb, "B": B % 3 + 1}),
                 ("drop_last (torch BatchSampler)", lambda bso, way: setattr(bso, "drop_last", not drop), {**tb, "drop": not drop}),
                 ("sampler (torch BatchSampler)", alts[3][1], {**v_smp, "flavour": "torch", "B": B})]
        talts += [(nm + " (torch BatchSampler on top)", fn, {**v, "flavour": "torch", "B": B}) for nm, fn, v in alts[4:]]
        ways = ("pass",) if plain else ("pass", "len", "samples") if real else ("pass", "len")
        salt = n + sum(s for s in b2s.values() if isinstance(s, int)) + int(drop)
        for j, (name, assign, v) in enumerate(alts):
            # (the small grids without a library sampler are enumerated completely: there one attribute and
            # one way per case, rotating, reaches every attribute x way combination many times over)
            if not real and j != (salt // 2) % len(alts):
                continue
            want = observe(mk(v), E)
            # (every way of materialising for the attributes of the epoch sampler - where an epoch's ordering
            # comes from -, one rotating way for the others)
            for way in (ways if real and j >= 3 else ways[(salt + j) % len(ways):][:1]):
                bso = mk(base)
                materialise(bso, way, E)
                assign(bso, way)
                got = observe(bso, E)
                if got != want:
                    return {"attribute": name, "epoch_materialised_before_by": way, "epoch": E,
                            "after_the_assignment": got, "fresh_object_with_the_new_value": want}
        if real or salt % 3 == 0:
            for j, (name, assign, v) in enumerate(talts):
                if not real and j != (salt // 3) % len(talts):
                    continue
                want = observe(mk(v), E)
                for way in ways[(salt + j) % len(ways):][:1]:
                    bso = mk(tb)
                    materialise(bso, way, E)
                    assign(bso, way)
                    got = observe(bso, E)
                    if got != want:
                        return {"attribute": name, "epoch_materialised_before_by": way, "epoch": E,
                                "after_the_assignment": got, "fresh_object_with_the_new_value": want}
        return None

    # ---- params
    def impl_params(self, case):
        import torch
        from pydrobert.torch._dataloaders import _get_bucket_batch_sampler_params
        mk = {"pair": lambda l: (torch.zeros(l, 1), None),             # SpectDataSet, alis and ids suppressed
              "quad": lambda l: (torch.zeros(l, 2), torch.zeros(l), torch.zeros(3), "id"),
              "bare": lambda l: torch.zeros(l, dtype=torch.long),      # LangDataSet, ids suppressed
              "bare2d": lambda l: torch.zeros(l, 3, dtype=torch.long),
              "lang_pair": lambda l: (torch.zeros(l, dtype=torch.long), "id")}[case.get("elem", "pair")]
        ds = [mk(l) for l in case["lens"]]
        try:
            i2b, b2s = _get_bucket_batch_sampler_params(ds, case["nb"], case["B"], case["dynamic"])
        except Exception as e:
            return {"err": type(e).__name__}
        if sorted(i2b) != list(range(len(ds))):
            return {"err": "idx2bucket keys " + str(sorted(i2b))}
        if sorted(b2s) != list(range(len(b2s))):
            return {"err": "bucket2size keys " + str(sorted(b2s))}
        return {"idx2bucket": [int(i2b[i]) for i in range(len(ds))], "sizes": [int(b2s[j]) for j in range(len(b2s))]}

    # ---- window
    def impl_window(self, case):
        import torch
        from pydrobert.torch.data import extract_window
        lay = case.get("layout", "contig")
        dt = {"f64": torch.double, "i64": torch.long}.get(lay, torch.float)
        feat = torch.tensor(case["feat"], dtype=dt)
        if lay == "strided":        # every second column of a wider matrix
            wide = torch.zeros(feat.size(0), 2 * feat.size(1), dtype=dt)
            wide[:, ::2] = feat
            feat = wide[:, ::2]
        elif lay == "transposed":
            feat = feat.t().contiguous().t()
        before = feat.clone()
        w = extract_window(feat, case["frame"], case["left"], case["right"], case["reverse"])
        return {"window": tolist_int(w), "shape": list(w.shape), "dtype_kept": w.dtype == dt,
                "input_kept": bool(torch.equal(before, feat))}

    # ---- collate functions
    def lang_items(self, case):
        return [(ref_of(i, R, case["two_d"]), utt_id(i)) for i, R in enumerate(case["rlens"])]

    @staticmethod
    def dtypes_of(case):
        import torch
        return (getattr(torch, case.get("fdtype", "float32")), getattr(torch, case.get("rdtype", "int64")))

    @staticmethod
    def snapshot(seq):
        import torch
        return [[x.clone() if isinstance(x, torch.Tensor) else x for x in (t if isinstance(t, tuple) else (t,))]
                for t in seq]

    @staticmethod
    def same_as(snap, seq):
        import torch
        for a, t in zip(snap, seq):
            for x, y in zip(a, t if isinstance(t, tuple) else (t,)):
                if isinstance(x, torch.Tensor):
                    if not (isinstance(y, torch.Tensor) and x.dtype == y.dtype and torch.equal(x, y)):
                        return False
                elif x is not y and x != y:
                    return False
        return len(snap) == len(seq)

    def impl_lang(self, case):
        import torch
        from pydrobert.torch.data import lang_seq_to_batch
        W = 3 if case["two_d"] else None
        _, rdt = self.dtypes_of(case)
        seq = []
        for ref, uid in self.lang_items(case):
            t = torch.tensor(ref, dtype=rdt)
            if W:
                t = t.view(len(ref), 3)
            seq.append((t, uid) if case["has_uttids"] else t)
        if case.get("seq_type") == "tuple":
            seq = tuple(seq)
        snap = self.snapshot(seq)
        if case.get("omit_args"):
            out = lang_seq_to_batch(seq)
        else:
            out = lang_seq_to_batch(seq, case["batch_first"], case["sort"], case["has_uttids"])
        n_members = len(out)
        if case["has_uttids"]:
            refs, sizes, ids = out
            ids = list(ids)
        else:
            (refs, sizes), ids = out, None
        return {"refs": refs.tolist(), "sizes": sizes.tolist(), "ids": ids, "shape": list(refs.shape),
                "n_members": n_members, "dtypes_ok": refs.dtype == rdt and sizes.dtype == torch.long,
                "input_kept": self.same_as(snap, seq)}

    def spect_items(self, case):
        items = []
        for i, (T, R) in enumerate(zip(case["lens"], case["rlens"])):
            items.append({"feat": feat_of(i, T),
                          "ali": ali_of(i, T) if (case["has_alis"] and case["ali"][i]) else None,
                          "ref": ref_of(i, R, case["two_d"]) if case["ref"][i] else None,
                          "id": utt_id(i)})
        return items

    def impl_spect(self, case):
        import torch
        from pydrobert.torch.data import spect_seq_to_batch
        fdt, rdt = self.dtypes_of(case)
        seq = []
        for it in self.spect_items(case):
            T = len(it["feat"])
            tup = [torch.tensor(it["feat"], dtype=fdt).view(T, F)]
            if case["has_alis"]:
                tup.append(None if it["ali"] is None else torch.tensor(it["ali"], dtype=torch.long))
            if it["ref"] is None:
                tup.append(None)
            else:
                r = torch.tensor(it["ref"], dtype=rdt)
                tup.append(r.view(len(it["ref"]), 3) if case["two_d"] else r)
            if case["has_uttids"]:
                tup.append(it["id"])
            seq.append(tuple(tup))
        if case.get("seq_type") == "tuple":
            seq = tuple(seq)
        snap = self.snapshot(seq)
        if case.get("omit_args"):
            out = list(spect_seq_to_batch(seq))
        else:
            out = list(spect_seq_to_batch(seq, case["batch_first"], case["sort"], case["has_alis"],
                                          case["has_uttids"]))
        n_all = len(out)
        ids = list(out.pop()) if case["has_uttids"] else None
        if case["has_alis"]:
            feats, alis, refs, fs, rs = out
        else:
            (feats, refs, fs, rs), alis = out, None
        return {"feats": tolist_int(feats), "alis": None if alis is None else alis.tolist(),
                "refs": None if refs is None else refs.tolist(), "feat_sizes": fs.tolist(),
                "ref_sizes": None if rs is None else rs.tolist(), "ids": ids, "n_members": n_all,
                "dtypes_ok": feats.dtype == fdt and fs.dtype == torch.long
                and (refs is None or (refs.dtype == rdt and rs.dtype == torch.long))
                and (alis is None or alis.dtype == torch.long),
                "input_kept": self.same_as(snap, seq)}

    def cw_items(self, case):
        C = case["C"]
        items = []
        for i, T in enumerate(case["lens"]):
            win = [[[1000 * (i + 1) + 100 * t + 10 * c + f for f in range(F)] for c in range(C)] for t in range(T)]
            items.append({"win": win, "ali": ali_of(i, T) if case["ali"][i] else None, "id": utt_id(i)})
        return items

    def impl_cw(self, case):
        import torch
        from pydrobert.torch.data import context_window_seq_to_batch
        fdt, _ = self.dtypes_of(case)
        seq = []
        for it in self.cw_items(case):
            T = len(it["win"])
            tup = [torch.tensor(it["win"], dtype=fdt).view(T, case["C"], F),
                   None if it["ali"] is None else torch.tensor(it["ali"], dtype=torch.long)]
            if case["has_uttids"]:
                tup.append(it["id"])
            seq.append(tuple(tup))
        if case.get("seq_type") == "tuple":
            seq = tuple(seq)
        snap = self.snapshot(seq)
        if case.get("omit_args"):
            out = context_window_seq_to_batch(seq)
        else:
            out = context_window_seq_to_batch(seq, case["has_uttids"])
        res = {"windows": tolist_int(out[0]), "alis": None if out[1] is None else out[1].tolist(),
               "n_members": len(out), "dtypes_ok": out[0].dtype == fdt, "input_kept": self.same_as(snap, seq)}
        if case["has_uttids"]:
            res["sizes"] = out[2].tolist()
            res["ids"] = list(out[3])
        return res

    # ---- loaders
    def make_params(self, case, o):
        """-> (params, data_params or None): merged parameter object, or loader parameters +
        separate data-set parameters (`split_params`; `legacy_params`: the deprecated plain
        DataLoaderParams for a SpectDataLoader, which means one bucket)."""
        from pydrobert.torch import data
        cls = case["cls"]
        dkw = {}
        via = case.get("via_kwargs", ())
        if case.get("subset") and "subset" not in via:
            dkw["subset_ids"] = [utt_id(i) for i in case["subset"]]
        for k in ("sos", "eos"):
            if o[k] is not None and "sos_eos" not in via:
                dkw[k] = o[k]
        if cls != "lang":
            if case.get("mvn"):
                dkw["do_mvn"] = True
            if case.get("delta"):
                dkw["delta_order"] = int(case["delta"])
        lkw = {"batch_size": case["B"], "drop_last": o["drop"]}
        if o["cw"]:
            if "context" not in via:
                dkw.update(context_left=o["left"], context_right=o["right"], reverse=o["reverse"])
            merged, lonly, donly = (data.ContextWindowDataLoaderParams, data.DataLoaderParams,
                                    data.ContextWindowDataParams)
        else:
            bkw = {"num_length_buckets": case["nb"], "size_batch_by_length": case["dynamic"]}
            if cls == "lang":
                merged, lonly, donly = (data.LangDataLoaderParams, data.DynamicLengthDataLoaderParams,
                                        data.LangDataParams)
            else:
                merged, lonly, donly = (data.SpectDataLoaderParams, data.DynamicLengthDataLoaderParams,
                                        data.SpectDataParams)
            if case.get("legacy_params"):
                lonly = data.DataLoaderParams
            else:
                lkw.update(bkw)
        if not case.get("split_params"):
            return merged(**lkw, **dkw), None
        if (case.get("subset_via_loader_params") and cls != "lang" and not case.get("legacy_params")
                and case.get("data_as") != "dataset"):
            # deprecated route: subset_ids on the loader's parameter object, copied over by the loader
            sub = dkw.pop("subset_ids", [])
            return merged(subset_ids=sub, **lkw), donly(**dkw)
        return lonly(**lkw), donly(**dkw)

    def ds_kwargs(self, case, o, for_dataset, om=None):
        """Keyword arguments that describe the data set (given to the loader with a path, to the
        data-set constructor with `data_as == 'dataset'`)."""
        import torch
        cls = case["cls"]
        om = omitted(case) if om is None else om
        kw = {}
        if case.get("prefix"):
            kw["file_prefix"] = case["prefix"]
        if case.get("suffix", ".pt") != ".pt":
            kw["file_suffix"] = case["suffix"]
        if case.get("subdirs") and cls != "lang":
            fd, ad, rd = SUBDIRS[True]
            kw.update(feat_subdir=fd, ali_subdir=ad)
            if not o["cw"]:
                kw["ref_subdir"] = rd
        if case.get("mvn") and cls != "lang":
            kw.update(feat_mean=torch.tensor(MVN_MEAN), feat_std=torch.tensor(MVN_STD))
        if not for_dataset:
            via = case.get("via_kwargs", ())
            if "context" in via:
                kw.update(left=o["left"], right=o["right"], reverse=o["reverse"])
            if "sos_eos" in via:
                kw.update({k: o[k] for k in ("sos", "eos") if o[k] is not None})
            if "subset" in via:
                kw["subset_ids"] = {utt_id(i) for i in case["subset"]}
        flags = ["suppress_uttids"] + ([] if o["cw"] else ["tokens_only"]) + (
            ["suppress_alis"] if cls.startswith("spect") else [])
        for k in flags:
            if for_dataset or k not in om:
                kw[k] = o[k]
        return kw

    def build_loader(self, case, epoch=None, now=None):
        """The loader of the case; `epoch`: construct it at that epoch instead of the case's
        (possibly omitted) `init_epoch`; `now`: construct it WITH these values of the assignable
        attributes (all passed explicitly) instead of the case's constructor values."""
        from pydrobert.torch import data
        cls = case["cls"]
        o = eff(case)
        om = omitted(case)
        if now is not None:
            o = {**o, **now}
            om = om - set(SNAP_KEYS)
        d = dataset_dir(case["lens"], case["rlens"], case["two_d"], o["with_ali"], o["with_ref"],
                        case.get("prefix", ""), case.get("suffix", ".pt"), bool(case.get("subdirs")))
        root = os.path.join(d, SUBDIRS[bool(case.get("subdirs"))][2]) if cls == "lang" else d
        params, data_params = self.make_params(case, o)
        as_ds = case.get("data_as") == "dataset"
        kw = {}
        if as_ds:
            ds_cls = data.LangDataSet if cls == "lang" else (
                data.ContextWindowDataSet if o["cw"] else data.SpectDataSet)
            target = ds_cls(root, params=data_params if data_params is not None else params,
                            **self.ds_kwargs(case, o, True, om))
        else:
            target = root
            kw.update(self.ds_kwargs(case, o, False, om))
        if data_params is not None:
            kw["data_params"] = data_params
        for k in ("shuffle", "sort_batch", "batch_first"):
            if k not in om and not (o["cw"] and k != "shuffle"):
                kw[k] = o[k]
        if epoch is not None:
            kw["init_epoch"] = epoch
        elif "init_epoch" not in om:
            kw["init_epoch"] = o["init_epoch"]
        if o["base_seed"] is not None:      # (`now`: the value assigned since; None = left to the constructor's draw)
            kw["seed"] = o["base_seed"]
        if "uneven" not in om and not o["cw"]:
            kw["on_uneven_distributed"] = o["uneven"]
        kw["num_workers"] = o["workers"]
        if case.get("pin_memory"):
            kw["pin_memory"] = True
        if case.get("bad_kwarg"):
            kw[case["bad_kwarg"]] = {"batch_size": 3, "drop_last": True}.get(case["bad_kwarg"])
        ctor = {"lang": data.LangDataLoader, "spect": data.SpectDataLoader,
                "spect_train": data.SpectTrainingDataLoader, "spect_eval": data.SpectEvaluationDataLoader,
                "cw": data.ContextWindowDataLoader, "cw_train": data.ContextWindowTrainingDataLoader,
                "cw_eval": data.ContextWindowEvaluationDataLoader}[cls]
        return ctor(target, params, **kw)

    def expected_utts(self, case, o, ds, feats=None):
        """What every utterance of the (possibly restricted) data set looks like, by data-set
        index. Untransformed features / alignments / references come from the generator's own
        coding; with a feature transform (mvn, deltas) the data set's own item is the original."""
        import torch
        out = []
        for j, i in enumerate(o["ids"]):
            T = case["lens"][i]
            if o["lang"]:
                feat = None
            elif o["transformed"]:
                if feats is None or j not in feats:     # (the features do not depend on the assignable flags)
                    feat = ds.get_utterance_tuple(j)[0]
                    if feats is not None:
                        feats[j] = feat
                feat = feat if feats is None else feats[j]
            else:
                feat = torch.tensor(feat_of(i, T), dtype=torch.float).view(T, F)
            out.append({"i": i, "id": utt_id(i), "T": T, "feat": feat,
                        "ali": ali_of(i, T) if (o["ali_found"] and not o["suppress_alis"]) else None,
                        "ref": ref_expected(case, o, i) if (o["with_ref"] and not o["cw"]) else None})
        return out

    def canon_batch(self, case, o, exp, batch):
        """-> {"rows": [data-set index per row], problems: [...]} ; checks losslessness of the
        collation against the data set contents (cut back to reported size == original tensor,
        padding cells == pad value, ids attached to their rows, tuple layout as documented)."""
        import torch
        if o["cw"]:
            return self.canon_cw(case, o, exp, batch)
        probs = []
        lang = o["lang"]
        has_ids = not o["suppress_uttids"]
        has_alis = not lang and not o["suppress_alis"]
        want = (2 if lang else 4) + int(has_alis) + int(has_ids)
        if not isinstance(batch, (tuple, list)) or len(batch) != want:
            n = len(batch) if isinstance(batch, (tuple, list)) else type(batch).__name__
            return {"rows": [], "problems": [f"batch tuple has {n} members, {want} documented"], "has_ids": has_ids}
        batch = list(batch)
        ids = list(batch.pop()) if has_ids else None
        alis = feats = fsizes = None
        if lang:
            refs, rsizes = batch
        elif has_alis:
            feats, alis, refs, fsizes, rsizes = batch
        else:
            feats, refs, fsizes, rsizes = batch
        bf = o["batch_first"]

        def rows_of(t):
            return t if bf else t.transpose(0, 1)
        key = rows_of(refs) if lang else rows_of(feats)
        sizes = rsizes if lang else fsizes
        if key is None or sizes is None:
            return {"rows": [], "problems": ["the bucketed member of the batch is None"], "has_ids": has_ids}
        n_rows = key.size(0)
        if sizes.numel() != n_rows:
            probs.append(f"{sizes.numel()} sizes for {n_rows} rows (the padded member has shape "
                         f"{tuple((refs if lang else feats).shape)}, batch_first = {bf} at this call)")
            return {"rows": [], "problems": probs, "has_ids": has_ids}
        if sizes.dtype != torch.long:
            probs.append(f"sizes have dtype {sizes.dtype}")
        if n_rows and key.size(1) != int(sizes.max()):
            probs.append(f"padded length {key.size(1)} != longest reported size {int(sizes.max())} (the padded "
                         f"member has shape {tuple((refs if lang else feats).shape)}, batch_first = {bf} at this call)")
        if ids is not None and len(ids) != n_rows:
            probs.append(f"{len(ids)} ids for {n_rows} rows")
            return {"rows": [], "problems": probs, "has_ids": has_ids}
        rows = []
        for n in range(n_rows):
            sz = int(sizes[n])
            # which utterance is this row? from its content, cross-checked with the id
            cut = key[n][:sz]
            if lang:
                cand = [j for j, u in enumerate(exp) if len(u["ref"]) == sz and cut.tolist() == u["ref"]]
            else:
                cand = [j for j, u in enumerate(exp) if u["T"] == sz and u["feat"].shape == cut.shape
                        and torch.equal(u["feat"], cut)]
            if ids is not None:
                named = [j for j, u in enumerate(exp) if u["id"] == ids[n]]
                if not named:
                    probs.append(f"row {n} carries the unknown id {ids[n]}")
                elif named[0] not in cand:
                    probs.append(f"row {n}: cut to its size it is not the utterance its id {ids[n]} names")
                cand = [j for j in cand if j in named] or cand
            if len(cand) != 1:
                probs.append(f"row {n}: cut to its size it is not an utterance of the data set")
                rows.append(-1)
                continue
            j = cand[0]
            u = exp[j]
            rows.append(j)
            T = u["T"]
            if not lang:
                f = rows_of(feats)[n]
                if f.dtype != u["feat"].dtype:
                    probs.append(f"feats have dtype {f.dtype}, the data set's {u['feat'].dtype}")
                if bool((f[sz:] != 0).any()):
                    probs.append(f"row {n}: feature padding is not 0")
                if has_alis:
                    if (alis is None) != (u["ali"] is None):
                        probs.append("alis present iff the data set has alignments: violated")
                    elif alis is not None:
                        a = rows_of(alis)[n]
                        if a[:T].tolist() != u["ali"]:
                            probs.append(f"row {n}: alis cut to its size != utterance {u['id']}")
                        if bool((a[T:] != PAD).any()):
                            probs.append(f"row {n}: ali padding is not {PAD}")
            if (refs is None) != (u["ref"] is None) or (rsizes is None) != (u["ref"] is None):
                probs.append("refs / ref_sizes present iff the data set has references: violated")
            elif refs is not None:
                r = rows_of(refs)[n]
                R = len(u["ref"])
                if int(rsizes[n]) != R or r[:R].tolist() != u["ref"]:
                    probs.append(f"row {n}: refs cut to its size != utterance {u['id']}")
                if bool((r[int(rsizes[n]):] != PAD).any()):
                    probs.append(f"row {n}: ref padding is not {PAD}")
        return {"rows": rows, "problems": probs, "has_ids": ids is not None}

    def canon_cw(self, case, o, exp, batch):
        import torch
        probs = []
        has_ids = not o["suppress_uttids"]
        want = 4 if has_ids else 2
        if not isinstance(batch, (tuple, list)) or len(batch) != want:
            n = len(batch) if isinstance(batch, (tuple, list)) else type(batch).__name__
            return {"rows": [], "problems": [f"batch tuple has {n} members, {want} documented"], "has_ids": has_ids}
        if has_ids:
            windows, alis, wsizes, ids = batch
            ids = list(ids)
        else:
            (windows, alis), wsizes, ids = batch, None, None
        left, right, rev = o["left"], o["right"], o["reverse"]
        C = 1 + left + right
        if windows.dim() != 3 or windows.size(1) != C:
            probs.append(f"windows shape {list(windows.shape)}")
            return {"rows": [], "problems": probs, "has_ids": has_ids}

        def want_windows(u):
            T, feat = u["T"], u["feat"]
            idx = [[min(max(t - left + c, 0), T - 1) for c in range(C)] for t in range(T)]
            if rev:
                idx = [w[::-1] for w in idx]
            if not T:
                return feat.new_zeros(0, C, feat.size(1))
            return feat[torch.tensor(idx)]
        rows, pos, n = [], 0, 0
        total = windows.size(0)
        while pos < total or (has_ids and n < len(ids)):
            if has_ids:
                if n >= len(ids) or n >= wsizes.numel():
                    probs.append("window count does not add up to the reported sizes")
                    break
                named = [j for j, u in enumerate(exp) if u["id"] == ids[n]]
                T = int(wsizes[n])
                cand = [j for j in named if exp[j]["T"] == T]
                if not cand:
                    probs.append(f"group {n}: id/size not attached to an utterance ({ids[n]}, {T})")
                    break
            else:
                cand = [j for j, u in enumerate(exp) if u["T"] > 0 and pos + u["T"] <= total]
            hit = None
            for j in cand:
                w = want_windows(exp[j])
                got = windows[pos:pos + exp[j]["T"]]
                if got.shape == w.shape and torch.equal(got, w):
                    hit = j
                    break
            if hit is None:
                probs.append(f"group {n}: the windows at {pos} are not feat[clamp(t-left+c)] of an utterance"
                             + (f" (id {ids[n]})" if has_ids else ""))
                break
            u = exp[hit]
            rows.append(hit)
            if (alis is None) != (u["ali"] is None):
                probs.append("alis present iff the data set has alignments: violated")
            elif alis is not None and alis[pos:pos + u["T"]].tolist() != u["ali"]:
                probs.append(f"group {n}: alis != utterance {u['id']}")
            pos += u["T"]
            n += 1
        if not probs and pos != total:
            probs.append("window count does not add up")
        if has_ids and not probs and len(ids) != len(rows):
            probs.append(f"{len(ids)} ids for {len(rows)} utterances")
        return {"rows": rows, "problems": probs, "has_ids": has_ids}

    @staticmethod
    def same_batches(xs, ys):
        """Two lists of collated batches, member by member (None = identical; else where they differ)."""
        import torch
        if len(xs) != len(ys):
            return f"{len(xs)} batches vs {len(ys)}"
        for n, (x, y) in enumerate(zip(xs, ys)):
            x, y = (list(t) if isinstance(t, (tuple, list)) else [t] for t in (x, y))
            if len(x) != len(y):
                return f"batch {n}: tuples of {len(x)} vs {len(y)} members"
            for m, (u, v) in enumerate(zip(x, y)):
                if isinstance(u, torch.Tensor) or isinstance(v, torch.Tensor):
                    if not (isinstance(u, torch.Tensor) and isinstance(v, torch.Tensor) and u.dtype == v.dtype
                            and u.shape == v.shape and torch.equal(u, v)):
                        shp = [tuple(t.shape) if isinstance(t, torch.Tensor) else t for t in (u, v)]
                        return f"batch {n}, member {m}: {shp[0]} vs {shp[1]}"
                elif (u is None) != (v is None) or (u is not None and list(u) != list(v)):
                    return f"batch {n}, member {m}: {u} vs {v}"
        return None

    def impl_loader(self, case):
        import torch
        o = eff(case)
        W, rank = case.get("world", 0), case.get("rank", 0)
        e0, k = o["init_epoch"], case["epochs"]
        seedless = "seed" in omitted(case)
        with fake_dist(rank, W):
            if seedless:
                torch.manual_seed(case["seed"])
            loader = self.build_loader(case)
            ds = loader.dataset
            cur = dict(o)       # the options in force: the constructor's, then whatever was assigned since
            exps, feats = {}, {}

            def exp():
                key = (cur["suppress_alis"], cur["tokens_only"])
                if key not in exps:
                    exps[key] = self.expected_utts(case, cur, ds, feats)
                return exps[key]
            exp()
            obs = {"serves": [], "n_utts": len(ds), "utt_ids": list(ds.utt_ids)}
            if seedless:
                obs["base_seed"] = int(getattr(loader.batch_sampler.sampler, "base_seed", -1))
                self._seeds[self.key(case)] = obs["base_seed"]
            raw_last = []

            def full(tag, keep=None):
                eb, lb = int(loader.epoch), len(loader)
                bs = []
                for b in loader:
                    if keep is not None:
                        keep.append(b)
                    bs.append(self.canon_batch(case, cur, exp(), b))
                return {"tag": tag, "epoch_before": eb, "len_before": lb, "rows": [b["rows"] for b in bs],
                        "problems": [p for b in bs for p in b["problems"]][:5],
                        "has_ids": [b["has_ids"] for b in bs][:1], "opts": snap(cur),
                        "len_after": len(loader), "epoch_after": int(loader.epoch)}
            its = []            # the iter(loader) objects of the interleaved section, all kept alive
            obs["events"] = []
            for op, arg in ops_of(case):
                if op in WEAVE_OPS:
                    ev = {"op": op, "epoch_before": int(loader.epoch)}
                    if op == "open":
                        its.append(iter(loader))
                    elif op == "next":
                        ev["k"] = arg
                        ev["opts"] = snap(cur)
                        try:
                            cb = self.canon_batch(case, cur, exp(), next(its[arg]))
                            ev["row"], ev["problems"] = cb["rows"], cb["problems"][:3]
                        except StopIteration:
                            ev["stop"] = True
                    elif op == "len":
                        ev["len"] = len(loader)
                        ev["opts"] = snap(cur)
                    else:
                        ev["of"] = arg
                        ev["opts"] = snap(cur)
                        ev["samples"] = [int(x) for x in loader.batch_sampler.sampler.get_samples_for_epoch(arg)]
                    ev["epoch_after"] = int(loader.epoch)
                    obs["events"].append(ev)
                    continue
                if op == "attr":        # an assignment to a public attribute, after construction
                    eb = int(loader.epoch)
                    back = assign_attr(loader, arg[0], arg[1])
                    cur = with_attr(cur, arg[0], arg[1])
                    obs["events"].append({"op": "attr", "name": arg[0], "value": arg[1], "reads_back": back,
                                          "opts": snap(cur), "epoch_before": eb, "epoch_after": int(loader.epoch)})
                    continue
                obs["events"].append(None)
                if op == "set":
                    if case.get("epoch_via") == "sampler":
                        loader.batch_sampler.sampler.epoch = arg
                    else:
                        loader.epoch = arg
                elif op == "serve":
                    last = arg == "epoch" and len(obs["serves"]) == k - 1
                    obs["serves"].append(full(arg, raw_last if last else None))
                    if last:
                        obs["epoch_attr"] = int(loader.epoch)
                        # identical (seed, epoch) => identical batches: a fresh loader CONSTRUCTED with the
                        # values the attributes have by now, started at the last epoch, member by member
                        if seedless:
                            torch.manual_seed(case["seed"])
                        l2 = self.build_loader(case, epoch=e0 + k - 1, now=None if snap(cur) == snap(o) else snap(cur))
                        raw2 = list(l2)
                        obs["direct_last"] = [self.canon_batch(case, cur, exp(), b)["rows"] for b in raw2]
                        obs["direct_diff"] = self.same_batches(raw_last, raw2)
                else:       # an iteration abandoned after its first batch
                    eb, lb = int(loader.epoch), len(loader)
                    it = iter(loader)
                    first = next(it, None)
                    del it
                    obs["serves"].append({
                        "tag": arg, "partial": True, "epoch_before": eb, "len_before": lb, "opts": snap(cur),
                        "first": None if first is None else self.canon_batch(case, cur, exp(), first)["rows"],
                        "epoch_after": int(loader.epoch)})
        return obs

    # ================================================================== model requests
    def model_request(self, case):
        k = case["kind"]
        if k == "sampler":
            return {"op": "c14.bucket", "case": {x: case[x] for x in ("order", "i2b", "b2s", "drop")}}
        if k == "params":
            return {"op": "c14.params", "case": {x: case[x] for x in ("lens", "nb", "B", "dynamic")}}
        if k == "window":
            return {"op": "c14.window", "case": {x: case[x] for x in ("feat", "frame", "left", "right", "reverse")}}
        if k == "lang":
            items = [{"ref": r if case["two_d"] else [[t] for t in r], "id": u} for r, u in self.lang_items(case)]
            return {"op": "c14.collate_lang", "case": {"items": items, "sort": case["sort"], "pad": PAD,
                                                       "width": 3 if case["two_d"] else 1}}
        if k == "spect":
            items = []
            for it in self.spect_items(case):
                items.append({"feat": it["feat"], "id": it["id"],
                              "ali": None if it["ali"] is None else [[a] for a in it["ali"]],
                              "ref": None if it["ref"] is None else (
                                  it["ref"] if case["two_d"] else [[t] for t in it["ref"]])})
            return {"op": "c14.collate_spect", "case": {"items": items, "sort": case["sort"], "pad": PAD,
                                                        "F": F, "W": 3 if case["two_d"] else 1}}
        if k == "cw":
            items = [{"win": [[c for c in w] for w in it["win"]], "ali": it["ali"], "id": it["id"]}
                     for it in self.cw_items(case)]
            # one window (C x F) travels as a row list of C rows; the model treats it as opaque
            return {"op": "c14.collate_cw", "case": {"items": [
                {"win": [[x for row in w for x in row] for w in it["win"]], "ali": it["ali"], "id": it["id"]}
                for it in items]}}
        if k == "loader":
            if case.get("bad_kwarg"):
                return None
            o = eff(case)
            seed = self.seed_of(case)
            N = len(o["ids"])
            W = case.get("world", 0)
            return {"op": "c14.loader", "case": {
                "lens": key_lens(case), "nb": o["nb"], "B": case["B"], "dynamic": case["dynamic"],
                "drop": case["drop"], "cls": "cw" if o["cw"] else "lang" if o["lang"] else "spect",
                "present": {k: bool(o[k]) for k in FLAG_ATTRS}, "mode": o["uneven"],
                "dist": [case.get("rank", 0), W] if W else None, "init_epoch": o["init_epoch"],
                "perms": [[e, ordering(case, seed, e, N)] for e in epochs_reached(case)],
                "seed": seed,
                "reseed": [[s2, [[e, ordering(case, s2, e, N)] for e in epochs_reached(case)]]
                           for s2 in sorted({int(arg[1]) for op, arg in ops_of(case)
                                             if op == "attr" and arg[0] == "base_seed"} - {seed})],
                "ops": [m for m in (model_op(op, arg) for op, arg in ops_of(case)) if m is not None]}}
        return None

    # ================================================================== correspondence
    def compare(self, case, impl, model):
        k = case["kind"]
        if k == "loader":
            return self.compare_loader(case, impl, model)
        if "error" in impl:
            return [f"implementation raised {impl['error']}: {impl.get('message')}"]
        out = []
        if k == "sampler":
            ib, mb = impl["batches"], model["batches"]
            if case.get("idkind", "int") != "int" and not case["drop"] and impl["err"] is None:
                # the incomplete batches come "in the order of their bucket ids' hashes": only for
                # non-negative integers is that the order of the ids, so it is not compared otherwise
                t = sum(1 for sp in model["spec"] if sp and sp["rest"])
                cut = len(mb) - t
                ib, mb = ib[:cut] + sorted(ib[cut:]), mb[:cut] + sorted(mb[cut:])
            if ib != mb:
                out.append(f"batches: impl={impl['batches']} model={model['batches']}")
            for f in ("err", "len"):
                if impl[f] != model[f] and not (f == "len" and impl[f] == "undefined"):
                    out.append(f"{f}: impl={impl[f]} model={model[f]}")
        elif k == "params":
            if "err" in impl or "err" in model:
                if impl.get("err") != model.get("err"):
                    out.append(f"impl={impl} model={model}")
            else:
                for f in ("idx2bucket", "sizes"):
                    if impl[f] != model[f]:
                        out.append(f"{f}: impl={impl[f]} model={model[f]}")
        elif k == "window":
            if impl["window"] != model["model"]:
                out.append(f"window: impl={impl['window']} model={model['model']}")
        elif k == "lang":
            m = model["refs"] if case["batch_first"] else model["refs_tf"]
            if not case["two_d"]:
                m = [[c[0] for c in r] for r in m]
            if impl["refs"] != m:
                out.append(f"refs: impl={impl['refs']} model={m}")
            if impl["sizes"] != model["sizes"]:
                out.append(f"sizes: impl={impl['sizes']} model={model['sizes']}")
            if impl["ids"] is not None and impl["ids"] != model["ids"]:
                out.append(f"ids: impl={impl['ids']} model={model['ids']}")
        elif k == "spect":
            sfx = "" if case["batch_first"] else "_tf"
            mf = model["feats" + sfx]
            if impl["feats"] != mf:
                out.append(f"feats: impl={impl['feats']} model={mf}")
            ma = model["alis" + sfx] if case["has_alis"] else None
            if ma is not None:
                ma = [[c[0] for c in r] for r in ma]
            if impl["alis"] != ma:
                out.append(f"alis: impl={impl['alis']} model={ma}")
            mr = model["refs" + sfx]
            if mr is not None and not case["two_d"]:
                mr = [[c[0] for c in r] for r in mr]
            if impl["refs"] != mr:
                out.append(f"refs: impl={impl['refs']} model={mr}")
            for f in ("feat_sizes", "ref_sizes"):
                if impl[f] != model[f]:
                    out.append(f"{f}: impl={impl[f]} model={model[f]}")
            if impl["ids"] is not None and impl["ids"] != model["ids"]:
                out.append(f"ids: impl={impl['ids']} model={model['ids']}")
        elif k == "cw":
            C = case["C"]
            mw = [[w[c * F:(c + 1) * F] for c in range(C)] for w in model["windows"]]
            if impl["windows"] != mw:
                out.append(f"windows: impl={impl['windows']} model={mw}")
            if impl["alis"] != model["alis"]:
                out.append(f"alis: impl={impl['alis']} model={model['alis']}")
            if case["has_uttids"] and (impl["sizes"] != model["sizes"] or impl["ids"] != model["ids"]):
                out.append(f"sizes/ids: impl={impl['sizes']},{impl['ids']} model={model['sizes']},{model['ids']}")
        return out

    def seed_of(self, case):
        """The shuffling seed in force: the case's, or - for a loader built without `seed` - the
        `base_seed` attribute its sampler reports (drawn from torch's generator after manual_seed)."""
        if "seed" in omitted(case):
            return max(self._seeds.get(self.key(case), 0), 0)
        return case["seed"]

    def seed_in(self, case, opts):
        """The shuffling seed in force at an operation: the value last assigned to
        `sampler.base_seed`, else the constructor's (given or drawn)."""
        s = (opts or {}).get("base_seed")
        return self.seed_of(case) if s is None else int(s)

    def seed_differs(self, case, a, b):
        if "seed" in b and "opts" in a and b["seed"] != self.seed_in(case, a["opts"]):
            return [f"base_seed in force: harness {self.seed_in(case, a['opts'])}, model {b['seed']}"]
        return []

    def compare_loader(self, case, impl, model):
        if "error" in impl:
            if "err" in model and impl["error"] == model["err"]:
                return []
            return [f"implementation raised {impl['error']}: {impl.get('message')}; model={short(model)}"]
        if "err" in model:
            return [f"model fails with {model['err']}, implementation built a loader"]
        out = []
        o = eff(case)
        if impl["n_utts"] != len(o["ids"]):
            out.append(f"data set has {impl['n_utts']} utterances, expected {len(o['ids'])}")
        if len(impl["serves"]) != len(model["serves"]):
            return out + [f"{len(impl['serves'])} passes observed, model has {len(model['serves'])}"]
        seed = self.seed_of(case)
        lens = key_lens(case)
        for a, b in zip(impl["serves"], model["serves"]):
            w = f"{a['tag']} pass (epoch {b['epoch']}): "
            if "err" in b and "batches" not in b:
                out.append(w + f"model fails with {b['err']}")
                continue
            if a["epoch_before"] != b["epoch"]:
                out.append(w + f"loader.epoch = {a['epoch_before']} before the pass")
            out += [w + x for x in self.flags_differ(a, b) + self.seed_differs(case, a, b)]
            if a["len_before"] != b["len"]:
                out.append(w + f"len() before the pass impl={a['len_before']} model={b['len']}")
            want = b["rows"]
            if o["cw"] and a["opts"]["suppress_uttids"]:
                want = [[x for x in r if lens[x] > 0] for r in want]    # invisible without sizes
            if a.get("partial"):
                first = want[0] if want else None
                if a["first"] != first:
                    out.append(w + f"first batch impl={a['first']} model={first}")
                continue
            if a["rows"] != want:
                out.append(w + f"batches impl={a['rows']} model={want}")
            if a["len_after"] != b["len_after"]:
                out.append(w + f"len() after the pass impl={a['len_after']} model={b['len_after']}")
            lib = sub_order(case, self.seed_in(case, a["opts"]), b["epoch"])
            if lib != b["order"]:
                out.append(w + f"sample order of a library sampler object {lib} != C13 model {b['order']}")
        # the interleaved section, operation by operation
        invisible = False
        for n, ((op, arg), a, b) in enumerate(aligned(case, impl, model)):
            if a is None or b is None or (op not in WEAVE_OPS and op != "attr"):
                continue
            w = f"operation {n} ({op}{'' if arg is None else ' ' + str(arg)}, loader at epoch {b['epoch']}): "
            if a["epoch_before"] != b["epoch"] or a["epoch_after"] != b["epoch_after"]:
                out.append(w + f"loader.epoch {a['epoch_before']} -> {a['epoch_after']}, model "
                           f"{b['epoch']} -> {b['epoch_after']}")
            if "opts" in a:
                out += [w + x for x in self.flags_differ(a, b) + self.seed_differs(case, a, b)]
                invisible = o["cw"] and a["opts"]["suppress_uttids"]
            if op == "next":
                if "err" in b:
                    out.append(w + f"model fails with {b['err']}")
                    continue
                want = b.get("row")
                if want is not None and invisible:
                    want = [x for x in want if lens[x] > 0]
                got = None if a.get("stop") else a["row"]
                if got != want:
                    out.append(w + f"next(it_{arg}) impl={got} model={want} (None = StopIteration)")
            elif op == "len" and a["len"] != b["len"]:
                out.append(w + f"len() impl={a['len']} model={b['len']}")
            elif op == "peek" and a["samples"] != b["samples"]:
                out.append(w + f"get_samples_for_epoch({arg}) impl={a['samples']} model={b['samples']}")
        if impl["serves"] and impl["serves"][-1]["epoch_after"] != model["final_epoch"]:
            out.append(f"loader.epoch = {impl['serves'][-1]['epoch_after']} at the end, model {model['final_epoch']}")
        return out

    @staticmethod
    def flags_differ(a, b):
        """The flags the harness tracked for an operation of the implementation (constructor values,
        then every assignment) against the flags the Lean `View` model holds there."""
        out = []
        for k in FLAG_ATTRS + ("drop",):
            m = b["drop"] if k == "drop" else b["present"][k]
            if a["opts"][k] != m:
                out.append(f"{k} in force: harness {a['opts'][k]}, model {m}")
        return out

    # ================================================================== the property itself
    def predicate(self, case, impl, model):
        k = case["kind"]
        fn = getattr(self, "pred_" + k)
        return fn(case, impl, model)

    @staticmethod
    def check_batches(batches, order, bucket_of, spec, drop, where=""):
        """The sampler clauses of the property on a list of index batches, with the Lean spec
        (per bucket: full chunks in order + rest) as oracle."""
        fails = []
        by_bucket = {}
        for b in batches:
            hs = {bucket_of(x) for x in b}
            if len(hs) != 1:
                fails.append((f"{where}batch {b} mixes buckets {sorted(hs)}" if b else f"{where}empty batch",
                              "C14.batch.mixed"))
                continue
            if not is_subsequence(b, order):
                fails.append((f"{where}batch {b} is not in sampler order", "C14.batch.order"))
            by_bucket.setdefault(hs.pop(), []).append(b)
        seen = set()
        for sp in spec:
            if sp is None:
                continue
            h = sp["bucket"]
            seen.add(h)
            want = list(sp["full"])
            if not drop and sp["rest"]:
                want.append(sp["rest"])
            got = by_bucket.get(h, [])
            if got != want:
                fails.append((f"{where}bucket {h} (size {sp['size']}): batches {got}, expected {want}"
                              + (f" (and only {sp['rest']} dropped)" if drop else ""), "C14.bucket.chunks"))
        for h in by_bucket:
            if h not in seen:
                fails.append((f"{where}batches of an unknown bucket {h}", "C14.bucket.unknown"))
        exp_all = multiset([x for sp in spec if sp for c in sp["full"] for x in c]
                           + ([] if drop else [x for sp in spec if sp for x in sp["rest"]]))
        if multiset([x for b in batches for x in b]) != exp_all:
            fails.append((f"{where}indices delivered != indices expected", "C14.cover"))
        return fails

    def pred_sampler(self, case, impl, model):
        if "error" in impl:
            return [(f"harness-level exception {impl['error']}: {impl.get('message')}", None)]
        i2b, b2s = dict(map(tuple, case["i2b"])), dict(map(tuple, case["b2s"]))
        wellformed = all(x in i2b and i2b[x] in b2s and b2s[i2b[x]] > 0 for x in case["order"])
        if not wellformed:
            if impl["err"] is None:
                return [("ill-formed maps accepted silently: " + case.get("malformed", "?"), "C14.malformed.accepted")]
            return []
        fails = []
        if impl["err"] is not None:
            return [(f"iteration raised {impl['err']} on well-formed maps", "C14.sampler.raises")]
        fails += self.check_batches(impl["batches"], case["order"], lambda x: i2b[x], model["spec"], case["drop"])
        if impl["len"] != len(impl["batches"]) and impl["len"] != "undefined":
            fails.append((f"_get_batch_sampler_len = {impl['len']} but {len(impl['batches'])} batches yielded",
                          "C14.len"))
        if not impl["repeatable"]:
            fails.append(("a second iteration over the same order differs", "C14.repeat"))
        if not impl["after_abandon"]:
            fails.append(("after an iteration abandoned behind its first batch (len() asked in the middle) a "
                          "full iteration differs", "C14.repeat"))
        if not impl.get("interleaved", True):
            fails.append(("two iterations of the batch sampler alive at once (advanced alternately, len() asked after "
                          "the first batch, both continued to their end) do not each yield the batches of a lone "
                          f"iteration {impl['batches']}: {impl['interleaved_detail']}", "C14.interleaved"))
        if not impl.get("attrs_ok", True):
            fails.append(("the batch sampler's public attributes (sampler, idx2bucket, bucket2size, drop_incomplete; base_seed of "
                          "an EpochRandomSampler underneath) "
                          "assigned after construction do not give what an object constructed with these values "
                          f"gives: {impl['attrs_detail']}", "C14.attr.sampler"))
        if not impl.get("revisit_ok", True):
            d = impl["revisit_detail"]
            fails.append((f"{d['attribute']} reassigned on a batch sampler that had materialised epoch {d['epoch']} "
                          f"before (by {d['epoch_materialised_before_by']}), then the SAME epoch asked for again: "
                          f"len / samples / batches {d['after_the_assignment']} are not those of a fresh object "
                          f"constructed with the new value at that epoch {d['fresh_object_with_the_new_value']}",
                          "C14.attr.revisit"))
        return fails

    def pred_params(self, case, impl, model):
        if "error" in impl:
            return [(f"harness-level exception {impl['error']}: {impl.get('message')}", None)]
        lens, B = case["lens"], case["B"]
        if case.get("malformed") == "nb0" and lens:
            # num_buckets=0 on a non-empty data set: the documented domain is >= 1, the division raises
            if impl.get("err") != "ZeroDivisionError":
                return [(f"num_buckets=0 on a non-empty data set did not raise ZeroDivisionError: {impl}",
                         "C14.params.nb0")]
            return []
        if "err" in impl:
            if impl["err"] == "ZeroDivisionError" and case["dynamic"] and 0 in lens:
                # known finding: the documented formula has no value for a zero-length bucket bound
                return [(f"size_batch_by_length with zero-length utterances raises ZeroDivisionError (lens={lens})",
                         "C14.dynamic.zero_length_bound")]
            return [(f"_get_bucket_batch_sampler_params raised {impl['err']} (lens={lens})",
                     "C14.params.raises." + impl["err"])]
        fails = []
        i2b, sizes = impl["idx2bucket"], impl["sizes"]
        if any(b >= len(sizes) for b in i2b):
            fails.append(("a bucket id without a size", "C14.params.nosize"))
            return fails
        for a in range(len(lens)):
            for b in range(len(lens)):
                if lens[a] <= lens[b] and i2b[a] > i2b[b]:
                    fails.append((f"length classes are mixed: len {lens[a]} -> bucket {i2b[a]}, "
                                  f"len {lens[b]} -> bucket {i2b[b]}", "C14.pure"))
        Y = max(lens) if lens else 0
        for j, s in enumerate(sizes):
            members = [lens[i] for i in range(len(lens)) if i2b[i] == j]
            if not members:
                fails.append((f"bucket {j} is empty", "C14.params.empty"))
                continue
            if s < B:
                fails.append((f"bucket {j}: size {s} < batch_size {B}", "C14.params.size"))
            if case["dynamic"]:
                y = max(members)
                if not (s * y <= Y * B < (s + 1) * y):
                    fails.append((f"bucket {j}: size {s} is not the greatest x with x*{y} <= {Y}*{B}",
                                  "C14.params.dynamic"))
            elif s != B:
                fails.append((f"bucket {j}: size {s} != batch_size {B}", "C14.params.size"))
        if "bounds" in model:
            bd = model["bounds"]
            for i, l in enumerate(lens):
                j = i2b[i]
                lo = bd[j - 1] if j > 0 else -1
                if j >= len(bd) or not (lo < l <= bd[j]):
                    fails.append((f"length {l} in bucket {j} outside ({lo}, {bd[j] if j < len(bd) else '?'}]",
                                  "C14.pure"))
        return fails

    def pred_window(self, case, impl, model):
        if "error" in impl:
            return [(f"extract_window raised {impl['error']}: {impl.get('message')}", "C14.window.raises")]
        if impl["window"] != model["spec"]:
            return [(f"window {impl['window']} != feat[clamp(frame-left+i)] = {model['spec']}", "C14.window")]
        fails = []
        if impl["shape"] != [1 + case["left"] + case["right"], len(case["feat"][0])]:
            fails.append((f"window shape {impl['shape']}", "C14.window"))
        if not impl["dtype_kept"]:
            fails.append(("the window does not have the feature matrix' dtype", "C14.window.dtype"))
        if not impl["input_kept"]:
            fails.append(("extract_window modified its input", "C14.window.input"))
        return fails

    def pred_lang(self, case, impl, model):
        if "error" in impl:
            return [(f"lang_seq_to_batch raised {impl['error']}: {impl.get('message')}", "C14.collate.raises")]
        items = self.lang_items(case)
        refs = impl["refs"] if case["batch_first"] else transpose(impl["refs"], len(items))
        fails = self.check_rows(case, refs, impl["sizes"], impl["ids"], [r for r, _ in items],
                                [u for _, u in items], [PAD] * 3 if case["two_d"] else PAD, "refs")
        if impl["n_members"] != 2 + int(case["has_uttids"]):
            fails.append((f"{impl['n_members']} tuple members", "C14.collate.tuple"))
        return fails + self.io_checks(impl)

    @staticmethod
    def io_checks(impl):
        fails = []
        if not impl.get("dtypes_ok", True):
            fails.append(("the padded members do not keep the dtype of the sequences / sizes are not int64",
                          "C14.collate.dtype"))
        if not impl.get("input_kept", True):
            fails.append(("the collate function modified the sequence it was given", "C14.collate.input"))
        return fails

    @staticmethod
    def check_rows(case, rows, sizes, ids, originals, uids, pad, name):
        fails = []
        N = len(originals)
        if len(rows) != N or len(sizes) != N:
            return [(f"{name}: {len(rows)} rows / {len(sizes)} sizes for {N} utterances", "C14.collate.rows")]
        cut = [r[:s] for r, s in zip(rows, sizes)]
        if case["sort"]:
            if any(sizes[i] < sizes[i + 1] for i in range(N - 1)):
                fails.append((f"{name}: sizes {sizes} not descending although sort was asked", "C14.collate.sort"))
            pairs = sorted(zip(map(repr, cut), ids if ids is not None else [None] * N))
            want = sorted(zip(map(repr, originals), uids if ids is not None else [None] * N))
            if pairs != want:
                fails.append((f"{name}: rows cut to their sizes (with ids) are not the original sequences",
                              "C14.collate.lossless"))
            else:
                # Python's sorted is stable: sequences of equal length keep the order they came in
                stable = sorted(zip(originals, uids), key=lambda p: -len(p[0]))
                if cut != [o for o, _ in stable] or (ids is not None and ids != [u for _, u in stable]):
                    fails.append((f"{name}: sequences of equal length are not in their input order (the "
                                  "arrangement is the stable descending sort)", "C14.collate.sort_stable"))
        else:
            if cut != originals:
                fails.append((f"{name}: row n cut to its size != sequence n", "C14.collate.lossless"))
            if ids is not None and ids != uids:
                fails.append((f"{name}: ids {ids} != {uids}", "C14.collate.ids"))
        for r, s in zip(rows, sizes):
            if any(c != pad for c in r[s:]):
                fails.append((f"{name}: a padding cell does not hold {pad}", "C14.collate.pad"))
                break
        return fails

    def pred_spect(self, case, impl, model):
        if "error" in impl:
            return [(f"spect_seq_to_batch raised {impl['error']}: {impl.get('message')}", "C14.collate.raises")]
        items = self.spect_items(case)
        N = len(items)
        bf = case["batch_first"]
        fails = []
        want_members = 4 + (1 if case["has_alis"] else 0) + (1 if case["has_uttids"] else 0)
        if impl["n_members"] != want_members:
            fails.append((f"{impl['n_members']} tuple members, expected {want_members}", "C14.collate.tuple"))
        feats = impl["feats"] if bf else transpose(impl["feats"], N)
        uids = [it["id"] for it in items]
        # rows are identified through the features (unique content), everything else must follow them
        fails += self.check_rows(case, feats, impl["feat_sizes"], impl["ids"], [it["feat"] for it in items],
                                 uids, [0] * F, "feats")
        if fails:
            return fails
        if impl["ids"] is not None:
            order = [items[int(u[1:])] for u in impl["ids"]]
        else:
            by_feat = {repr(it["feat"]): it for it in items}
            if len(by_feat) != len(items):
                return fails        # zero-length features are all alike: rows cannot be told apart
            order = [by_feat[repr(r[:s])] for r, s in zip(feats, impl["feat_sizes"])]
        all_ali = case["has_alis"] and all(it["ali"] is not None for it in items)
        if (impl["alis"] is not None) != all_ali:
            fails.append(("alis present iff every utterance has one: violated", "C14.collate.none"))
        elif all_ali:
            alis = impl["alis"] if bf else transpose(impl["alis"], N)
            for n, it in enumerate(order):
                T = len(it["feat"])
                if alis[n][:T] != it["ali"] or any(c != PAD for c in alis[n][T:]):
                    fails.append((f"alis row {n} does not belong to the utterance in feats row {n}",
                                  "C14.collate.attached"))
        all_ref = all(it["ref"] is not None for it in items)
        if (impl["refs"] is not None) != all_ref or (impl["ref_sizes"] is not None) != all_ref:
            fails.append(("refs present iff every utterance has one: violated", "C14.collate.none"))
        elif all_ref:
            refs = impl["refs"] if bf else transpose(impl["refs"], N)
            padr = [PAD] * 3 if case["two_d"] else PAD
            for n, it in enumerate(order):
                R = impl["ref_sizes"][n]
                if refs[n][:R] != it["ref"] or any(c != padr for c in refs[n][R:]):
                    fails.append((f"refs row {n} does not belong to the utterance in feats row {n}",
                                  "C14.collate.attached"))
        return fails + self.io_checks(impl)

    def pred_cw(self, case, impl, model):
        if "error" in impl:
            return [(f"context_window_seq_to_batch raised {impl['error']}: {impl.get('message')}",
                     "C14.collate.raises")]
        items = self.cw_items(case)
        fails = []
        if impl["windows"] != [w for it in items for w in it["win"]]:
            fails.append(("windows are not the concatenation of the utterances' windows", "C14.cw.cat"))
        all_ali = all(it["ali"] is not None for it in items)
        if (impl["alis"] is not None) != all_ali:
            fails.append(("alis present iff every utterance has one: violated", "C14.collate.none"))
        elif all_ali and impl["alis"] != [a for it in items for a in it["ali"]]:
            fails.append(("alis are not the concatenation of the utterances' alis", "C14.cw.cat"))
        if case["has_uttids"]:
            if impl["sizes"] != [len(it["win"]) for it in items] or impl["ids"] != [it["id"] for it in items]:
                fails.append(("window_sizes / uttids not attached", "C14.collate.ids"))
            C = case["C"]
            split = [[[w[c * F:(c + 1) * F] for c in range(C)] for w in g] for g in model["spec"]["split"]]
            if split != [it["win"] for it in items]:
                fails.append(("splitting the model's concatenation by sizes does not return the windows", None))
        if impl["n_members"] != (4 if case["has_uttids"] else 2):
            fails.append((f"{impl['n_members']} tuple members", "C14.collate.tuple"))
        return fails + self.io_checks(impl)

    def pred_loader(self, case, impl, model):
        cls = case["cls"]
        o = eff(case)
        if case.get("bad_kwarg"):
            if impl.get("error") == "TypeError":
                return []
            return [(f"{cls} loader accepted the keyword {case['bad_kwarg']} (documented: TypeError): "
                     f"{impl.get('error')}", "C14.loader.bad_kwarg")]
        lens = key_lens(case)
        if "error" in impl:
            msg = str(impl.get("message"))
            if impl["error"] == "ValueError" and isinstance(model, dict) and model.get("err") == "ValueError":
                return []       # on_uneven_distributed='raise' and a world size that does not divide N
            sig = None
            if impl["error"] == "ZeroDivisionError" and case["dynamic"] and 0 in lens:
                sig = "C14.dynamic.zero_length_bound"
            elif impl["error"] == "IndexError" and not case["lens"] and case["nb"] > 1:
                sig = "C14.loader.empty_dataset_buckets"
            elif impl["error"] == "IndexError" and cls == "lang" and case["nb"] > 1:
                sig = "C14.loader.lang_bucket_indexerror"
            elif cls in ("spect_train", "spect_eval") and "on_uneven_distributed" in msg:
                sig = "C14.loader.deprecated_seed_positional"
            return [(f"{cls} loader raised {impl['error']}: {msg} ", sig or f"C14.loader.raises.{impl['error']}")]
        fails = []
        want_ids = [utt_id(i) for i in o["ids"]]
        if impl["utt_ids"] != want_ids:
            return [(f"the loader's data set holds {impl['utt_ids']}, the directory / subset {want_ids}",
                     "C14.loader.utterances_lost")]
        if model is None or "err" in model:
            if isinstance(model, dict) and model.get("err") == "ValueError":
                return [("on_uneven_distributed='raise' accepted a world size that does not divide the data set",
                         "C14.loader.raise_accepted")]
            return [("no model verdict for a loader the implementation built", None)]
        params = model.get("params")
        by_epoch = {}
        # the iterators of the interleaved section count as passes of the epoch they started at
        woven = self.weave_passes(case, impl, model)
        serves_i = list(impl["serves"]) + [w["a"] for w in woven]
        serves_m = list(model["serves"]) + [w["b"] for w in woven]
        for a, b in zip(serves_i, serves_m):
            e = a["epoch_before"]
            where = f"{a['tag']} pass, epoch {e}: "
            if e != b["epoch"]:
                fails.append((f"{a['tag']} pass: loader.epoch is {e} where the operations so far (init_epoch, "
                              f"passes, assignments) put it at {b['epoch']}", "C14.loader.epoch"))
                continue
            if a["epoch_after"] != e + 1:
                fails.append((where + f"loader.epoch = {a['epoch_after']} afterwards", "C14.loader.epoch"))
            if a.get("partial") or "order" not in b:
                continue
            for p in a["problems"]:
                fails.append((where + p, "C14.loader.collate"))
            order = b["order"]      # C13's model: this rank's share of the epoch's ordering
            batches = a["rows"]
            # the options in force when each batch was collated: the constructor's values, then every
            # assignment made since (for an interleaved iterator they may change from batch to batch)
            per = a["per_batch"] if "per_batch" in a else [a["opts"]] * len(batches)
            drop = per[-1]["drop"] if per else a.get("opts", o)["drop"]
            invisible = o["cw"] and any(q["suppress_uttids"] for q in per)
            if invisible:
                order = [x for x in order if lens[x] > 0]
                # (a no-op for batches collated without sizes; with suppress_uttids switched off in the middle
                # of the pass the later batches do show their utterances without frames)
                batches = [[x for x in bt if lens[x] > 0] for bt in batches]
            if o["nb"] > 1:
                i2b, sizes = params["idx2bucket"], params["sizes"]
                spec = self.py_spec(order, lambda x: i2b[x], sizes)
                bucket_of = (lambda x: i2b[x])
                # never mix length classes
                bd = params["bounds"]
                for bt in batches:
                    cl = {sum(1 for q in bd if lens[x] > q) for x in bt if x >= 0}
                    if len(cl) > 1:
                        fails.append((where + f"batch {bt} mixes length classes (lengths "
                                      f"{[lens[x] for x in bt]}, bounds {bd})", "C14.pure"))
            else:
                spec = self.py_spec(order, lambda x: 0, [case["B"]])
                bucket_of = (lambda x: 0)
            if any(x not in order for bt in batches for x in bt):
                fails.append((where + "a batch holds an index the sampler did not produce", "C14.cover"))
                continue
            canon = None
            if invisible and any(lens[x] == 0 for x in b["order"]):
                pass        # batch boundaries around an utterance without windows cannot be seen
            else:
                unsorted = [sorted(bt, key=order.index) for bt in batches]
                fails += self.check_batches(unsorted, order, bucket_of, spec, drop, where)
                for bt, u, q in zip(batches, unsorted, per):
                    if q["sort_batch"]:
                        if any(lens[bt[i]] < lens[bt[i + 1]] for i in range(len(bt) - 1)):
                            fails.append((where + f"batch {bt} not sorted by length although sort_batch is "
                                          "on at that call", "C14.loader.sort"))
                        elif bt != sorted(bt, key=lambda x: (-lens[x], order.index(x))):
                            fails.append((where + f"batch {bt}: utterances of equal length are not in sampler "
                                          "order (the arrangement is the stable descending sort)", "C14.loader.sort_stable"))
                    elif bt != u:
                        fails.append((where + f"rows {bt} are not in sampler order although sort_batch is off "
                                      "at that call", "C14.loader.order"))
                canon = unsorted
            if a["len_before"] is not None and a["len_before"] != len(batches):
                first = impl["serves"][0]["len_before"]
                stale = a is not impl["serves"][0] and a["len_before"] == first
                fails.append((where + f"len() = {a['len_before']} before the pass, {len(batches)} batches yielded",
                              "C14.loader.len_stale" if stale else "C14.loader.len"))
            by_epoch.setdefault((self.seed_in(case, a.get("opts")), e), []).append({"tag": a["tag"], "rows": batches, "drop": drop, "canon": canon,
                                               "sorts": [q["sort_batch"] for q in per], "invisible": invisible})
        # len() after a pass refers to the next epoch: where that one was served (same drop flag), compare
        for a in impl["serves"]:
            if a.get("partial"):
                continue
            nxt = [g for g in by_epoch.get((self.seed_in(case, a["opts"]), a["epoch_before"] + 1), ())
                   if g["drop"] == a["opts"]["drop"]]
            if nxt and a["len_after"] is not None and a["len_after"] != len(nxt[0]["rows"]):
                fails.append((f"{a['tag']} pass, epoch {a['epoch_before']}: len() = {a['len_after']} afterwards, "
                              f"epoch {a['epoch_before'] + 1} has {len(nxt[0]['rows'])} batches", "C14.loader.len"))
        # identical (seed, epoch) => identical batches, whatever happened to the object before
        e_last = o["init_epoch"] + case["epochs"] - 1
        if "direct_last" in impl:
            # constructed WITH the values the attributes had when the last epoch pass ran
            ref_key = [k for k, gs in by_epoch.items() if k[1] == e_last and any(g["tag"] == "epoch" for g in gs)][-1:]
            ref = [g for k in ref_key for g in by_epoch[k] if g["tag"] == "epoch"][-1:]
            if ref:
                by_epoch[ref_key[0]].append({"tag": "a loader constructed at that epoch", "rows": impl["direct_last"],
                                         "drop": ref[0]["drop"], "canon": None, "sorts": ref[0]["sorts"],
                                         "invisible": ref[0]["invisible"]})
            if impl.get("direct_diff"):
                now = [x for x in impl["serves"] if x["tag"] == "epoch"][-1]["opts"]
                sig = "C14.attr.construct"
                if (cls.startswith("spect") and o["with_ali"] and o["suppress_alis"] and not now["suppress_alis"]
                        and re.match(r"batch \d+, member 1: None vs \(", impl["direct_diff"])):
                    # known: a SpectDataSet built with suppress_alis=True never looked for alignments
                    # (has_ali = False), so `alis` stays None after dataset.suppress_alis = False
                    sig = None      # an OBSERVATION, not a failure of C14: collation of what the data set serves stays
                    # lossless; which members a data set built with suppress_alis=True can serve later is outside
                    # the property's text (design_notes/C14.md, DESIGN 11.3b)
                if sig is not None:
                  fails.append((f"epoch {e_last}: the pass over the loader (attributes as constructed / assigned "
                              f"since: {now}) and a loader CONSTRUCTED with these values at that epoch differ: "
                              f"{impl['direct_diff']}", sig))

        def same_batch(x, y, sx, sy):
            # the same arrangement where the same sort flag was in force at both calls (each arrangement is
            # judged against its own flag above); the same utterances in any case
            return x == y if sx == sy else (x is not None and y is not None and sorted(x) == sorted(y))
        for (sd, e), got in by_epoch.items():
            g0 = got[0]
            for g in got[1:]:
                if g["drop"] != g0["drop"]:
                    continue        # the batch sampler was told to treat incomplete batches differently
                r0, r1 = g0["rows"], g["rows"]
                if g.get("invisible") != g0.get("invisible"):
                    # context windows without sizes / ids: an utterance without frames cannot be seen
                    r0, r1 = ([[x for x in bt if lens[x] > 0] for bt in r] for r in (r0, r1))
                    if 0 in lens:
                        r0, r1 = ([x for bt in r for x in bt] for r in (r0, r1))   # nor the batch borders around it
                        r0, r1 = [r0], [r1]
                if len(r1) != len(r0) or not all(
                        same_batch(x, y, sx, sy) for x, y, sx, sy in zip(r0, r1, g0["sorts"] or [None], g["sorts"] or [None])):
                    fails.append((f"epoch {e} (base_seed {sd} in force): the {g0['tag']} pass yields {g0['rows']}, "
                                  f"{g['tag']} {g['rows']}"
                                  + ("" if g["sorts"] == g0["sorts"] else f" (sort_batch per batch: {g0['sorts']} / "
                                                                         f"{g['sorts']})"), "C14.loader.determinism"))
        for a in serves_i:
            if a.get("partial"):
                full = [g for g in by_epoch.get((self.seed_in(case, a["opts"]), a["epoch_before"]), ())
                        if g["drop"] == a["opts"]["drop"]]
                if full:
                    g0 = full[0]
                    first = g0["rows"][0] if g0["rows"] else None
                    s_first = g0["sorts"][0] if g0["sorts"] else None
                    sa = a["per_batch"] if a.get("woven") else [a["opts"]]
                    if (o["cw"] and any(q["suppress_uttids"] for q in sa)) != bool(g0.get("invisible")):
                        # context windows without sizes / ids on one side: utterances without frames (and the
                        # batch borders around them) cannot be seen there
                        def flat(rows):
                            return [x for bt in rows for x in bt if lens[x] > 0]
                        mine = flat(a["rows"] if a.get("woven") else [a["first"] or []])
                        if mine != flat(g0["rows"])[:len(mine)]:
                            fails.append((f"epoch {a['epoch_before']}: the {a['tag']} pass (not consumed to its "
                                          f"end) yields {mine}.., the {g0['tag']} pass {g0['rows']}",
                                          "C14.loader.determinism"))
                        continue
                    s_mine = sa[0]["sort_batch"] if sa and first is not None else s_first
                    if a["first"] != first and not (a["first"] is not None and first is not None
                                                    and same_batch(a["first"], first, s_mine, s_first)):
                        fails.append((f"epoch {a['epoch_before']}: the abandoned pass starts with {a['first']}, "
                                      f"a full pass with {first}", "C14.loader.determinism"))
                    elif a.get("woven") and not all(
                            same_batch(x, y, q["sort_batch"], sy)
                            for x, y, q, sy in zip(a["rows"], g0["rows"], a["per_batch"], g0["sorts"])):
                        fails.append((f"epoch {a['epoch_before']}: the {a['tag']} (not consumed to its end) "
                                      f"yields {a['rows']}, the {g0['tag']} pass {g0['rows']}",
                                      "C14.loader.determinism"))
                    elif a.get("woven") and len(a["rows"]) > len(g0["rows"]):
                        fails.append((f"epoch {a['epoch_before']}: the {a['tag']} (not consumed to its end) "
                                      f"yields {a['rows']}, the {g0['tag']} pass only {g0['rows']}",
                                      "C14.loader.determinism"))
        fails += self.weave_lookups(case, o, lens, impl, by_epoch, lambda opts: self.seed_in(case, opts))
        for s0 in impl["serves"]:
            if s0.get("has_ids") and s0["has_ids"][0] != (not s0["opts"]["suppress_uttids"]):
                fails.append((f"{s0['tag']} pass, epoch {s0['epoch_before']}: suppress_uttids = "
                              f"{s0['opts']['suppress_uttids']} not honoured", "C14.loader.uttids"))
        for n, a in enumerate(impl.get("events", ())):
            if a and a["op"] == "attr":
                if a["reads_back"] != a["value"]:
                    fails.append((f"operation {n}: {a['name']} = {a['value']} assigned, the attribute reads "
                                  f"{a['reads_back']}", "C14.attr.readback"))
                if a["epoch_after"] != a["epoch_before"]:
                    fails.append((f"operation {n}: assigning {a['name']} moved loader.epoch "
                                  f"{a['epoch_before']} -> {a['epoch_after']}", "C14.loader.epoch"))
        return fails

    @staticmethod
    def weave_passes(case, impl, model):
        """The iterators of the interleaved section as passes: each belongs to the epoch the loader
        stood at when its first batch was requested; `b` carries the model's sample order of that
        epoch (C13's model) as oracle for the cover / bucket predicates."""
        its = {}
        for (op, arg), a, b in aligned(case, impl, model):
            if op != "next" or a is None or b is None:
                continue
            if arg not in its:
                its[arg] = {"a": {"tag": f"interleaved iterator {arg}", "woven": True, "done": False,
                                  "epoch_before": a["epoch_before"], "epoch_after": a["epoch_after"],
                                  "rows": [], "problems": [], "len_before": None, "len_after": None,
                                  "per_batch": [], "opts": a["opts"]},
                            "b": {"epoch": b["epoch"], "order": b["order"]}}
            pa = its[arg]["a"]
            if a.get("stop"):
                pa["done"] = True
            elif pa["done"]:
                pa["problems"].append("a batch after StopIteration")
            else:
                pa["rows"].append(a["row"])
                pa["per_batch"].append(a["opts"])
                pa["problems"] += a["problems"]
        for w in its.values():
            if not w["a"]["done"]:      # not consumed to its end: only a prefix is known
                w["a"]["partial"] = True
                w["a"]["first"] = w["a"]["rows"][0] if w["a"]["rows"] else None
        return [its[k] for k in sorted(its)]

    @staticmethod
    def weave_lookups(case, o, lens, impl, by_epoch, seed_in):
        """len() / get_samples_for_epoch asked while iterators are alive, and what the operations
        of the interleaved section may do to loader.epoch."""
        fails, started = [], set()
        N = len(o["ids"])
        for n, ((op, arg), a) in enumerate(zip(ops_of(case), impl.get("events", ()))):
            if a is None or op not in WEAVE_OPS:
                continue
            e = a["epoch_before"]
            moved = a["epoch_after"] - e
            first_next = op == "next" and arg not in started
            if op == "next":
                started.add(arg)
            if moved != int(first_next):
                fails.append((f"operation {n} ({op}): loader.epoch {e} -> {a['epoch_after']}; only a full pass, an "
                              "assignment and the first next() of an iterator move it (by one)", "C14.loader.epoch"))
            if op == "len":
                got = [g for g in by_epoch.get((seed_in(a["opts"]), e), ()) if g["drop"] == a["opts"]["drop"]]
                if got and a["len"] != len(got[0]["rows"]):
                    fails.append((f"operation {n}: len() = {a['len']} asked while iterators are alive and the "
                                  f"loader stands at epoch {e}; the {got[0]['tag']} pass over that epoch has "
                                  f"{len(got[0]['rows'])} batches", "C14.loader.len"))
            elif op == "peek":
                smp = a["samples"]
                if len(set(smp)) != len(smp) or any(not 0 <= x < N for x in smp):
                    fails.append((f"operation {n}: get_samples_for_epoch({arg}) = {smp} repeats or invents an index",
                                  "C14.cover"))
                got = [g for g in by_epoch.get((seed_in(a.get("opts")), arg), ()) if not g["drop"]]
                if got and not (got[0].get("invisible") and 0 in lens):
                    if multiset(x for bt in got[0]["rows"] for x in bt) != multiset(smp):
                        fails.append((f"operation {n}: get_samples_for_epoch({arg}) = {smp}, but the {got[0]['tag']} "
                                      f"pass over epoch {arg} delivers {got[0]['rows']}", "C14.cover"))
        return fails

    @staticmethod
    def py_spec(order, bucket_of, sizes):
        """The declarative per-bucket spec (filter, cut into groups of the size), used for loader
        cases where the driver's reply carries the model output only. Mirrors Spec.fullChunks /
        Spec.remainder, which the sampler stream evaluates in Lean."""
        spec = []
        for h in dict.fromkeys(bucket_of(x) for x in order):
            n = sizes[h]
            p = [x for x in order if bucket_of(x) == h]
            k = len(p) // n * n
            spec.append({"bucket": h, "size": n, "full": [p[i:i + n] for i in range(0, k, n)], "rest": p[k:]})
        return spec

    # ================================================================== evidence helpers
    def nontrivial(self, case, impl):
        k = case["kind"]
        if not isinstance(impl, dict) or "error" in impl:
            return False
        if k == "sampler":
            bs = impl["batches"]
            i2b = dict(map(tuple, case["i2b"]))
            b2s = dict(map(tuple, case["b2s"]))
            try:
                short = any(len(b) < b2s[i2b[b[0]]] for b in bs)
                return len({i2b[b[0]] for b in bs}) >= 2 or short or (case["drop"] and len(case["order"]) > sum(map(len, bs)))
            except Exception:
                return False
        if k == "params":
            return "sizes" in impl and len(impl["sizes"]) >= 2
        if k == "window":
            return case["frame"] < case["left"] or case["frame"] + case["right"] + 1 > len(case["feat"])
        if k in ("lang", "spect"):
            ls = case["rlens"] if k == "lang" else case["lens"]
            return len(set(ls)) >= 2
        if k == "cw":
            return len(case["lens"]) >= 2
        if k == "loader":
            eps = impl.get("serves", [])
            if not eps or not eps[0].get("rows"):
                return False
            rows = eps[0]["rows"]
            return eff(case)["nb"] > 1 or any(len(b) < case["B"] for b in rows) or case["drop"]
        return True

    def tags(self, case, impl):
        k = case["kind"]
        t = [f"kind={k}"]
        if k == "sampler":
            t.append(f"drop={case['drop']}")
            if "malformed" in case:
                t.append("malformed")
            t.append(f"bucket_ids={case.get('idkind', 'int')}")
            if case.get("drop_omitted"):
                t.append("drop=omitted")
            if case.get("sampler") == "plain":
                t.append("sampler=plain_list")
            elif case.get("sampler"):
                t.append("sampler=library_" + case["sampler"])
            t.append("reassign_then_same_epoch=" + ("all_attributes_x_ways" if case.get("sampler") in (
                "epoch_random", "epoch_seq") else "one_attribute_rotating"))
        elif k == "window":
            t.append(f"window.layout={case.get('layout', 'contig')}")
        elif k == "params":
            t.append(f"dynamic={case['dynamic']}")
            t.append(f"params.elem={case.get('elem', 'pair')}")
            if isinstance(impl, dict) and "sizes" in impl:
                t.append(f"buckets_after_dedup={len(impl['sizes'])}" if len(impl["sizes"]) < case["nb"] else "buckets_kept")
        elif k == "loader":
            o = eff(case)
            om = omitted(case)
            t += [f"cls={case['cls']}", f"nb={'>1' if o['nb'] > 1 else 1}", f"drop={case['drop']}",
                  f"shuffle={o['shuffle']}", f"sort={o['sort_batch']}", f"batch_first={o['batch_first']}",
                  f"dynamic={case['dynamic']}", f"world={case['world']}", f"N={len(case['lens'])}",
                  f"suppress_uttids={'default' if 'suppress_uttids' in om else case['suppress_uttids']}",
                  f"data_as={case.get('data_as', 'path')}",
                  "params=" + ("legacy" if case.get("legacy_params") else "split" if case.get("split_params")
                               else "merged"),
                  f"workers={o['workers']}"]
            if case.get("world"):
                t.append(f"uneven={o['uneven']}")
            t += [f"omitted={k}" for k in sorted(om)]
            t += [f"by_keyword={k}" for k in case.get("via_kwargs", ())]
            for k in ("subset", "sos", "eos", "mvn", "delta", "prefix", "suffix", "subdirs", "pin_memory",
                      "abandon", "bad_kwarg", "subset_via_loader_params"):
                if case.get(k):
                    t.append(f"with={k}")
            for k in ("with_ali", "with_ref"):
                if not case.get(k, True):
                    t.append(f"without={k[5:]}_dir")
            w = case.get("weave") or []
            if w:
                kinds = [x[0] for x in w]
                mid = [i for i, x in enumerate(kinds) if x in ("len", "peek")
                       and "next" in kinds[:i] and ("next" in kinds[i:] or "drain" in kinds[i:])]
                if any(kinds[i] == "len" for i in mid):
                    t.append("interleaved=len_mid_pass")
                if any(kinds[i] == "peek" for i in mid):
                    t.append("interleaved=lookup_mid_pass")
                t.append(f"interleaved=live_iterators_{min(kinds.count('open'), 3)}")
                if "set" in kinds[1:]:
                    t.append("interleaved=epoch_assignment")
                started = False
                for x in w:
                    started = started or x[0] in ("next", "drain")
                    if x[0] == "attr":
                        t.append(f"assigned={x[1]}@{'mid_pass' if started else 'interleaved_section'}")
            for pos, name, value in case.get("late") or ():
                t.append(f"assigned={name}@{pos}")
                t.append("assigned_value=" + ("other_than_constructed" if value != o[name] else "as_constructed"))
            rv = set()
            for name, before, again, at_once in revisits(case):
                rv.add(f"same_epoch_again_after={name}")
                if at_once and name in ("base_seed", "drop"):
                    rv.add(f"last_epoch_again_at_once={before}->{name}->{again}")
            t += sorted(rv)
            if case.get("epoch_via"):
                t.append("epoch_assigned_via=sampler_attribute")
            if case.get("jump") is not None:
                e_end = o["init_epoch"] + case["epochs"]
                t.append("jump=" + ("back" if case["jump"] < e_end else "forward" if case["jump"] > e_end else "same"))
            if 0 in key_lens(case):
                t.append("with=zero_length_utterance")
        elif k in ("lang", "spect"):
            t += [f"{k}.sort={case['sort']}", f"{k}.batch_first={case['batch_first']}",
                  f"{k}.has_uttids={case['has_uttids']}", f"{k}.rdtype={case.get('rdtype', 'int64')}"]
            if case.get("omit_args"):
                t.append(f"{k}.args=defaults")
            if case.get("seq_type") == "tuple":
                t.append(f"{k}.seq=tuple")
        return t

    def shrink(self, case):
        k = case["kind"]
        if k == "sampler":
            for i in range(len(case["order"])):
                if case.get("sampler", "").startswith("epoch"):
                    break       # the order is the library sampler's own: it cannot be edited
                c = dict(case)
                c["order"] = case["order"][:i] + case["order"][i + 1:]
                yield c
            for i in range(len(case["b2s"])):
                if case["b2s"][i][1] > 1:
                    c = dict(case)
                    c["b2s"] = [list(x) for x in case["b2s"]]
                    c["b2s"][i][1] -= 1
                    yield c
        elif k == "params":
            for i in range(len(case["lens"])):
                c = dict(case)
                c["lens"] = case["lens"][:i] + case["lens"][i + 1:]
                yield c
            for f in ("nb", "B"):
                if case[f] > (2 if f == "nb" else 1):
                    c = dict(case)
                    c[f] -= 1
                    yield c
        elif k == "loader":
            if case["epochs"] > 1:
                c = dict(case)
                c["epochs"] -= 1
                yield c
            for i in range(len(case["lens"])):
                if case.get("subset"):
                    break
                c = dict(case)
                c["lens"] = case["lens"][:i] + case["lens"][i + 1:]
                c["rlens"] = case["rlens"][:i] + case["rlens"][i + 1:]
                yield c
            w = case.get("weave") or []
            for i in range(len(w)):     # one operation of the interleaved section less (if still a script)
                cand, n_it, ok = w[:i] + w[i + 1:], 0, True
                for x in cand:
                    n_it += x[0] == "open"
                    ok = ok and not (x[0] in ("next", "drain") and x[1] >= n_it)
                if ok:
                    c = dict(case)
                    c["weave"] = cand
                    yield c
            late = case.get("late") or []
            for i in range(len(late)):
                if len(late) > 1:
                    c = dict(case)
                    c["late"] = late[:i] + late[i + 1:]
                    yield c
            for f in ("late", "epoch_via", "omit", "data_as", "split_params", "legacy_params", "subset", "sos", "eos", "mvn",
                      "delta", "pin_memory", "prefix", "suffix", "subdirs", "with_ali", "with_ref", "jump",
                      "abandon", "num_workers", "subset_via_loader_params", "via_kwargs", "weave"):
                if f in case:
                    c = dict(case)
                    del c[f]
                    yield c
            for f, v in (("world", 0), ("init_epoch", 0), ("dynamic", False), ("sort", False),
                         ("shuffle", False), ("drop", False), ("two_d", False), ("uneven", "uneven")):
                if case.get(f, v) != v:
                    c = dict(case)
                    c[f] = v
                    if f == "world":
                        c["rank"] = 0
                    yield c
            for f in ("B", "nb"):
                if case[f] > 1:
                    c = dict(case)
                    c[f] -= 1
                    yield c
        elif k in ("lang", "spect", "cw"):
            ls = "rlens" if k == "lang" else "lens"
            n = len(case[ls])
            for i in range(n):
                if n <= 1:
                    break
                c = dict(case)
                for f in ("lens", "rlens", "ali", "ref"):
                    if f in case and isinstance(case[f], list):
                        c[f] = case[f][:i] + case[f][i + 1:]
                yield c


def transpose(rows_tf, N):
    """[t][n] -> [n][t]."""
    return [[rows_tf[t][n] for t in range(len(rows_tf))] for n in range(N)]


def short(x, n=300):
    s = repr(x)
    return s if len(s) <= n else s[:n] + "..."


CHECK = C14()
