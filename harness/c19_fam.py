"""C19 helpers: small discrete proposal families with exact (Fraction) probabilities and
Jacobians, integrand tables, and context managers that replace the random primitives.

torch / pydrobert are imported inside functions only (the framework calls use_repo() first).
"""
import contextlib
import itertools
from fractions import Fraction as Fr

TOL = 1e-9


def F(x):
    """exact rational of a python/torch float, int, 'n/d' string or Fraction"""
    if isinstance(x, Fr):
        return x
    if isinstance(x, str):
        return Fr(x)
    if isinstance(x, int):
        return Fr(x)
    return Fr(float(x))


def fs(x):
    if isinstance(x, float):
        if x != x:
            return "nan"
        if x in (float("inf"), float("-inf")):
            return "inf" if x > 0 else "-inf"
    x = F(x)
    return str(x.numerator) if x.denominator == 1 else f"{x.numerator}/{x.denominator}"


SPECIAL = ("nan", "inf", "-inf")


def fl(x):
    """python float of a case value: 'n/d' string, Fraction, number, or one of 'inf' / '-inf' / 'nan'
    (a logit of -inf is how a zero-probability class is handed over through `logits=`)"""
    if isinstance(x, str) and x in SPECIAL:
        return float(x)
    return float(F(x))


def is_ninf(x):
    return isinstance(x, str) and x == "-inf"


def close(a, b, tol=TOL):
    if (isinstance(a, str) and a in SPECIAL) or (isinstance(b, str) and b in SPECIAL):
        return a == b and a != "nan"
    if isinstance(a, float) and (a != a or a in (float("inf"), float("-inf"))):
        return False
    a, b = F(a), F(b)
    return abs(a - b) <= Fr(tol) * max(1, abs(a), abs(b))


# ------------------------------------------------------------------ families
# A family instance is described by JSON: {"fam": "bern"|"cat"|"onehot"|"cat2", "param":
# "probs"|"logits", "theta": nested list of 'n/d' strings}.

def n_points(spec):
    fam, th = spec["fam"], spec["theta"]
    if fam == "bern":
        return 2 ** len(th)
    if fam in ("cat", "onehot"):
        return len(th)
    if fam == "cat2":
        return len(th[0]) * len(th[1])
    raise ValueError(fam)


def build(spec, requires_grad=True, layout="event"):
    """-> (dist, param tensor, list of point tensors in index order).  layout "batch" (Bernoulli
    families only): a plain `Bernoulli(theta)` with batch shape (n,) and no event axis - n independent
    one-variable problems run side by side (the estimators then return a vector)"""
    import torch
    fam = spec["fam"]
    th = spec["theta"]
    if fam == "cat2":
        vals = [[fl(x) for x in row] for row in th]
    else:
        vals = [fl(x) for x in th]
    param = torch.tensor(vals, dtype=torch.float64, requires_grad=requires_grad)
    kw = {spec["param"]: param}
    D = torch.distributions
    if fam == "bern":
        dist = D.Bernoulli(**kw) if layout == "batch" else D.Independent(D.Bernoulli(**kw), 1)
        n = len(th)
        pts = [torch.tensor([float((i >> j) & 1) for j in range(n)], dtype=torch.float64)
               for i in range(2 ** n)]
    elif fam == "cat":
        dist = D.Categorical(**kw)
        pts = [torch.tensor(k) for k in range(len(th))]
    elif fam == "onehot":
        dist = D.OneHotCategorical(**kw)
        V = len(th)
        pts = [torch.nn.functional.one_hot(torch.tensor(k), V).to(torch.float64) for k in range(V)]
    elif fam == "cat2":
        dist = D.Independent(D.Categorical(**kw), 1)
        V = len(th[0])
        pts = [torch.tensor([a, b]) for a in range(V) for b in range(V)]
    else:
        raise ValueError(fam)
    return dist, param, pts


def index_fn(spec):
    """tensor of samples (.., event) -> long tensor of point indices"""
    import torch
    fam = spec["fam"]
    if fam == "bern":
        n = len(spec["theta"])
        w = torch.tensor([float(2 ** j) for j in range(n)], dtype=torch.float64)
        return lambda b: (b.detach().to(torch.float64) * w).sum(-1).round().long()
    if fam == "cat":
        return lambda b: b.long()
    if fam == "onehot":
        return lambda b: b.detach().argmax(-1)
    if fam == "cat2":
        V = len(spec["theta"][0])
        return lambda b: b[..., 0].long() * V + b[..., 1].long()
    raise ValueError(fam)


def coord_value(spec, i, j):
    """coordinate j of point i of a family whose samples are float vectors (bern: bit j; onehot:
    indicator of class j)"""
    if spec["fam"] == "bern":
        return (i >> j) & 1
    if spec["fam"] == "onehot":
        return 1 if i == j else 0
    raise ValueError(spec["fam"])


def n_coords(spec):
    """length of the event axis of a float-vector family, None for integer-valued samples"""
    return len(spec["theta"]) if spec["fam"] in ("bern", "onehot") else None


def element(spec, j):
    """the one-variable family of batch element j of a Bernoulli family in batch layout"""
    return {"fam": "bern", "param": spec["param"], "theta": [spec["theta"][j]]}


def batch_table_func(tables):
    """batch layout: element j of the result is tables[j][b_j] (fresh tensor, no gradient)"""
    import torch
    T = torch.tensor([[float(F(x)) for x in row] for row in tables], dtype=torch.float64)
    ar = torch.arange(T.shape[0])
    return lambda b: T[ar, b.detach().long()]


def project(t, j, n_bits=1):
    """index (in the order of `tuples(2, N)`) of the projection of a tuple of points of {0,1}^n on
    variable j"""
    k = 0
    for i in t:
        k = 2 * k + ((i >> j) & 1)
    return k


def table_func(spec, table):
    """FunctionOnSample returning table[index(b)] (float64, no gradient)."""
    import torch
    t = torch.tensor([float(F(x)) for x in table], dtype=torch.float64)
    idx = index_fn(spec)
    return lambda b: t[idx(b)]


def table_view_func(spec, table, kept):
    """the same integrand written by a user who KEEPS a table of its values and, when called with one
    sample, returns a VIEW of that table (basic indexing) - the returned tensor belongs to the function.
    `kept` receives (table tensor, pristine copy)."""
    import torch
    t = torch.tensor([float(F(x)) for x in table], dtype=torch.float64)
    kept.append((t, t.clone()))
    idx = index_fn(spec)

    def f(b):
        i = idx(b)
        if i.numel() != 1:
            return t[i]
        return t[int(i)].view(i.shape)
    return f


def _softmax_fr(row_float_probs):
    return [F(x) for x in row_float_probs]


def exact_probs(spec):
    """-> (P: list[Fraction] per point, dP: list[list[Fraction]] per point per parameter
    coordinate (row-major over theta)). With `probs` parameters and dyadic theta everything is
    exact; with `logits` the per-variable probabilities are torch's own float64 values taken as
    exact rationals and the Jacobian is the analytic one evaluated at them."""
    import torch
    fam, par, th = spec["fam"], spec["param"], spec["theta"]
    if fam == "bern":
        n = len(th)
        if par == "probs":
            pi = [F(x) for x in th]
            s = [Fr(1)] * n
        else:
            t = torch.tensor([float(F(x)) for x in th], dtype=torch.float64)
            pi = [F(x) for x in torch.sigmoid(t).tolist()]
            # 1 - sigmoid(l) = sigmoid(-l) taken from torch as well: at saturated logits (|l| ~ 20)
            # the float `1 - sigmoid(l)` has lost half its digits, torch's log_prob has not
            qi = [F(x) for x in torch.sigmoid(-t).tolist()]
            s = [p * q for p, q in zip(pi, qi)]
        if par == "probs":
            qi = [1 - p for p in pi]
        P, dP = [], []
        for i in range(2 ** n):
            bits = [(i >> j) & 1 for j in range(n)]
            fac = [pi[j] if bits[j] else qi[j] for j in range(n)]
            pr = Fr(1)
            for x in fac:
                pr *= x
            P.append(pr)
            row = []
            for j in range(n):
                d = s[j] * (1 if bits[j] else -1)
                for jj in range(n):
                    if jj != j:
                        d *= fac[jj]
                row.append(d)
            dP.append(row)
        return P, dP

    def cat_row(row):
        V = len(row)
        if par == "probs":
            thv = [F(x) for x in row]
            S = sum(thv)
            pi = [x / S for x in thv]
            J = [[((S if k == j else 0) - thv[k]) / (S * S) for j in range(V)] for k in range(V)]
        else:
            t = torch.tensor([fl(x) for x in row], dtype=torch.float64)
            # a logit of -inf: softmax gives exactly 0.0, and the analytic Jacobian row/column is 0
            pi = [F(x) for x in torch.softmax(t, -1).tolist()]
            J = [[pi[k] * ((1 if k == j else 0) - pi[j]) for j in range(V)] for k in range(V)]
        return pi, J

    if fam in ("cat", "onehot"):
        pi, J = cat_row(th)
        return pi, J
    if fam == "cat2":
        (p1, J1), (p2, J2) = cat_row(th[0]), cat_row(th[1])
        V = len(th[0])
        P, dP = [], []
        for a in range(V):
            for b in range(V):
                P.append(p1[a] * p2[b])
                dP.append([J1[a][j] * p2[b] for j in range(V)] + [p1[a] * J2[b][j] for j in range(V)])
        return P, dP
    raise ValueError(fam)


def min_marginal(spec):
    """smallest per-variable probability of a family instance (float).  torch differentiates
    log P through `sigmoid(l) - target` / `onehot - softmax(l)`: a difference that carries an ABSOLUTE
    rounding error of one ulp of 1, i.e. a relative error of eps / (that probability)."""
    import torch
    fam, par, th = spec["fam"], spec["param"], spec["theta"]
    rows = th if fam == "cat2" else [th]
    m = 1.0
    for row in rows:
        t = torch.tensor([fl(x) for x in row], dtype=torch.float64)
        if fam == "bern":
            p = t if par == "probs" else torch.sigmoid(t)
            q = 1 - t if par == "probs" else torch.sigmoid(-t)
            m = min(m, float(torch.minimum(p, q).min()))
        else:
            p = t / t.sum() if par == "probs" else torch.softmax(t, -1)
            p = p[p > 0]          # zero-probability classes (logit -inf) are not in the sample space
            m = min(m, float(p.min()))
    return m


def has_ninf(spec):
    th = spec["theta"]
    flat = [x for r in th for x in r] if spec["fam"] == "cat2" else th
    return any(is_ninf(x) for x in flat)


def support(spec):
    """indices of the points of positive probability: the sample space proper (a class whose logit
    is -inf is never drawn)"""
    P, _ = exact_probs(spec)
    return [i for i, p in enumerate(P) if p != 0]


def n_params(spec):
    th = spec["theta"]
    return sum(len(r) for r in th) if spec["fam"] == "cat2" else len(th)


# ------------------------------------------------------------------ patches
@contextlib.contextmanager
def patched(obj, **attrs):
    saved = {}
    missing = object()
    try:
        for k, v in attrs.items():
            saved[k] = obj.__dict__.get(k, missing) if hasattr(obj, "__dict__") else getattr(obj, k)
            setattr(obj, k, v)
        yield
    finally:
        for k, v in saved.items():
            if v is missing:
                try:
                    delattr(obj, k)
                except AttributeError:
                    pass
            else:
                setattr(obj, k, v)


@contextlib.contextmanager
def torch_patched(**attrs):
    import torch
    saved = {k: getattr(torch, k) for k in attrs}
    try:
        for k, v in attrs.items():
            setattr(torch, k, v)
        yield
    finally:
        for k, v in saved.items():
            setattr(torch, k, v)


def tuples(M, N):
    return list(itertools.product(range(M), repeat=N))
