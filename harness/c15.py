"""C15 — training control decisions follow the stated rules and survive restarts.

Correspondence: the real TrainingStateController + a real torch optimizer + the CSV history and a
state directory in a temp dir are driven with a metric sequence, uninterrupted and with a restart
(new controller + new optimizer + load_model_and_optimizer_for_epoch) after every epoch of each
given subset.  The Lean model (binary64 rounding modelled exactly) must reproduce return values,
continue_training(), every param group's lr, get_info rows and the CSV text; the Lean rules
(Spec/TrainingRules.lean) are the oracle for the property evaluated on the implementation's output.
"""
import contextlib
import itertools
import re
import os
import shutil
import tempfile
import warnings
from fractions import Fraction

from common.framework import PropertyCheck, frac_str, Failure

SIG = "C15.restart.lr_double_rounding"
INT_COLS = ("epoch", "es_resume_cd", "es_patience_cd", "rlr_resume_cd", "rlr_patience_cd")
TMP_ROOT = "/dev/shm" if os.path.isdir("/dev/shm") and os.access("/dev/shm", os.W_OK) else None


# ------------------------------------------------------------------------- real code
TYPES = {"int": int, "str": str, "float": float}


def make_params(p, ckpt="default"):
    from pydrobert.torch.training import TrainingStateParams
    kw = {}
    if ckpt == "keep_all":
        kw["keep_last_and_best_only"] = False
    elif ckpt == "fixed_names":
        # every epoch overwrites the same two files: the history row is written BEFORE the files
        kw.update(keep_last_and_best_only=False, saved_model_fmt="model.pt", saved_optimizer_fmt="optim.pt")
    return TrainingStateParams(
        num_epochs=p["num_epochs"], log10_learning_rate=p["log10_lr"],
        early_stopping_threshold=p["es_thr"], early_stopping_patience=p["es_pat"],
        early_stopping_burnin=p["es_burn"], reduce_lr_threshold=p["rlr_thr"],
        reduce_lr_factor=p["rlr_factor"], reduce_lr_patience=p["rlr_pat"],
        reduce_lr_cooldown=p["rlr_cool"], reduce_lr_burnin=p["rlr_burn"],
        reduce_lr_log10_epsilon=p["log10_eps"], **kw)


class Session:
    """One controller + model + optimizer bound to (csv, state_dir).

    `fresh`: the very first process of the experiment (the optimizer is built with the case's rates;
    `load_model_and_optimizer_for_epoch` is called unless the case says `load0: false`).  Otherwise a
    process that resumes: the optimizer is built with `restart_opt_lr` (any rate: the saved state must
    overwrite it) and the last epoch is loaded, with the epoch given explicitly if `load_explicit`."""

    def __init__(self, case, csv_path, state_dir, fresh=True):
        import torch
        from pydrobert.torch.training import TrainingStateController
        self.torch = torch
        ws = [torch.nn.Parameter(torch.zeros(1)) for _ in case["groups"]]
        self.model = torch.nn.ParameterList(ws)
        groups = []
        other = None if fresh else case.get("restart_opt_lr")
        for w, g in zip(ws, case["groups"]):
            d = {"params": [w]}
            if other is not None:
                d["lr"] = other * 3
            elif g is not None:
                d["lr"] = g
            groups.append(d)
        self.opt = torch.optim.SGD(groups, lr=case["opt_lr"] if other is None else other)
        ckpt = case.get("ckpt", "default")
        self.ctl = TrainingStateController(make_params(case["params"], ckpt), csv_path, state_dir,
                                           warn=(ckpt != "fixed_names"))
        for name, typ, fmt in case.get("entries", []):
            self.ctl.add_entry(name, TYPES[typ], fmt)
        if fresh:
            if case.get("load0", True):
                self.ctl.load_model_and_optimizer_for_epoch(self.model, self.opt)
        elif case.get("load_explicit"):
            self.ctl.load_model_and_optimizer_for_epoch(self.model, self.opt, self.ctl.get_last_epoch())
        else:
            self.ctl.load_model_and_optimizer_for_epoch(self.model, self.opt)

    def lrs(self):
        return [frac_str(g["lr"]) for g in self.opt.param_groups]


def canon_row(info):
    out = {}
    for k in INT_COLS:
        v = info[k]
        if not isinstance(v, int) or isinstance(v, bool):
            raise TypeError(f"{k} is {type(v).__name__}")
        out[k] = v
    for k in ("lr", "train_met", "val_met"):
        out[k] = None if info[k] is None else frac_str(info[k])
    return out


def canon_entry(v):
    """user entry -> [type name, exact value]"""
    if isinstance(v, float):
        return ["float", frac_str(v)]
    return [type(v).__name__, v]


def read_csv(path):
    """the history file as a list of records, split by the rules of the csv format written out here
    (NOT with the csv module, which is part of what is being checked): fields separated by commas,
    records by CRLF/LF, a field in double quotes may contain commas, line breaks and doubled quotes"""
    if path is None or not os.path.exists(path):
        return []
    with open(path, newline="") as f:
        text = f.read()
    recs, rec, cur, i, n, quoted = [], [], [], 0, len(text), False
    while i < n:
        c = text[i]
        if quoted:
            if c == '"':
                if i + 1 < n and text[i + 1] == '"':
                    cur.append('"'); i += 2; continue
                quoted = False
            else:
                cur.append(c)
        elif c == '"' and not cur:
            quoted = True
        elif c == ",":
            rec.append("".join(cur)); cur = []
        elif c == "\n" or (c == "\r" and i + 1 < n and text[i + 1] == "\n"):
            if c == "\r":
                i += 1
            rec.append("".join(cur)); cur = []
            recs.append(rec); rec = []
        else:
            cur.append(c)
        i += 1
    if cur or rec:
        rec.append("".join(cur)); recs.append(rec)
    return recs


def run_real(case, restarts, mode="new"):
    """-> observation of one run, restarting after each epoch in `restarts`.

    mode "new": a new process (new controller, model, optimizer; the last epoch is loaded from the
    state directory); mode "cache": the same controller re-reads the history file (`update_cache()`)."""
    d = tempfile.mkdtemp(prefix="c15_", dir=TMP_ROOT)
    try:
        csv_path = os.path.join(d, "hist.csv") if case.get("csv", True) else None
        state_dir = os.path.join(d, "states") if case.get("state_dir", True) else None
        s = Session(case, csv_path, state_dir)
        obs = {"cont": [], "cont_training": [], "lrs": [], "error": None,
               "cont0": bool(s.ctl.continue_training()), "lrs0": s.lrs()}
        rs = set(restarts)
        bit = case.get("best_is_train") or []
        exp = case.get("explicit_epoch") or []
        ents = case.get("entries", [])
        for e, (tr, va) in enumerate(case["metrics"], 1):
            kw = {}
            for (name, typ, fmt), vals in zip(ents, case.get("entry_values", [])):
                kw[name] = vals[e - 1]
            if e <= len(exp) and exp[e - 1]:
                kw["epoch"] = e          # the epoch that just finished, given explicitly
            if e <= len(bit) and bit[e - 1]:
                kw["best_is_train"] = True
            cont = s.ctl.update_for_epoch(s.model, s.opt, tr, va, **kw)
            if not isinstance(cont, bool):
                raise TypeError(f"update_for_epoch returned {type(cont).__name__}")
            if e in rs:
                if mode == "cache":
                    s.ctl.update_cache()
                else:
                    s = Session(case, csv_path, state_dir, fresh=False)
            obs["cont"].append(cont)
            obs["cont_training"].append(bool(s.ctl.continue_training()))
            obs["lrs"].append(s.lrs())
        n = len(case["metrics"])
        obs["rows"] = [canon_row(s.ctl.get_info(e)) for e in range(1, n + 1)]
        obs["row0"] = canon_row(s.ctl[0])
        obs["cont_at"] = [bool(s.ctl.continue_training(e)) for e in range(0, n + 1)]
        obs["last_epoch"] = s.ctl.get_last_epoch()
        obs["csv"] = read_csv(csv_path)
        obs["csv_text"] = None
        if csv_path is not None and os.path.exists(csv_path):
            with open(csv_path, newline="", encoding="utf-8") as f:
                obs["csv_text"] = f.read()
        if ents:
            obs["entries"] = [[canon_entry(s.ctl[e][name]) for (name, _, _) in ents] for e in range(1, n + 1)]
            obs["entries0"] = [s.ctl[0].get(name, "missing") for (name, _, _) in ents]
        return obs
    finally:
        shutil.rmtree(d, ignore_errors=True)


# ------------------------------------------------------------------------- generators
def fl(x):
    return float(x)


def base_params(**kw):
    p = {"num_epochs": None, "log10_lr": None, "es_thr": 0.0, "es_pat": 1, "es_burn": 0,
         "rlr_thr": 0.0, "rlr_factor": 0.5, "rlr_pat": 1, "rlr_cool": 0, "rlr_burn": 0, "log10_eps": -8}
    p.update(kw)
    return p


def all_subsets(n):
    for k in range(0, n + 1):
        for c in itertools.combinations(range(1, n + 1), k):
            if c:
                yield list(c)


ENTRY_POOL = [("count", "int", "{}"), ("pad", "int", "{:05d}"), ("note", "str", "{}"), ("ratio", "float", "{}"),
              ("ratio_r", "float", "{!r}"), ("tag", "str", "{:s}"), ("big", "int", "{:d}"), ("n_r", "int", "{!r}"),
              ("sci3", "float", "{:.2e}"), ("sci17", "float", "{:.16e}"), ("a,b", "str", "{}"), ("wide", "int", "{:012d}")]
# strings: separators, quotes, both kinds of line end (alone and combined), leading/trailing blanks, look-alikes
ENTRY_ALPHABET = ["a", "B", " ", ",", '"', "'", ";", "é", "0", "-", "\t", "x,y", '""', "epoch", "\n", "1e3", "",
                  "\r", "\r\n", "\n\r", '"\r"', "inf", "None"]
LOSSY = {"{:.2e}"}


def reread(typ, fmt, v):
    """the value a faithful history file hands back: typ(fmt.format(v))"""
    return TYPES[typ](fmt.format(v))


def entry_values(rng, typ, n):
    out = []
    for _ in range(n):
        if typ == "int":
            out.append(rng.choice((0, 1, -1, 7, 10, 99999, -12345, rng.randrange(-10 ** 12, 10 ** 12))))
        elif typ == "float":
            # incl. the boundaries of repr's layout (1e-4 fixed / 1e-5 exponent; 16 digits fixed / 1e16 exponent),
            # 17 significant digits and three-digit exponents (audit round)
            out.append(rng.choice((0.0, 1.5, -2.25, 0.1, 1e-30, 3.141592653589793, 1e16, 123456789.125, 5e-05,
                                   0.0001, 9999999999999998.0, 1.2345678901234568e+17, 1e22, 1e120, -2.5e-100,
                                   rng.random(), rng.uniform(-1e6, 1e6),
                                   rng.uniform(1, 10) * 10.0 ** rng.randrange(-140, 140))))
        else:
            out.append("".join(rng.choice(ENTRY_ALPHABET) for _ in range(rng.randrange(0, 5))))
    return out


def add_entries(rng, c, k, pool=ENTRY_POOL):
    n = len(c["metrics"])
    ents = rng.sample(pool, k)
    c["entries"] = [list(e) for e in ents]
    c["entry_values"] = [entry_values(rng, t, n) for (_, t, _) in ents]
    return c


def fmt_code(fmt, typ):
    """Python format string -> the model's format code, or None if it is not modelled"""
    if fmt == "{}":
        return {"k": "plain", "n": 0}
    if fmt == "{:d}" and typ == "int":
        return {"k": "dec", "n": 0}
    m = re.fullmatch(r"\{:0(\d+)d\}", fmt)
    if m and typ == "int":
        return {"k": "dec", "n": int(m.group(1))}
    m = re.fullmatch(r"\{:\.(\d+)e\}", fmt)
    if m and typ == "float":
        return {"k": "sci", "n": int(m.group(1)) + 1}
    if fmt == "{:s}" and typ == "str":
        return {"k": "s", "n": 0}
    if fmt == "{!r}" and typ in ("int", "float"):
        return {"k": "r", "n": 0}
    return None


def entries_modelled(case):
    ents = case.get("entries") or []
    return bool(ents) and all(fmt_code(f, t) is not None for (_, t, f) in ents)


class C15(PropertyCheck):
    pid = "C15"
    title = "Training control decisions follow the stated rules and survive restarts"
    rule = ("a case = one parameter setting (patience/burn-in/cool-down/threshold/factor/epsilon/num_epochs/"
            "log10_learning_rate) + an optimizer with 1-3 param groups (each with the default or its own rate), loaded "
            "or NOT loaded at epoch 0 (rates not synchronised with log10_learning_rate) + one (train,val) sequence + "
            "per-call options (explicit `epoch=`, `best_is_train`) + checkpoint options (keep last/best, keep all, "
            "fixed file names), history file or none + 0-2 user entries (int/float/str) + a list of restart subsets, "
            "each either 'new process' (new controller/model/optimizer built with another rate, last epoch loaded "
            "implicitly or with an explicit epoch) or 'update_cache()' on the same controller; streams: "
            "dyadic (all float ops exact), decimal (two-decimal grid, decimal thresholds/factors, binary64 rounding "
            "modelled exactly), offgrid (metrics not representable at the printed precision: correspondence only for "
            "the restart clause), epsilon (rate change at or next to 10**reduce_lr_log10_epsilon), wide (patience/"
            "burn-in/cool-down >= 10: two-digit columns), entries (1-3 user entries of every modelled type/format: "
            "int '{}' '{:d}' '{:0wd}' '{!r}', float '{}' '{!r}' '{:.ke}' (values incl. the boundaries of repr's fixed/exponent layout, 17 digits, three-digit exponents), str '{}' '{:s}'; strings with commas, quotes, "
            "carriage returns, line feeds; the whole file is compared byte for byte with the model's text and the "
            "entries returned after restarts with the model's character-level re-read). Validation walks: plateau/improve/noisy/const/diverge. "
            "Exhaustive blocks: every val sequence of length 4 (quick; 16 settings) / 5 (thorough; 32 settings) over "
            "3 levels, cycling through the option variants; "
            "every non-empty restart subset for sequences of length <= 5 (quick) / <= 8 (thorough). "
            "non-trivial: >= 1 reset after a failure and >= 1 countdown reaching 0 (early stop or rate criterion fired); "
            "distinct by the whole case")
    assumptions = [
        "float arithmetic is IEEE binary64 round-to-nearest-even in the normal range (modelled by roundF64; "
        "10**x for the two log10 parameters is taken from Python)",
        "Python '{:.4e}'.format / float() are correctly rounded (modelled by fmtSci / decValue + rnd); repr(float) is "
        "the shortest digit string that reads back, the closer neighbour first (modelled by reprText); the csv "
        "module behaves as the state machine csvStep / the quoting rule csvField (all compared on every case)",
        "the history file is opened with newline='' (tree with fixes/C15-csv-newline.diff)",
        "torch.save/torch.load round-trip the optimizer state exactly",
        "update_for_epoch is called for consecutive epochs (an explicit `epoch=` equals the inferred one); "
        "re-doing an earlier epoch, distributed reduction, NaN/inf metrics are outside the model; `best_is_train`, "
        "the checkpoint options and the presence of user entries are varied and must not change any decision",
    ]
    quick_budget_s = 80
    thorough_budget_s = 600
    exhaustive = {"quick": False, "thorough": False}

    def __init__(self):
        from collections import Counter
        self.stats = Counter()

    # -------------------------------------------------------------- cases
    @staticmethod
    def variant(case, i, n):
        """option variants the exhaustive block cycles through (none of them may change a decision)"""
        v = i % 8
        if v == 1:
            case["explicit_epoch"] = [True] * n
        elif v == 2:
            case["best_is_train"] = [True] * n
        elif v == 3:
            case["csv"] = False
        elif v == 4:
            case["restart_sets"] = [list(range(1, n + 1))]
            case["restart_modes"] = ["cache"]
        elif v == 5:
            case["load0"] = False
        elif v == 6:
            case["groups"] = [0.25, None]
        elif v == 7:
            case["entries"] = [["count", "int", "{}"]]
            case["entry_values"] = [[i + e for e in range(n)]]
        return case

    def cases(self, rng, tier):
        big = tier != "quick"
        # (a) hand-picked: the double-rounding witness and a few regression shapes
        yield {"stream": "decimal", "params": base_params(rlr_thr=0.5, rlr_factor=0.7), "opt_lr": 1.0,
               "groups": [None], "metrics": [[1.0, 1.0]] * 9, "restart_sets": [list(range(1, 9))],
               "state_dir": True}
        # (b) exhaustive block without new-process restarts: all val sequences of length 4 over three levels
        levels = [1.0, 0.75, 0.5]
        L = 5 if big else 4
        thrs = (0.25, 0.5) if big else (0.25,)
        i = 0
        for pat, burn, cool, thr, ne in itertools.product((1, 2), (0, 1), (0, 1), thrs, (None, 3)):
            p = base_params(es_thr=thr, es_pat=pat, es_burn=burn, rlr_thr=thr, rlr_pat=pat, rlr_cool=cool,
                            rlr_burn=burn, num_epochs=ne)
            i += 3
            for seq in itertools.product(levels, repeat=L):
                i += 1
                yield self.variant({"stream": "dyadic", "params": p, "opt_lr": 0.5, "groups": [None],
                                    "metrics": [[v + 0.25, v] for v in seq], "restart_sets": [],
                                    "state_dir": False}, i, L)
        # (c) every restart subset
        n_sub = 12 if not big else 60
        for i in range(n_sub):
            n = rng.choice((3, 4, 5)) if not big else rng.choice((5, 6, 7, 8))
            c = self.random_case(rng, n, rng.choice(("dyadic", "decimal")))
            subs = list(all_subsets(n))
            c["restart_sets"] = subs
            if i % 3 == 2:
                c["restart_modes"] = ["cache"] * len(subs)
                c["state_dir"] = False
            else:
                c["state_dir"] = True
                c["restart_opt_lr"] = rng.choice((None, 0.0625, 0.07))
            yield c
        # (d) the rate change at / next to epsilon (`old - new > eps` is strict)
        for c in self.epsilon_cases(rng, 40 if not big else 300):
            yield c
        # (e) two-digit countdown columns
        for c in self.wide_cases(rng, 8 if not big else 60):
            yield c
        # (e') user entries
        for c in self.entries_cases(rng, 60 if not big else 600):
            yield c
        # (f) random configurations, a few random restart subsets each
        n_rand = 900 if not big else 12000
        for i in range(n_rand):
            stream = rng.choice(("dyadic", "dyadic", "decimal", "decimal", "offgrid"))
            n = rng.choice((1, 2, 3, 5, 6, 8, 10, 12)) if not big else rng.choice((1, 2, 4, 6, 8, 10, 14, 20, 30))
            c = self.random_case(rng, n, stream)
            self.random_restarts(rng, c, rng.choice((0, 1, 2, 3)))
            yield c

    def random_restarts(self, rng, c, k):
        n = len(c["metrics"])
        sets, modes = [], []
        for _ in range(k):
            s = sorted({e for e in range(1, n + 1) if rng.random() < rng.choice((0.2, 0.5, 1.0))})
            if s and s not in sets:
                sets.append(s)
                modes.append(rng.choice(("new", "new", "cache")))
        c["restart_sets"] = sets
        if "cache" in modes:
            c["restart_modes"] = modes
        c["state_dir"] = ("new" in modes) or rng.random() < 0.3
        if "new" in modes:
            c["restart_opt_lr"] = rng.choice((None, 0.0625, 0.07))
            if rng.random() < 0.3:
                c["load_explicit"] = True
        if c["state_dir"]:
            ck = rng.choice(("default", "default", "default", "keep_all", "keep_all", "fixed_names"))
            if ck != "default":
                c["ckpt"] = ck
        elif not sets and rng.random() < 0.25:
            c["csv"] = False
        return c

    def epsilon_cases(self, rng, count):
        out = 0
        while out < count:
            k = rng.choice((0, -1, -2, -3, -8))
            factor = rng.choice((0.5, 0.75, 0.25, 0.9, 0.1, 0.3))
            eps = 10 ** k
            lr_b = eps / (1 - factor)                 # old - new is eps up to rounding
            lr0 = lr_b * rng.choice((1, 1, 2, 4, 1 / factor, 1.0000000000000002, 0.9999999999999999))
            n = rng.choice((3, 4, 6))
            p = base_params(rlr_thr=rng.choice((0.25, 1.0)), rlr_factor=factor, rlr_pat=rng.choice((1, 1, 2)),
                            rlr_cool=rng.choice((0, 0, 1)), log10_eps=k,
                            log10_lr=rng.choice((None, None, k)))
            c = {"stream": "epsilon", "params": p, "opt_lr": lr0, "groups": [None],
                 "metrics": [[1.0, 1.0]] * n}
            self.random_restarts(rng, c, rng.choice((0, 0, 1)))
            out += 1
            yield c

    def wide_cases(self, rng, count):
        for _ in range(count):
            n = rng.choice((12, 14, 23))
            big_one = lambda: rng.choice((10, 11, 12, 100))
            p = base_params(es_thr=0.25, rlr_thr=0.25,
                            es_pat=rng.choice((1, 2, big_one())), es_burn=rng.choice((0, big_one())),
                            rlr_pat=rng.choice((1, 3, big_one())), rlr_cool=rng.choice((0, 2, big_one())),
                            rlr_burn=rng.choice((0, big_one())),
                            num_epochs=rng.choice((None, 9, 10, 99, 100, 1000)))
            vals = [4.0 if e < 2 else 3.0 for e in range(n)]
            c = {"stream": "wide", "params": p, "opt_lr": 1.0, "groups": [None],
                 "metrics": [[v, v] for v in vals]}
            self.random_restarts(rng, c, rng.choice((0, 1)))
            yield c

    def random_case(self, rng, n, stream):
        if stream == "dyadic":
            thr = lambda: rng.choice((0.0, 0.25, 0.5, 1.0, 0.125))
            factor = rng.choice((0.5, 0.25, 0.75, 0.125))
            grid, span = 0.25, 12
            lr0 = rng.choice((1.0, 0.5, 0.125, 2.0))
        else:
            thr = lambda: rng.choice((0.0, 0.01, 0.05, 0.1, 0.3, 1.0))
            factor = rng.choice((0.1, 0.5, 0.7, 0.9, 0.3))
            grid, span = 0.01, 60
            lr0 = rng.choice((0.1, 0.01, 1.0, 0.05, 0.3))
        pats = (1, 1, 2, 2, 3, 4)
        small = (0, 0, 1, 2, 3)
        p = base_params(
            es_thr=thr(), es_pat=rng.choice(pats), es_burn=rng.choice(small),
            rlr_thr=thr(), rlr_factor=factor, rlr_pat=rng.choice(pats), rlr_cool=rng.choice(small),
            rlr_burn=rng.choice(small),
            num_epochs=rng.choice((None, None, 1, 2, max(1, n - 1), n, n + 2, 10, 100)),
            log10_eps=rng.choice((-8, -8, -8, -1, -2, 0, -3.5)),
            log10_lr=rng.choice((None, None, None, -1, 0, -2, -0.5)))
        # validation metric: a walk on the grid that mostly plateaus (so countdowns run out) with
        # occasional improvements/regressions, sometimes negative values; "diverge": gets worse
        start = rng.randrange(span // 2, span)
        if rng.random() < 0.15:
            start -= span
        vals, cur = [], start
        mode = rng.choice(("plateau", "improve", "noisy", "const", "diverge"))
        for _ in range(n):
            r = rng.random()
            if mode == "const":
                step = 0
            elif mode == "plateau":
                step = rng.choice((0, 0, 0, 1, -1, -2, -30)) if r < 0.9 else -rng.randrange(1, 40)
            elif mode == "improve":
                step = -rng.randrange(0, 30)
            elif mode == "diverge":
                step = rng.choice((0, 1, 2, 5, 30, 60, -1))
            else:
                step = rng.randrange(-40, 30)
            cur += step
            vals.append(cur)
        if stream == "offgrid":
            # metrics that need more than five significant digits
            mets = [[(v * 0.01) * 1.000001 + 1e-7 * rng.random() + 0.5, v * 0.01 + rng.random() * 1e-6]
                    for v in vals]
        elif stream == "dyadic":
            mets = [[(v + rng.randrange(0, 4)) * grid, v * grid] for v in vals]
        else:
            mets = [[round((v + rng.randrange(0, 30)) * grid, 2), round(v * grid, 2)] for v in vals]
        # optimizer: 1-3 param groups, each with the optimizer's default rate (None) or its own
        ng = rng.choice((1, 1, 1, 2, 2, 3))
        own = (lr0 / 2, 0.25, lr0 * 2, 0.07)
        groups = [None if rng.random() < 0.5 else rng.choice(own) for _ in range(ng)]
        c = {"stream": stream, "params": p, "opt_lr": lr0, "groups": groups, "metrics": mets}
        r = rng.random()
        if r < 0.15:
            c["best_is_train"] = [True] * n
        elif r < 0.3:
            c["best_is_train"] = [rng.random() < 0.5 for _ in range(n)]
        r = rng.random()
        if r < 0.15:
            c["explicit_epoch"] = [True] * n
        elif r < 0.3:
            c["explicit_epoch"] = [rng.random() < 0.5 for _ in range(n)]
        if rng.random() < 0.15:
            c["load0"] = False
        if rng.random() < 0.2:
            add_entries(rng, c, rng.randrange(1, 3))
        return c

    def entries_cases(self, rng, count):
        """user entries of every modelled type/format, values with separators, quotes and line ends, restarts"""
        for _ in range(count):
            n = rng.randrange(1, 6)
            p = base_params(rlr_thr=rng.choice((0.0, 0.25)), es_thr=rng.choice((0.0, 0.25)),
                            es_pat=rng.choice((1, 3)))
            c = {"stream": "entries", "params": p, "opt_lr": 0.5, "groups": [None],
                 "metrics": [[1.0, rng.choice((1.0, 0.5))] for _ in range(n)]}
            add_entries(rng, c, rng.randrange(1, 4))
            self.random_restarts(rng, c, rng.choice((1, 1, 2)))
            yield c

    # -------------------------------------------------------------- implementation
    @staticmethod
    def modes(case):
        ms = case.get("restart_modes") or []
        return [ms[i] if i < len(ms) else "new" for i in range(len(case.get("restart_sets", [])))]

    def run_impl(self, case):
        with warnings.catch_warnings():
            warnings.simplefilter("ignore")
            base = run_real(case, [])
            rest = [run_real(case, r, m) for r, m in zip(case.get("restart_sets", []), self.modes(case))]
        return {"base": base, "restarts": rest}

    # -------------------------------------------------------------- model
    def model_request(self, case):
        p = case["params"]
        groups = [frac_str(case["opt_lr"] if g is None else g) for g in case["groups"]]
        mp = {
            "num_epochs": p["num_epochs"], "es_thr": frac_str(fl(p["es_thr"])), "es_pat": p["es_pat"],
            "es_burn": p["es_burn"], "rlr_thr": frac_str(fl(p["rlr_thr"])),
            "rlr_factor": frac_str(fl(p["rlr_factor"])), "rlr_pat": p["rlr_pat"], "rlr_cool": p["rlr_cool"],
            "rlr_burn": p["rlr_burn"], "rlr_eps": frac_str(fl(10 ** p["log10_eps"])),
            "init_lr": None if p["log10_lr"] is None else frac_str(fl(10 ** p["log10_lr"])),
            "opt_default": frac_str(fl(case["opt_lr"])),
        }
        req = {"rnd": "f64", "params": mp, "groups": groups, "load0": bool(case.get("load0", True)),
               "metrics": [[frac_str(fl(t)), frac_str(fl(v))] for t, v in case["metrics"]],
               "restart_sets": case.get("restart_sets", [])}
        if entries_modelled(case):
            req["entries"] = [{"name": n, "typ": t, "fmt": fmt_code(f, t)} for (n, t, f) in case["entries"]]
            req["entry_values"] = [[frac_str(v) if t == "float" else v for v in vals]
                                   for (_, t, _), vals in zip(case["entries"], case["entry_values"])]
        return {"op": "c15.run", "case": req}

    # -------------------------------------------------------------- correspondence
    @staticmethod
    def _cmp_run(case, tag, a, b, out):
        if b.get("error"):
            out.append(f"{tag}: model raises {b['error']}, implementation does not")
            return
        for k in ("cont", "cont_training", "lrs", "cont_at"):
            if a[k] != b[k]:
                i = next((i for i, (x, y) in enumerate(zip(a[k], b[k])) if x != y), None)
                out.append(f"{tag}: {k} differs first at index {None if i is None else i + 1}: "
                           f"impl={a[k]} model={b[k]}")
        if a["cont0"] != b["cont0"]:
            out.append(f"{tag}: continue_training() before the first epoch: impl={a['cont0']} model={b['cont0']}")
        for e, (ra, rb) in enumerate(zip([a["row0"]] + a["rows"], [b["row0"]] + b["rows"])):
            for k in ra:
                if ra[k] != rb.get(k):
                    out.append(f"{tag}: get_info({e})[{k}] impl={ra[k]} model={rb.get(k)}")
        if len(a["rows"]) != len(b["rows"]):
            out.append(f"{tag}: {len(a['rows'])} rows vs model {len(b['rows'])}")
        if case.get("csv", True):
            ca = a["csv"]
            if a.get("entries") is not None:
                ca = [r[:8] for r in ca]
            if ca != b["csv"]:
                i = next((i for i, (x, y) in enumerate(zip(ca, b["csv"])) if x != y), None)
                out.append(f"{tag}: CSV text differs at line {i}: impl={ca[i] if i is not None and i < len(ca) else ca} "
                           f"model={b['csv'][i] if i is not None else b['csv']}")
            # the whole file, byte for byte (header, quoting, line terminators, user entries)
            if (not case.get("entries")) or entries_modelled(case):
                if a["csv_text"] != b["csv_text"]:
                    ta, tb = a["csv_text"] or "", b["csv_text"] or ""
                    i = next((i for i, (x, y) in enumerate(zip(ta, tb)) if x != y), min(len(ta), len(tb)))
                    out.append(f"{tag}: history file differs from the model's at character {i}: "
                               f"impl={ta[max(0, i - 20):i + 20]!r} model={tb[max(0, i - 20):i + 20]!r}")
        if entries_modelled(case):
            if a["entries"] != b["entries"]:
                out.append(f"{tag}: user entries returned by get_info: impl={a['entries']} model={b['entries']}")
        if not b.get("text_ok", True):
            out.append(f"{tag}: MODEL: re-reading the file text (readHist . fileText) differs from the "
                       f"record-level restart")

    def compare(self, case, impl, model):
        if "error" in impl:
            return [f"implementation raised {impl['error']}: {impl.get('message')}"]
        out = []
        self._cmp_run(case, "uninterrupted", impl["base"], model["base"], out)
        for rs, m, a, b in zip(case.get("restart_sets", []), self.modes(case), impl["restarts"], model["restarts"]):
            self._cmp_run(case, f"restart({m}) after {rs}", a, b, out)
        return out[:6]

    # -------------------------------------------------------------- the property on the implementation
    @staticmethod
    def initial_groups(case):
        """the optimizer's rates before the first epoch, as the rules see them"""
        p = case["params"]
        init_lr = None if p["log10_lr"] is None else 10 ** p["log10_lr"]
        own = [float(case["opt_lr"] if g is None else g) for g in case["groups"]]
        if init_lr is not None and case.get("load0", True):
            return [init_lr] * len(own)
        return own

    def predicate(self, case, impl, model):
        if "error" in impl:
            return [(f"controller raised {impl['error']}: {impl.get('message')}", None)]
        fails = []
        st = self.stats
        if model is not None:
            fl = model.get("flags", {})
            st["rounding_sensitive_cases"] += bool(fl.get("rounding_sensitive"))
            st["metrics_on_printed_grid_cases"] += bool(fl.get("metrics_on_grid"))
            st["restarted_runs"] += len(case.get("restart_sets", []))
            st["restarted_runs_update_cache"] += sum(1 for m in self.modes(case) if m == "cache")
            st["epochs_checked_against_rules"] += sum(1 for x in model["spec"]["live"] if x)
            st["es_stop_epochs"] += sum(1 for x, l in zip(model["spec"]["es_stop"], model["spec"]["live"]) if x and l)
            st["rate_fired_epochs"] += sum(model["spec"]["fire"])
            st["rate_fired_negligible_epochs"] += sum(1 for f, r in zip(model["spec"]["fire"], model["spec"]["reduce"])
                                                      if f and not r)
        p = case["params"]
        base = impl["base"]
        n = len(case["metrics"])
        runs = [("uninterrupted", base)] + [(f"restart({m}) after {rs}", r) for rs, m, r in
                                            zip(case.get("restart_sets", []), self.modes(case), impl["restarts"])]
        if model is not None:
            spec = model["spec"]
            # --- stop decisions (rules apply until early stopping has told the loop to stop)
            for i in range(n):
                if spec["live"][i] and base["cont"][i] != (not spec["stop"][i]):
                    fails.append((f"epoch {i + 1}: update_for_epoch returned {base['cont'][i]} but the rules say "
                                  f"stop={spec['stop'][i]} (es_stop={spec['es_stop'][i]}, "
                                  f"budget={spec['budget_stop'][i]})", "C15.stop"))
                    break
            # --- learning rate: multiplied exactly when the criterion fires and the change matters
            groups = [frac_str(g) for g in self.initial_groups(case)]
            if base["lrs0"] != groups:
                fails.append((f"before the first epoch: optimizer rates {base['lrs0']}, expected {groups}", "C15.lr0"))
            for i in range(n):
                if spec["reduce"][i]:
                    groups = [spec["lr"][i]] * len(groups)
                if base["lrs"][i] != groups:
                    fails.append((f"epoch {i + 1}: optimizer rates {base['lrs'][i]} but the rules give {groups} "
                                  f"(fire={spec['fire'][i]}, reduce={spec['reduce'][i]})", "C15.lr.optimizer"))
                    break
                if base["rows"][i]["lr"] != spec["lr"][i]:
                    fails.append((f"epoch {i + 1}: recorded lr {base['rows'][i]['lr']} but the rules give "
                                  f"{spec['lr'][i]}", "C15.lr.recorded"))
                    break
        # --- continue_training agrees with the returned decision; history is complete
        for tag, run in runs:
            if run["cont"] != run["cont_training"]:
                fails.append((f"{tag}: continue_training() {run['cont_training']} != returned {run['cont']}",
                              "C15.continue"))
            # continue_training(e) for a recorded epoch e = what update_for_epoch returned at e; training
            # may start on a fresh controller
            if run["cont_at"] != [True] + run["cont"] or run["cont0"] is not True:
                fails.append((f"{tag}: continue_training(e) for e=0..{n} is {run['cont_at']} (before the first epoch: "
                              f"{run['cont0']}), update_for_epoch returned {run['cont']}", "C15.continue_at"))
            if run["last_epoch"] != n or (case.get("csv", True) and len(run["csv"]) != n + 1):
                fails.append((f"{tag}: history has {len(run['csv']) - 1} rows / last epoch {run['last_epoch']} "
                              f"after {n} epochs", "C15.history"))
            for e, row in enumerate(run["rows"], 1):
                if row["epoch"] != e:
                    fails.append((f"{tag}: get_info({e})['epoch'] = {row['epoch']}", "C15.history"))
                for k, col in (("train_met", 0), ("val_met", 1)):
                    want = float(case["metrics"][e - 1][col])
                    if tag == "uninterrupted" and row[k] != frac_str(want):
                        fails.append((f"{tag}: get_info({e})[{k}] = {row[k]}, given {want}", "C15.history"))
            # --- user entries come back with the declared type and the stored value (a format that
            # drops digits: the value the format dictates, once the row has been re-read)
            rs_here = [] if tag == "uninterrupted" else case["restart_sets"][[t for t, _ in runs].index(tag) - 1]
            last_reread = max(rs_here, default=0)
            for k, (name, typ, fmt) in enumerate(case.get("entries", [])):
                for e in range(1, n + 1):
                    v = case["entry_values"][k][e - 1]
                    want = canon_entry(reread(typ, fmt, v) if (fmt in LOSSY and e <= last_reread) else v)
                    got = run["entries"][e - 1][k]
                    if got != want:
                        fails.append((f"{tag}: entry {name!r} ({typ}, {fmt!r}) of epoch {e} is {got}, stored {want}",
                                      "C15.entries"))
                        break
                if run["entries0"][k] is not None:
                    fails.append((f"{tag}: entry {name!r} of the dummy epoch 0 is {run['entries0'][k]!r}", "C15.entries"))
        # --- restart clause (metrics representable at the printed precision)
        on_grid = all(float("%.4e" % float(x)) == float(x) for m in case["metrics"] for x in m)
        if on_grid:
            for rs, run in zip(case.get("restart_sets", []), impl["restarts"]):
                f = self._restart_diff(case, rs, base, run, model)
                if f is not None:
                    fails.append(f)
        return fails

    def _restart_diff(self, case, rs, base, run, model):
        """None if the restarted run reproduces the uninterrupted one; else (what, signature)."""
        hard, soft = [], []
        for k in ("cont", "cont_training", "cont_at", "cont0", "lrs0"):
            if base[k] != run[k]:
                hard.append(f"{k}: {run[k]} vs uninterrupted {base[k]}")
        for e, (a, b) in enumerate(zip([base["row0"]] + base["rows"], [run["row0"]] + run["rows"])):
            for k in a:
                if k == "lr":
                    if not close(a[k], b[k]):
                        soft.append(f"get_info({e})[lr] {fmt_frac(b[k])} vs {fmt_frac(a[k])}")
                elif a[k] != b[k]:
                    hard.append(f"get_info({e})[{k}] {b[k]} vs {a[k]}")
        for e, (a, b) in enumerate(zip(base["lrs"], run["lrs"]), 1):
            if len(a) != len(b) or any(not close(x, y) for x, y in zip(a, b)):
                soft.append(f"optimizer lr after epoch {e}: {[fmt_frac(x) for x in b]} vs "
                            f"{[fmt_frac(x) for x in a]}")
        lossy = [k for k, (_, _, f) in enumerate(case.get("entries", [])) if f in LOSSY]
        strip = lambda ents: None if ents is None else [[v for k, v in enumerate(r) if k not in lossy] for r in ents]
        if strip(base.get("entries")) != strip(run.get("entries")):
            hard.append("user entries differ")
        if len(base["csv"]) != len(run["csv"]):
            hard.append("different number of CSV rows")
        for i, (a, b) in enumerate(zip(base["csv"], run["csv"])):
            if a != b:
                if a[:5] + a[6:] == b[:5] + b[6:]:
                    soft.append(f"CSV row {i} lr column {b[5]} vs {a[5]}")
                else:
                    hard.append(f"CSV row {i}: {b} vs {a}")
        if not hard and not soft:
            return None
        self.stats["restarted_runs_differing"] += 1
        what = (f"restart after epochs {rs} does not reproduce the uninterrupted run: " +
                "; ".join((hard + soft)[:4]))
        if hard:
            return (what, "C15.restart")
        # only learning-rate values differ: is it exactly "the rate was re-read at 5 significant digits"?
        sig = SIG if self._is_double_rounding(case, rs, run, model) else "C15.restart.lr"
        return (what, sig)

    def _is_double_rounding(self, case, rs, run, model):
        """The restarted run's rates equal the uninterrupted recurrence with the rate re-rounded to the
        printed precision (float('%.4e' % lr)) at each restart, and nothing else."""
        if model is None:
            return False
        p = case["params"]
        spec = model["spec"]
        factor, eps = float(p["rlr_factor"]), 10 ** p["log10_eps"]
        init_lr = None if p["log10_lr"] is None else 10 ** p["log10_lr"]
        lr = init_lr if init_lr is not None else float(case["opt_lr"])
        groups = self.initial_groups(case)
        hist_lr = []
        for e in range(1, len(case["metrics"]) + 1):
            if spec["fire"][e - 1]:
                new = lr * factor
                if lr - new > eps:
                    lr = new
                    groups = [new] * len(groups)
            text = "%.4e" % lr
            if run["csv"][e][5] != text:
                return False
            if e in rs:
                lr = float(text)
            if run["lrs"][e - 1] != [frac_str(g) for g in groups]:
                return False
            hist_lr.append(lr)
        # get_info: rows written before the last restart were re-read from the file, later ones not
        last = max([e for e in rs if e <= len(hist_lr)], default=0)
        for e, row in enumerate(run["rows"], 1):
            want = float(run["csv"][e][5]) if e <= last else hist_lr[e - 1]
            if row["lr"] != frac_str(want):
                return False
        return True

    # -------------------------------------------------------------- evidence helpers
    def nontrivial(self, case, impl):
        if "error" in impl:
            return False
        rows = impl["base"]["rows"]
        p = case["params"]
        reach0 = any(r["es_patience_cd"] == 0 for r in rows)
        reset = False
        prev_lr = None
        for a, b in zip([None] + rows[:-1], rows):
            if a is None:
                prev_lr = b["lr"]
                continue
            if b["lr"] != a["lr"] or (b["rlr_resume_cd"] > a["rlr_resume_cd"]):
                reach0 = True
            if (b["es_patience_cd"] == p["es_pat"] and a["es_patience_cd"] < p["es_pat"]) or \
               (b["rlr_patience_cd"] == p["rlr_pat"] and a["rlr_patience_cd"] < p["rlr_pat"]) or \
               b["lr"] != a["lr"]:
                reset = True
        return reach0 and reset

    def tags(self, case, impl):
        p = case["params"]
        t = [f"stream={case.get('stream')}", f"es_pat={p['es_pat']}", f"rlr_pat={p['rlr_pat']}",
             f"es_burn={'>0' if p['es_burn'] else '0'}", f"rlr_burn={'>0' if p['rlr_burn'] else '0'}",
             f"rlr_cool={'>0' if p['rlr_cool'] else '0'}",
             f"num_epochs={'none' if p['num_epochs'] is None else 'set'}",
             f"es_thr={'0' if not p['es_thr'] else '>0'}", f"rlr_thr={'0' if not p['rlr_thr'] else '>0'}",
             f"len={min(len(case['metrics']), 9)}{'+' if len(case['metrics']) > 9 else ''}",
             f"restart_sets={min(len(case.get('restart_sets', [])), 4)}{'+' if len(case.get('restart_sets', [])) > 4 else ''}",
             f"groups={len(case['groups'])}", f"log10_lr={'set' if p['log10_lr'] is not None else 'none'}"]
        t += [f"load0={case.get('load0', True)}", f"csv={case.get('csv', True)}", f"ckpt={case.get('ckpt', 'default')}",
              f"state_dir={bool(case.get('state_dir', True))}",
              "best_is_train=" + ("never" if not any(case.get("best_is_train") or []) else
                                  "always" if all(case["best_is_train"]) else "mixed"),
              "explicit_epoch=" + ("never" if not any(case.get("explicit_epoch") or []) else
                                   "always" if all(case["explicit_epoch"]) else "mixed"),
              f"entries={len(case.get('entries', []))}",
              "own_rate_groups=" + str(sum(1 for g in case["groups"] if g is not None)),
              f"log10_eps={p['log10_eps']}", f"rlr_factor={p['rlr_factor']}"]
        for m in set(self.modes(case)):
            t.append(f"restart_mode={m}")
        if case.get("restart_opt_lr") is not None:
            t.append("restart_optimizer_built_with_other_rate")
        if case.get("load_explicit"):
            t.append("restart_load_explicit_epoch")
        vs = [m[1] for m in case["metrics"]]
        if any(b > a for a, b in zip(vs, vs[1:])):
            t.append("val_metric_increases")
        if "error" not in impl:
            rows = impl["base"]["rows"]
            if any(r["es_patience_cd"] == 0 for r in rows) and p["es_thr"]:
                t.append("early_stop")
            if len({r["lr"] for r in rows}) > 1:
                t.append("lr_reduced")
            if any(b["rlr_resume_cd"] > a["rlr_resume_cd"] and a["lr"] == b["lr"] for a, b in zip(rows, rows[1:])):
                t.append("fired_but_negligible_or_cooldown_only")
            if any(not c for c in impl["base"]["cont"][:-1]):
                t.append("continued_after_stop")
        return t

    def shrink(self, case):
        n = len(case["metrics"])
        rsets = case.get("restart_sets", [])
        if len(rsets) > 1:
            for r, m in zip(rsets, self.modes(case)):
                c = dict(case); c["restart_sets"] = [r]
                if "restart_modes" in case:
                    c["restart_modes"] = [m]
                yield c
        def cut(c, sl, shift):
            c["metrics"] = case["metrics"][sl]
            for k in ("best_is_train", "explicit_epoch"):
                if case.get(k):
                    c[k] = case[k][sl]
            if case.get("entry_values"):
                c["entry_values"] = [v[sl] for v in case["entry_values"]]
            keep = [(sorted({e - shift for e in r if 1 <= e - shift <= n - 1}), m)
                    for r, m in zip(rsets, self.modes(case))]
            keep = [(r, m) for r, m in keep if r]
            c["restart_sets"] = [r for r, _ in keep]
            if "restart_modes" in case:
                c["restart_modes"] = [m for _, m in keep]
            return c
        if n > 1:
            yield cut(dict(case), slice(0, n - 1), 0)
            yield cut(dict(case), slice(1, n), 1)
        for r_i, r in enumerate(rsets):
            for e in r:
                if len(r) > 1:
                    c = dict(case)
                    c["restart_sets"] = [x if j != r_i else [y for y in r if y != e] for j, x in enumerate(rsets)]
                    yield c
        p = case["params"]
        for k, lo in (("es_pat", 1), ("rlr_pat", 1), ("es_burn", 0), ("rlr_burn", 0), ("rlr_cool", 0)):
            if p[k] > lo:
                c = dict(case); c["params"] = dict(p, **{k: p[k] - 1}); yield c
        for k, v in (("num_epochs", None), ("log10_lr", None), ("log10_eps", -8), ("es_thr", 0.0), ("rlr_thr", 0.0)):
            if p[k] != v:
                c = dict(case); c["params"] = dict(p, **{k: v}); yield c
        if len(case["groups"]) > 1:
            c = dict(case); c["groups"] = case["groups"][:1]; yield c
            c = dict(case); c["groups"] = case["groups"][1:]; yield c
        for k in ("best_is_train", "explicit_epoch", "load0", "csv", "ckpt", "restart_opt_lr", "load_explicit",
                  "restart_modes"):
            if k in case and not (k == "csv" and case.get("restart_sets")):
                c = dict(case); del c[k]
                if k == "restart_modes":
                    c["state_dir"] = True
                yield c
        if case.get("entries"):
            c = dict(case); del c["entries"]; c.pop("entry_values", None); yield c
            ents = case["entries"]
            if len(ents) > 1:
                for k in range(len(ents)):
                    c = dict(case)
                    c["entries"] = [e for j, e in enumerate(ents) if j != k]
                    c["entry_values"] = [v for j, v in enumerate(case["entry_values"]) if j != k]
                    yield c
            # shorter strings / simpler numbers
            for k, (_, typ, _) in enumerate(ents):
                for e, v in enumerate(case["entry_values"][k]):
                    cands = []
                    if typ == "str" and len(v) > 0:
                        cands = [v[:len(v) // 2], v[len(v) // 2:], v[1:], v[:-1]]
                    elif typ == "int" and v not in (0, 1):
                        cands = [0, 1]
                    elif typ == "float" and v not in (0.0, 1.5):
                        cands = [0.0, 1.5]
                    for nv in cands:
                        if nv != v:
                            c = dict(case)
                            c["entry_values"] = [list(col) for col in case["entry_values"]]
                            c["entry_values"][k][e] = nv
                            yield c
        # flatten the training metric (never used in decisions)
        if any(m[0] != 1.0 for m in case["metrics"]):
            c = dict(case); c["metrics"] = [[1.0, m[1]] for m in case["metrics"]]; yield c

    # -------------------------------------------------------------- user entries, malformed calls
    def extra_checks(self, rng, tier, report):
        import c15_entries
        c15_entries.run(rng, tier, report)
        report["extra"]["c15_stats"] = dict(self.stats)


def close(a, b, rel=1e-9):
    if a is None or b is None:
        return a == b
    x, y = Fraction(a), Fraction(b)
    return abs(x - y) <= rel * max(abs(x), abs(y))


def fmt_frac(s):
    return None if s is None else repr(float(Fraction(s)))


CHECK = C15()
