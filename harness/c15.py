"""C15 — training control decisions follow the stated rules and survive restarts.

Correspondence: the real TrainingStateController + a real torch optimizer + the CSV history and a
state directory in a temp dir are driven with a metric sequence, uninterrupted and with a restart
(new controller + new optimizer + load_model_and_optimizer_for_epoch) after every epoch of each
given subset.  The Lean model (binary64 rounding modelled exactly) must reproduce return values,
continue_training(), every param group's lr, get_info rows and the CSV text; the Lean rules
(Spec/TrainingRules.lean) are the oracle for the property evaluated on the implementation's output.
"""
import contextlib
import itertools
import os
import shutil
import tempfile
import warnings
from fractions import Fraction

from common.framework import PropertyCheck, frac_str, Failure

SIG = "C15.restart.lr_double_rounding"
INT_COLS = ("epoch", "es_resume_cd", "es_patience_cd", "rlr_resume_cd", "rlr_patience_cd")
TMP_ROOT = "/dev/shm" if os.path.isdir("/dev/shm") and os.access("/dev/shm", os.W_OK) else None


# ------------------------------------------------------------------------- real code
def make_params(p):
    from pydrobert.torch.training import TrainingStateParams
    return TrainingStateParams(
        num_epochs=p["num_epochs"], log10_learning_rate=p["log10_lr"],
        early_stopping_threshold=p["es_thr"], early_stopping_patience=p["es_pat"],
        early_stopping_burnin=p["es_burn"], reduce_lr_threshold=p["rlr_thr"],
        reduce_lr_factor=p["rlr_factor"], reduce_lr_patience=p["rlr_pat"],
        reduce_lr_cooldown=p["rlr_cool"], reduce_lr_burnin=p["rlr_burn"],
        reduce_lr_log10_epsilon=p["log10_eps"])


class Session:
    """One controller + model + optimizer bound to (csv, state_dir)."""

    def __init__(self, case, csv_path, state_dir):
        import torch
        from pydrobert.torch.training import TrainingStateController
        self.torch = torch
        ws = [torch.nn.Parameter(torch.zeros(1)) for _ in case["groups"]]
        self.model = torch.nn.ParameterList(ws)
        groups = []
        for w, g in zip(ws, case["groups"]):
            d = {"params": [w]}
            if g is not None:
                d["lr"] = g
            groups.append(d)
        self.opt = torch.optim.SGD(groups, lr=case["opt_lr"])
        self.ctl = TrainingStateController(make_params(case["params"]), csv_path, state_dir)
        for name, typ, fmt in case.get("entries", []):
            self.ctl.add_entry(name, {"int": int, "str": str, "float": float}[typ], fmt)
        self.ctl.load_model_and_optimizer_for_epoch(self.model, self.opt)

    def lrs(self):
        return [frac_str(g["lr"]) for g in self.opt.param_groups]


def canon_row(info):
    out = {}
    for k in INT_COLS:
        v = info[k]
        if not isinstance(v, int) or isinstance(v, bool):
            raise TypeError(f"{k} is {type(v).__name__}")
        out[k] = v
    for k in ("lr", "train_met", "val_met"):
        out[k] = None if info[k] is None else frac_str(info[k])
    return out


def read_csv(path):
    if not os.path.exists(path):
        return []
    with open(path, newline="") as f:
        text = f.read()
    return [ln.split(",") for ln in text.replace("\r\n", "\n").split("\n") if ln != ""]


def run_real(case, restarts):
    """-> observation of one run, restarting after each epoch in `restarts`."""
    d = tempfile.mkdtemp(prefix="c15_", dir=TMP_ROOT)
    try:
        csv_path = os.path.join(d, "hist.csv")
        state_dir = os.path.join(d, "states") if case.get("state_dir", True) else None
        s = Session(case, csv_path, state_dir)
        obs = {"cont": [], "cont_training": [], "lrs": [], "error": None}
        rs = set(restarts)
        for e, (tr, va) in enumerate(case["metrics"], 1):
            kw = {}
            for (name, typ, fmt), vals in zip(case.get("entries", []), case.get("entry_values", [])):
                kw[name] = vals[e - 1]
            cont = s.ctl.update_for_epoch(s.model, s.opt, tr, va, **kw)
            if not isinstance(cont, bool):
                raise TypeError(f"update_for_epoch returned {type(cont).__name__}")
            if e in rs:
                s = Session(case, csv_path, state_dir)
            obs["cont"].append(cont)
            obs["cont_training"].append(bool(s.ctl.continue_training()))
            obs["lrs"].append(s.lrs())
        n = len(case["metrics"])
        obs["rows"] = [canon_row(s.ctl.get_info(e)) for e in range(1, n + 1)]
        obs["last_epoch"] = s.ctl.get_last_epoch()
        obs["csv"] = read_csv(csv_path)
        if case.get("entries"):
            obs["entries"] = [[s.ctl[e][name] for (name, _, _) in case["entries"]] for e in range(1, n + 1)]
        return obs
    finally:
        shutil.rmtree(d, ignore_errors=True)


# ------------------------------------------------------------------------- generators
def fl(x):
    return float(x)


def base_params(**kw):
    p = {"num_epochs": None, "log10_lr": None, "es_thr": 0.0, "es_pat": 1, "es_burn": 0,
         "rlr_thr": 0.0, "rlr_factor": 0.5, "rlr_pat": 1, "rlr_cool": 0, "rlr_burn": 0, "log10_eps": -8}
    p.update(kw)
    return p


def all_subsets(n):
    for k in range(0, n + 1):
        for c in itertools.combinations(range(1, n + 1), k):
            if c:
                yield list(c)


class C15(PropertyCheck):
    pid = "C15"
    title = "Training control decisions follow the stated rules and survive restarts"
    rule = ("a case = one parameter setting (patience/burn-in/cool-down/threshold/factor/epsilon/num_epochs/"
            "initial rates, 1-2 optimizer groups) + one (train,val) sequence + a list of restart subsets; streams: "
            "dyadic (all float ops exact), decimal (two-decimal grid, decimal thresholds/factors, binary64 rounding "
            "modelled exactly), offgrid (metrics not representable at the printed precision: correspondence only for "
            "the restart clause). Exhaustive blocks: every val sequence of length 4 (quick; 16 settings) / 5 (thorough; 32 settings) over 3 levels; "
            "every non-empty restart subset for sequences of length <= 5 (quick) / <= 8 (thorough). "
            "non-trivial: >= 1 reset after a failure and >= 1 countdown reaching 0 (early stop or rate criterion fired); "
            "distinct by the whole case")
    assumptions = [
        "float arithmetic is IEEE binary64 round-to-nearest-even in the normal range (modelled by roundF64; "
        "10**x for the two log10 parameters is taken from Python)",
        "Python '{:.4e}'.format / float() are correctly rounded (modelled by fmtSci / parseSci)",
        "torch.save/torch.load round-trip the optimizer state exactly; csv module quoting is not modelled "
        "(user entries are checked on the implementation only)",
        "update_for_epoch is called with epoch=None (consecutive epochs); explicit epoch arguments, "
        "distributed reduction and best_is_train are outside the model",
    ]
    quick_budget_s = 70

    def __init__(self):
        from collections import Counter
        self.stats = Counter()
    thorough_budget_s = 600
    exhaustive = {"quick": False, "thorough": False}

    # -------------------------------------------------------------- cases
    def cases(self, rng, tier):
        big = tier != "quick"
        # (a) hand-picked: the double-rounding witness and a few regression shapes
        yield {"stream": "decimal", "params": base_params(rlr_thr=0.5, rlr_factor=0.7), "opt_lr": 1.0,
               "groups": [None], "metrics": [[1.0, 1.0]] * 9, "restart_sets": [list(range(1, 9))],
               "state_dir": True}
        # (b) exhaustive block without restarts: all val sequences of length 4 over three levels
        levels = [1.0, 0.75, 0.5]
        L = 5 if big else 4
        thrs = (0.25, 0.5) if big else (0.25,)
        for pat, burn, cool, thr, ne in itertools.product((1, 2), (0, 1), (0, 1), thrs, (None, 3)):
            p = base_params(es_thr=thr, es_pat=pat, es_burn=burn, rlr_thr=thr, rlr_pat=pat, rlr_cool=cool,
                            rlr_burn=burn, num_epochs=ne)
            for seq in itertools.product(levels, repeat=L):
                yield {"stream": "dyadic", "params": p, "opt_lr": 0.5, "groups": [None],
                       "metrics": [[v + 0.25, v] for v in seq], "restart_sets": [], "state_dir": False}
        # (c) every restart subset
        n_sub = 12 if not big else 60
        for i in range(n_sub):
            n = rng.choice((3, 4, 5)) if not big else rng.choice((5, 6, 7, 8))
            c = self.random_case(rng, n, rng.choice(("dyadic", "decimal")))
            subs = list(all_subsets(n))
            c["restart_sets"] = subs
            c["state_dir"] = True
            yield c
        # (d) random configurations, a few random restart subsets each
        n_rand = 900 if not big else 12000
        for i in range(n_rand):
            stream = rng.choice(("dyadic", "dyadic", "decimal", "decimal", "offgrid"))
            n = rng.choice((1, 2, 3, 5, 6, 8, 10, 12)) if not big else rng.choice((1, 2, 4, 6, 8, 10, 14, 20, 30))
            c = self.random_case(rng, n, stream)
            k = rng.choice((0, 1, 2, 3))
            sets = []
            for _ in range(k):
                s = sorted({e for e in range(1, n + 1) if rng.random() < rng.choice((0.2, 0.5, 1.0))})
                if s and s not in sets:
                    sets.append(s)
            c["restart_sets"] = sets
            c["state_dir"] = bool(sets) or rng.random() < 0.3
            yield c

    def random_case(self, rng, n, stream):
        if stream == "dyadic":
            thr = lambda: rng.choice((0.0, 0.25, 0.5, 1.0, 0.125))
            factor = rng.choice((0.5, 0.25, 0.75, 0.125))
            grid, span = 0.25, 12
            lr0 = rng.choice((1.0, 0.5, 0.125, 2.0))
        else:
            thr = lambda: rng.choice((0.0, 0.01, 0.05, 0.1, 0.3, 1.0))
            factor = rng.choice((0.1, 0.5, 0.7, 0.9, 0.3))
            grid, span = 0.01, 60
            lr0 = rng.choice((0.1, 0.01, 1.0, 0.05, 0.3))
        pats = (1, 1, 2, 2, 3, 4)
        small = (0, 0, 1, 2, 3)
        p = base_params(
            es_thr=thr(), es_pat=rng.choice(pats), es_burn=rng.choice(small),
            rlr_thr=thr(), rlr_factor=factor, rlr_pat=rng.choice(pats), rlr_cool=rng.choice(small),
            rlr_burn=rng.choice(small),
            num_epochs=rng.choice((None, None, 1, 2, max(1, n - 1), n, n + 2, 10, 100)),
            log10_eps=rng.choice((-8, -8, -8, -1, -2, 0, -3.5)),
            log10_lr=rng.choice((None, None, None, -1, 0, -2, -0.5)))
        # validation metric: a walk on the grid that mostly plateaus (so countdowns run out) with
        # occasional improvements/regressions, sometimes negative values
        start = rng.randrange(span // 2, span)
        if rng.random() < 0.15:
            start -= span
        vals, cur = [], start
        mode = rng.choice(("plateau", "improve", "noisy", "const"))
        for _ in range(n):
            r = rng.random()
            if mode == "const":
                step = 0
            elif mode == "plateau":
                step = rng.choice((0, 0, 0, 1, -1, -2, -30)) if r < 0.9 else -rng.randrange(1, 40)
            elif mode == "improve":
                step = -rng.randrange(0, 30)
            else:
                step = rng.randrange(-40, 30)
            cur += step
            vals.append(cur)
        if stream == "offgrid":
            # metrics that need more than five significant digits
            mets = [[(v * 0.01) * 1.000001 + 1e-7 * rng.random() + 0.5, v * 0.01 + rng.random() * 1e-6]
                    for v in vals]
        elif stream == "dyadic":
            mets = [[(v + rng.randrange(0, 4)) * grid, v * grid] for v in vals]
        else:
            mets = [[round((v + rng.randrange(0, 30)) * grid, 2), round(v * grid, 2)] for v in vals]
        ng = rng.choice((1, 1, 1, 2))
        groups = [None] + [rng.choice((None, lr0 / 2, 0.25))] * (ng - 1)
        return {"stream": stream, "params": p, "opt_lr": lr0, "groups": groups, "metrics": mets}

    # -------------------------------------------------------------- implementation
    def run_impl(self, case):
        with warnings.catch_warnings():
            warnings.simplefilter("ignore")
            base = run_real(case, [])
            rest = [run_real(case, r) for r in case.get("restart_sets", [])]
        return {"base": base, "restarts": rest}

    # -------------------------------------------------------------- model
    def model_request(self, case):
        p = case["params"]
        groups = [frac_str(case["opt_lr"] if g is None else g) for g in case["groups"]]
        mp = {
            "num_epochs": p["num_epochs"], "es_thr": frac_str(fl(p["es_thr"])), "es_pat": p["es_pat"],
            "es_burn": p["es_burn"], "rlr_thr": frac_str(fl(p["rlr_thr"])),
            "rlr_factor": frac_str(fl(p["rlr_factor"])), "rlr_pat": p["rlr_pat"], "rlr_cool": p["rlr_cool"],
            "rlr_burn": p["rlr_burn"], "rlr_eps": frac_str(fl(10 ** p["log10_eps"])),
            "init_lr": None if p["log10_lr"] is None else frac_str(fl(10 ** p["log10_lr"])),
            "opt_default": frac_str(fl(case["opt_lr"])),
        }
        return {"op": "c15.run", "case": {
            "rnd": "f64", "params": mp, "groups": groups,
            "metrics": [[frac_str(fl(t)), frac_str(fl(v))] for t, v in case["metrics"]],
            "restart_sets": case.get("restart_sets", [])}}

    # -------------------------------------------------------------- correspondence
    @staticmethod
    def _cmp_run(tag, a, b, out):
        if b.get("error"):
            out.append(f"{tag}: model raises {b['error']}, implementation does not")
            return
        for k in ("cont", "cont_training", "lrs"):
            if a[k] != b[k]:
                i = next((i for i, (x, y) in enumerate(zip(a[k], b[k])) if x != y), None)
                out.append(f"{tag}: {k} differs first at epoch {None if i is None else i + 1}: "
                           f"impl={a[k]} model={b[k]}")
        for e, (ra, rb) in enumerate(zip(a["rows"], b["rows"]), 1):
            for k in ra:
                if ra[k] != rb.get(k):
                    out.append(f"{tag}: get_info({e})[{k}] impl={ra[k]} model={rb.get(k)}")
        if len(a["rows"]) != len(b["rows"]):
            out.append(f"{tag}: {len(a['rows'])} rows vs model {len(b['rows'])}")
        ca = a["csv"]
        if a.get("entries") is not None:
            ca = [r[:8] for r in ca]
        if ca != b["csv"]:
            i = next((i for i, (x, y) in enumerate(zip(ca, b["csv"])) if x != y), None)
            out.append(f"{tag}: CSV text differs at line {i}: impl={ca[i] if i is not None and i < len(ca) else ca} "
                       f"model={b['csv'][i] if i is not None else b['csv']}")

    def compare(self, case, impl, model):
        if "error" in impl:
            return [f"implementation raised {impl['error']}: {impl.get('message')}"]
        out = []
        self._cmp_run("uninterrupted", impl["base"], model["base"], out)
        for rs, a, b in zip(case.get("restart_sets", []), impl["restarts"], model["restarts"]):
            self._cmp_run(f"restart after {rs}", a, b, out)
        return out[:6]

    # -------------------------------------------------------------- the property on the implementation
    def predicate(self, case, impl, model):
        if "error" in impl:
            return [(f"controller raised {impl['error']}: {impl.get('message')}", None)]
        fails = []
        st = self.stats
        if model is not None:
            fl = model.get("flags", {})
            st["rounding_sensitive_cases"] += bool(fl.get("rounding_sensitive"))
            st["metrics_on_printed_grid_cases"] += bool(fl.get("metrics_on_grid"))
            st["restarted_runs"] += len(case.get("restart_sets", []))
            st["epochs_checked_against_rules"] += sum(1 for x in model["spec"]["live"] if x)
            st["es_stop_epochs"] += sum(1 for x, l in zip(model["spec"]["es_stop"], model["spec"]["live"]) if x and l)
            st["rate_fired_epochs"] += sum(model["spec"]["fire"])
            st["rate_fired_negligible_epochs"] += sum(1 for f, r in zip(model["spec"]["fire"], model["spec"]["reduce"])
                                                      if f and not r)
        p = case["params"]
        base = impl["base"]
        n = len(case["metrics"])
        if model is not None:
            spec = model["spec"]
            # --- stop decisions (rules apply until early stopping has told the loop to stop)
            for i in range(n):
                if spec["live"][i] and base["cont"][i] != (not spec["stop"][i]):
                    fails.append((f"epoch {i + 1}: update_for_epoch returned {base['cont'][i]} but the rules say "
                                  f"stop={spec['stop'][i]} (es_stop={spec['es_stop'][i]}, "
                                  f"budget={spec['budget_stop'][i]})", None))
                    break
            # --- learning rate: multiplied exactly when the criterion fires and the change matters
            init_lr = None if p["log10_lr"] is None else 10 ** p["log10_lr"]
            groups = [frac_str(init_lr if init_lr is not None else (case["opt_lr"] if g is None else g))
                      for g in case["groups"]]
            for i in range(n):
                if spec["reduce"][i]:
                    groups = [spec["lr"][i]] * len(groups)
                if base["lrs"][i] != groups:
                    fails.append((f"epoch {i + 1}: optimizer rates {base['lrs'][i]} but the rules give {groups} "
                                  f"(fire={spec['fire'][i]}, reduce={spec['reduce'][i]})", None))
                    break
                if base["rows"][i]["lr"] != spec["lr"][i]:
                    fails.append((f"epoch {i + 1}: recorded lr {base['rows'][i]['lr']} but the rules give "
                                  f"{spec['lr'][i]}", None))
                    break
        # --- continue_training agrees with the returned decision; history is complete
        for tag, run in [("uninterrupted", base)] + [(f"restart after {rs}", r) for rs, r in
                                                     zip(case.get("restart_sets", []), impl["restarts"])]:
            if run["cont"] != run["cont_training"]:
                fails.append((f"{tag}: continue_training() {run['cont_training']} != returned {run['cont']}", None))
            if run["last_epoch"] != n or len(run["csv"]) != n + 1:
                fails.append((f"{tag}: history has {len(run['csv']) - 1} rows / last epoch {run['last_epoch']} "
                              f"after {n} epochs", None))
            for e, row in enumerate(run["rows"], 1):
                if row["epoch"] != e:
                    fails.append((f"{tag}: get_info({e})['epoch'] = {row['epoch']}", None))
                for k, col in (("train_met", 0), ("val_met", 1)):
                    want = float(case["metrics"][e - 1][col])
                    if tag == "uninterrupted" and row[k] != frac_str(want):
                        fails.append((f"{tag}: get_info({e})[{k}] = {row[k]}, given {want}", None))
        # --- restart clause (metrics representable at the printed precision)
        on_grid = all(float("%.4e" % float(x)) == float(x) for m in case["metrics"] for x in m)
        if on_grid:
            for rs, run in zip(case.get("restart_sets", []), impl["restarts"]):
                f = self._restart_diff(case, rs, base, run, model)
                if f is not None:
                    fails.append(f)
        return fails

    def _restart_diff(self, case, rs, base, run, model):
        """None if the restarted run reproduces the uninterrupted one; else (what, signature)."""
        hard, soft = [], []
        for k in ("cont", "cont_training"):
            if base[k] != run[k]:
                hard.append(f"{k}: {run[k]} vs uninterrupted {base[k]}")
        for e, (a, b) in enumerate(zip(base["rows"], run["rows"]), 1):
            for k in a:
                if k == "lr":
                    if not close(a[k], b[k]):
                        soft.append(f"get_info({e})[lr] {fmt_frac(b[k])} vs {fmt_frac(a[k])}")
                elif a[k] != b[k]:
                    hard.append(f"get_info({e})[{k}] {b[k]} vs {a[k]}")
        for e, (a, b) in enumerate(zip(base["lrs"], run["lrs"]), 1):
            if len(a) != len(b) or any(not close(x, y) for x, y in zip(a, b)):
                soft.append(f"optimizer lr after epoch {e}: {[fmt_frac(x) for x in b]} vs "
                            f"{[fmt_frac(x) for x in a]}")
        if len(base["csv"]) != len(run["csv"]):
            hard.append("different number of CSV rows")
        for i, (a, b) in enumerate(zip(base["csv"], run["csv"])):
            if a != b:
                if a[:5] + a[6:] == b[:5] + b[6:]:
                    soft.append(f"CSV row {i} lr column {b[5]} vs {a[5]}")
                else:
                    hard.append(f"CSV row {i}: {b} vs {a}")
        if not hard and not soft:
            return None
        self.stats["restarted_runs_differing"] += 1
        what = (f"restart after epochs {rs} does not reproduce the uninterrupted run: " +
                "; ".join((hard + soft)[:4]))
        if hard:
            return (what, None)
        # only learning-rate values differ: is it exactly "the rate was re-read at 5 significant digits"?
        sig = SIG if self._is_double_rounding(case, rs, run, model) else None
        return (what, sig)

    def _is_double_rounding(self, case, rs, run, model):
        """The restarted run's rates equal the uninterrupted recurrence with the rate re-rounded to the
        printed precision (float('%.4e' % lr)) at each restart, and nothing else."""
        if model is None:
            return False
        p = case["params"]
        spec = model["spec"]
        factor, eps = float(p["rlr_factor"]), 10 ** p["log10_eps"]
        init_lr = None if p["log10_lr"] is None else 10 ** p["log10_lr"]
        lr = init_lr if init_lr is not None else float(case["opt_lr"])
        groups = [init_lr if init_lr is not None else float(case["opt_lr"] if g is None else g)
                  for g in case["groups"]]
        hist_lr = []
        for e in range(1, len(case["metrics"]) + 1):
            if spec["fire"][e - 1]:
                new = lr * factor
                if lr - new > eps:
                    lr = new
                    groups = [new] * len(groups)
            text = "%.4e" % lr
            if run["csv"][e][5] != text:
                return False
            if e in rs:
                lr = float(text)
            if run["lrs"][e - 1] != [frac_str(g) for g in groups]:
                return False
            hist_lr.append(lr)
        # get_info: rows written before the last restart were re-read from the file, later ones not
        last = max([e for e in rs if e <= len(hist_lr)], default=0)
        for e, row in enumerate(run["rows"], 1):
            want = float(run["csv"][e][5]) if e <= last else hist_lr[e - 1]
            if row["lr"] != frac_str(want):
                return False
        return True

    # -------------------------------------------------------------- evidence helpers
    def nontrivial(self, case, impl):
        if "error" in impl:
            return False
        rows = impl["base"]["rows"]
        p = case["params"]
        reach0 = any(r["es_patience_cd"] == 0 for r in rows)
        reset = False
        prev_lr = None
        for a, b in zip([None] + rows[:-1], rows):
            if a is None:
                prev_lr = b["lr"]
                continue
            if b["lr"] != a["lr"] or (b["rlr_resume_cd"] > a["rlr_resume_cd"]):
                reach0 = True
            if (b["es_patience_cd"] == p["es_pat"] and a["es_patience_cd"] < p["es_pat"]) or \
               (b["rlr_patience_cd"] == p["rlr_pat"] and a["rlr_patience_cd"] < p["rlr_pat"]) or \
               b["lr"] != a["lr"]:
                reset = True
        return reach0 and reset

    def tags(self, case, impl):
        p = case["params"]
        t = [f"stream={case.get('stream')}", f"es_pat={p['es_pat']}", f"rlr_pat={p['rlr_pat']}",
             f"es_burn={'>0' if p['es_burn'] else '0'}", f"rlr_burn={'>0' if p['rlr_burn'] else '0'}",
             f"rlr_cool={'>0' if p['rlr_cool'] else '0'}",
             f"num_epochs={'none' if p['num_epochs'] is None else 'set'}",
             f"es_thr={'0' if not p['es_thr'] else '>0'}", f"rlr_thr={'0' if not p['rlr_thr'] else '>0'}",
             f"len={min(len(case['metrics']), 9)}{'+' if len(case['metrics']) > 9 else ''}",
             f"restart_sets={min(len(case.get('restart_sets', [])), 4)}{'+' if len(case.get('restart_sets', [])) > 4 else ''}",
             f"groups={len(case['groups'])}", f"log10_lr={'set' if p['log10_lr'] is not None else 'none'}"]
        if "error" not in impl:
            rows = impl["base"]["rows"]
            if any(r["es_patience_cd"] == 0 for r in rows) and p["es_thr"]:
                t.append("early_stop")
            if len({r["lr"] for r in rows}) > 1:
                t.append("lr_reduced")
            if any(b["rlr_resume_cd"] > a["rlr_resume_cd"] and a["lr"] == b["lr"] for a, b in zip(rows, rows[1:])):
                t.append("fired_but_negligible_or_cooldown_only")
            if any(not c for c in impl["base"]["cont"][:-1]):
                t.append("continued_after_stop")
        return t

    def shrink(self, case):
        n = len(case["metrics"])
        rsets = case.get("restart_sets", [])
        if len(rsets) > 1:
            for r in rsets:
                c = dict(case); c["restart_sets"] = [r]; yield c
        if n > 1:
            c = dict(case); c["metrics"] = case["metrics"][:-1]
            c["restart_sets"] = [[e for e in r if e < n] for r in rsets]
            c["restart_sets"] = [r for r in c["restart_sets"] if r]
            yield c
            c = dict(case); c["metrics"] = case["metrics"][1:]
            c["restart_sets"] = [[e - 1 for e in r if e > 1] for r in rsets]
            c["restart_sets"] = [r for r in c["restart_sets"] if r]
            yield c
        for r_i, r in enumerate(rsets):
            for e in r:
                if len(r) > 1:
                    c = dict(case)
                    c["restart_sets"] = [x if j != r_i else [y for y in r if y != e] for j, x in enumerate(rsets)]
                    yield c
        p = case["params"]
        for k, lo in (("es_pat", 1), ("rlr_pat", 1), ("es_burn", 0), ("rlr_burn", 0), ("rlr_cool", 0)):
            if p[k] > lo:
                c = dict(case); c["params"] = dict(p, **{k: p[k] - 1}); yield c
        for k, v in (("num_epochs", None), ("log10_lr", None), ("log10_eps", -8), ("es_thr", 0.0), ("rlr_thr", 0.0)):
            if p[k] != v:
                c = dict(case); c["params"] = dict(p, **{k: v}); yield c
        if len(case["groups"]) > 1:
            c = dict(case); c["groups"] = case["groups"][:1]; yield c
        # flatten the training metric (never used in decisions)
        if any(m[0] != 1.0 for m in case["metrics"]):
            c = dict(case); c["metrics"] = [[1.0, m[1]] for m in case["metrics"]]; yield c

    # -------------------------------------------------------------- user entries, malformed calls
    def extra_checks(self, rng, tier, report):
        import c15_entries
        c15_entries.run(rng, tier, report)
        report["extra"]["c15_stats"] = dict(self.stats)


def close(a, b, rel=1e-9):
    if a is None or b is None:
        return a == b
    x, y = Fraction(a), Fraction(b)
    return abs(x - y) <= rel * max(abs(x), abs(y))


def fmt_frac(s):
    return None if s is None else repr(float(Fraction(s)))


CHECK = C15()
