"""C16: running the real TrainingStateController under crash injection.

A *scenario* is: parameters (keep_last_and_best_only, two file-name formats, best_is_train, optional
extra TrainingStateParams, a user entry, explicit `epoch=` argument), a metric history (one
(train, val) pair per epoch; an entry is None = inf, an int = thousandths — the 3-decimal grid of the
first rounds —, or a float = the metric itself, any magnitude, on or off the grid of the 5 significant
digits the history file records: `mval`, `recorded_value`), and a crash schedule [(epoch, k, torn[, soft]), ...]:
session i starts a NEW controller on the files left behind, loads the last recorded epoch, trains
on, and is killed at file-system mutation number k of the update for `epoch` (c16_fs events, whichever
API makes them; session i never reaches that point -> it simply completes); `torn`: event k is
executed half-way when it is a write of bytes (a state dict, a history data row); `soft`: the death
is an interrupt that unwinds through the library's handlers (c16_fs). After the schedule one more
session runs to the end. What an update did is reported as the STATE CHANGES it made (`abstract_trace`),
what it left as the state of the directory (`snapshot`).

"Training" is deterministic. So that every state is recognisable, the model holds one float64 `w` and the
optimizer one integer `tag` in its first parameter group; epoch e turns (w, t) into (3w + e, 5t + e) —
these two numbers, plus the learning rate of the parameter groups, are the state's *identity* (what the
Lean model carries: `St = w × Opt{t, lr}`). So that the REST of a checkpoint matters too, the model also
holds parameters `v` (group 0) and `u` (group 1, hyper-parameters of its own) that are trained by genuine
`optimizer.step()` calls (SGD with momentum or Adam: the step depends on the learning rate and on the
per-parameter state) and a buffer `seen`. The *full* state = `model.state_dict()` + `optimizer.state_dict()`
(every hyper-parameter of every group, every state tensor), canonicalised bit for bit (`canon`), is
compared with the uninterrupted run's at the same epoch: after every load, for every file on disk, after
every completed update and at the end of the continued run.
"""
import hashlib
import json
import os
import shutil
import tempfile

from c16_fs import Crash, Tracer, instrumented


def train_step(e, w, t):
    return 3 * w + e, 5 * t + e


def uninterrupted_states(n):
    out = [(0, 0)]
    for e in range(1, n + 1):
        out.append(train_step(e, *out[-1]))
    return out


def mval(v):
    """A metric entry of a case -> the float handed to update_for_epoch: None = inf; an int = thousandths
    (3-decimal grid in [0.1, 1): the value survives the history file unchanged); a float = itself."""
    if v is None:
        return float("inf")
    if isinstance(v, int):
        return v / 1000.0
    return float(v)


HIST_METRIC_FMT = "{:.4e}"      # the documented format of the metric columns: 5 significant digits


def recorded_value(x):
    """What the history file holds for a metric x (and what any controller started later knows of it)."""
    return float(HIST_METRIC_FMT.format(x))


_MODEL_CLS = []
JUNK_LR = 7.0


def lr0_of(case):
    """The learning rate of an experiment: TrainingStateParams.log10_learning_rate when given, else the
    optimizer's own default (the controller reads `optimizer.defaults["lr"]` at the first update)."""
    l10 = case.get("extra_params", {}).get("log10_learning_rate")
    if l10 is not None:
        return 10 ** l10
    return case.get("lr0", 0.5)


def fresh_model_opt(case=None):
    """A model and an optimizer as a freshly started process has them BEFORE anything is loaded: junk
    parameters, no optimizer state. Two parameter groups with hyper-parameters of their own. When the
    experiment's learning rate comes from the parameters, the optimizer is built with a junk rate: the
    right one has to come out of the load (epoch 0: 10**log10_learning_rate; epoch >= 1: the checkpoint)."""
    import torch
    case = case or {}
    if not _MODEL_CLS:
        class M(torch.nn.Module):
            def __init__(self):
                super().__init__()
                self.w = torch.nn.Parameter(torch.zeros(1, dtype=torch.float64))
                self.v = torch.nn.Parameter(torch.zeros(2, dtype=torch.float64))
                self.u = torch.nn.Parameter(torch.zeros(1, dtype=torch.float64))
                self.register_buffer("seen", torch.zeros(1, dtype=torch.int64))

            def reset_parameters(self):
                with torch.no_grad():
                    self.w.fill_(0.0)
                    self.v.fill_(0.0)
                    self.u.fill_(0.0)
                    self.seen.fill_(0)
        _MODEL_CLS.append(M)
    m = _MODEL_CLS[0]()
    with torch.no_grad():
        m.w.fill_(-1.0)  # junk until something is loaded
        m.v.fill_(-1.0)
        m.u.fill_(-1.0)
        m.seen.fill_(-1)
    from_params = case.get("extra_params", {}).get("log10_learning_rate") is not None
    lr = JUNK_LR if from_params else lr0_of(case)
    if case.get("optim", "sgd") == "adam":
        o = torch.optim.Adam([{"params": [m.w, m.v]}, {"params": [m.u], "betas": (0.5, 0.75)}], lr=lr)
    else:
        o = torch.optim.SGD([{"params": [m.w, m.v], "momentum": 0.5},
                             {"params": [m.u], "momentum": 0.25, "weight_decay": 0.125}], lr=lr)
    o.param_groups[0]["tag"] = 0  # initial optimizer state; overwritten by any load of epoch >= 1
    return m, o


def lr_of_groups(groups):
    lrs = [g.get("lr") for g in groups]
    return lrs[0] if all(x == lrs[0] for x in lrs) else lrs


def get_state(m, o):
    """The identity of what the process holds: (w, tag, learning rate of the parameter groups)."""
    w = float(m.w.item())
    return int(w) if w.is_integer() else w, o.param_groups[0].get("tag"), lr_of_groups(o.param_groups)


def set_state(m, o, w, t):
    import torch
    with torch.no_grad():
        m.w.fill_(float(w))
    o.param_groups[0]["tag"] = t


def train_epoch(e, m, o):
    """One epoch of training: the recognisable part (w, tag) and genuine optimizer steps on v and u
    (gradients are dyadic functions of the epoch; w gets no gradient, the optimizers skip it)."""
    import torch
    w, t, _ = get_state(m, o)
    w, t = train_step(e, w, t)
    set_state(m, o, w, t)
    with torch.no_grad():
        m.seen.mul_(2).add_(e)
    for step in range(1):
        o.zero_grad(set_to_none=True)
        m.v.grad = torch.tensor([e / 4.0 + step, -e / 8.0], dtype=torch.float64)
        m.u.grad = torch.tensor([e / 2.0 - step], dtype=torch.float64)
        o.step()
    o.zero_grad(set_to_none=True)


def canon(x):
    """Bit-exact JSON-able picture of a state dict (tensors: dtype, shape, values; floats as hex)."""
    import torch
    if isinstance(x, torch.Tensor):
        flat = x.detach().reshape(-1).tolist()
        return {"dtype": str(x.dtype).replace("torch.", ""), "shape": list(x.shape),
                "v": [float(v).hex() if isinstance(v, float) else v for v in flat]}
    if isinstance(x, bool) or x is None or isinstance(x, (int, str)):
        return x
    if isinstance(x, float):
        return x.hex()
    if isinstance(x, dict):
        return {str(k): canon(v) for k, v in x.items()}
    if isinstance(x, (list, tuple)):
        return [canon(v) for v in x]
    return repr(x)


def full_state(m, o):
    return {"model": canon(m.state_dict()), "optim": canon(o.state_dict())}


def digest(c):
    return hashlib.sha1(json.dumps(c, sort_keys=True).encode()).hexdigest()[:12]


def _unhex(v):
    if isinstance(v, str):
        try:
            return float.fromhex(v)
        except ValueError:
            return v
    if isinstance(v, dict) and set(v) == {"dtype", "shape", "v"}:
        return [_unhex(x) for x in v["v"]]
    return v


def diff_canon(a, b, path="", out=None, limit=4):
    """Where two canonical pictures differ: ["optim.param_groups.0.lr: 0.1 != 0.05", ...]."""
    if out is None:
        out = []
    if len(out) >= limit or a == b:
        return out
    if isinstance(a, dict) and isinstance(b, dict) and set(a) != {"dtype", "shape", "v"}:
        for k in sorted(set(a) | set(b)):
            if k not in a or k not in b:
                if len(out) < limit:
                    out.append(f"{path}{k}: {'absent' if k not in a else 'present'} != "
                               f"{'absent' if k not in b else 'present'}")
            else:
                diff_canon(a[k], b[k], f"{path}{k}.", out, limit)
    elif isinstance(a, list) and isinstance(b, list) and len(a) == len(b):
        for i, (x, y) in enumerate(zip(a, b)):
            diff_canon(x, y, f"{path}{i}.", out, limit)
    elif len(out) < limit:
        out.append(f"{path.rstrip('.')}: {_unhex(a)} != {_unhex(b)}")
    return out


def diff_vs_ref(full, ref, e):
    """Difference between a full state and the uninterrupted run's state after epoch e (None: the
    uninterrupted run has no such epoch, e.g. it refused earlier)."""
    if ref is None or e is None or e >= len(ref["mem"]) or e < 0:
        return None
    return diff_canon(full, ref["mem"][e])


def names(case, n):
    """File names of epochs 0..n+1 under the two formats (computed here, not by the library): the
    formats may use {epoch}, {train_met}, {val_met}. Epoch 0 is the controller's dummy entry (both
    metrics inf); epoch n+1 is never written (a name of its own)."""
    mf, of = case["model_fmt"], case["optim_fmt"]
    inf = float("inf")
    infos = [{"epoch": 0, "train_met": inf, "val_met": inf}]
    for e in range(1, n + 1):
        tm, vm = case["vals"][e - 1]
        infos.append({"epoch": e, "train_met": mval(tm), "val_met": mval(vm)})
    infos.append({"epoch": n + 1, "train_met": -1.0 - n, "val_met": -1.0 - n})
    return [mf.format(**i) for i in infos], [of.format(**i) for i in infos]


def line_kinds(text):
    """History text -> one entry per line: "header" | epoch (int) | "torn" (unterminated last line) |
    "junk" (anything else). A data row has as many fields as the first line."""
    out = []
    nf = None
    for line in text.splitlines(keepends=True):
        body = line.rstrip("\r\n")
        fields = body.split(",")
        if nf is None:
            nf = len(fields)
        if body == line:
            out.append("torn")
        elif fields[0] == "epoch":
            out.append("header")
        else:
            try:
                out.append(int(fields[0]) if len(fields) == nf else "junk")
            except ValueError:
                out.append("junk")
    return out


def keys_of(nm):
    """epoch -> smallest epoch with the same file name (the model's notion of a file key)."""
    first = {}
    out = []
    for e, s in enumerate(nm):
        first.setdefault(s, e)
        out.append(first[s])
    return out


_PARAMS = {}


def make_params(case):
    """TrainingStateParams of a scenario (the controller only reads them: one object per distinct setting)."""
    from pydrobert.torch import training
    key = json.dumps([bool(case["keep_lb"]), case["model_fmt"], case["optim_fmt"], case.get("extra_params", {})],
                     sort_keys=True)
    if key not in _PARAMS:
        _PARAMS[key] = training.TrainingStateParams(
            keep_last_and_best_only=bool(case["keep_lb"]),
            saved_model_fmt=case["model_fmt"], saved_optimizer_fmt=case["optim_fmt"],
            **case.get("extra_params", {}))
    return _PARAMS[key]


_CONTENT_CACHE = {}


def classify_bytes(data):
    """What a file with these bytes holds: ["empty"] | ["torn"] | ["model", w, digest] | ["optim", tag, lr, digest]
    (digest of the canonical picture of the whole state dict). Cached by the bytes."""
    import io
    import torch
    if not data:
        return ["empty"]
    if data not in _CONTENT_CACHE:
        if len(_CONTENT_CACHE) > 5000:
            _CONTENT_CACHE.clear()
        try:
            d = torch.load(io.BytesIO(data), map_location="cpu")
        except BaseException:
            d = None
        if d is None:
            c = ["torn"]
        elif isinstance(d, dict) and "w" in d:
            v = float(d["w"].item())
            c = ["model", int(v) if v.is_integer() else v, digest(canon(d))]
        elif isinstance(d, dict) and "param_groups" in d:
            c = ["optim", d["param_groups"][0].get("tag"), lr_of_groups(d["param_groups"]), digest(canon(d))]
        else:
            c = ["other"]
        _CONTENT_CACHE[data] = c
    return list(_CONTENT_CACHE[data])


def classify_content(path):
    try:
        with open(path, "rb") as f:
            data = f.read()
    except OSError:
        return ["missing"]
    return classify_bytes(data)


def snapshot(case, n, state_dir, csv_path):
    """Canonical picture of the disk: checkpoint files (a name one of the two formats gives to an epoch
    0..n+1) by key, every OTHER file below the state directory — whatever its name and whoever created it — as a
    temp file (sorted list of contents; `tmp_names`: their names), history file as absent / list of line kinds."""
    mn, on = names(case, n)
    mk, ok = keys_of(mn), keys_of(on)
    files, tmps, other = [], [], []
    if os.path.isdir(state_dir):
        # every file below the state directory (a format may have a directory part: "m/{epoch}.pt"), named by
        # its path relative to it; directories themselves are not state
        rel = []
        for root, _, fs in os.walk(state_dir):
            rel.extend(os.path.relpath(os.path.join(root, f), state_dir) for f in fs)
        for f in sorted(rel):
            p = os.path.join(state_dir, f)
            c = classify_content(p)
            if f in mn:
                files.append(["model", mk[mn.index(f)], c])
            elif f in on:
                files.append(["optim", ok[on.index(f)], c])
            else:
                tmps.append((c, f))
    csv = None
    if os.path.exists(csv_path):
        with open(csv_path, newline="") as f:
            text = f.read()
        csv = line_kinds(text)
    tmps.sort(key=lambda x: repr(x[0]))
    return {"files": sorted(files), "tmps": [c for c, _ in tmps], "tmp_names": [f for _, f in tmps],
            "other": other, "csv": csv}


NOOP_EVENTS = ("mkdir", "open", "meta")


def is_header_line(data):
    if isinstance(data, (bytes, bytearray)):
        return bytes(data).startswith(b"epoch,")
    return isinstance(data, str) and data.startswith("epoch,")


def _line_kind(line):
    body = line.rstrip("\r\n")
    first = body.split(",")[0]
    if first == "epoch":
        return "header"
    try:
        return int(first)
    except ValueError:
        return "junk"


def abstract_trace(case, n, state_dir, csv_path, events, crashed=False, after=()):
    """File-system events of ONE update (c16_fs) -> the state changes they make, in the model's vocabulary:

      ["mktemp", i]                       a file that is not a checkpoint name appears in the state directory
      ["write", "tmp", i]                 it receives its content (all writes to it together are ONE change)
      ["replace", "tmp", i, kind, key]    it is renamed onto the checkpoint path `kind` (model|optim) of key
      ["open_a"]                          the history file is created
      ["hwrite", "header" | epoch]        a complete line is appended to the history file (one entry per
                                          line, however many write() calls / lines per call it took)
      ["remove", kind, key]               a checkpoint file is removed
      ["?", ...]                          anything else (the model has no word for it)

    Events that change nothing (mkdir of the state directory, open of an existing file without truncation,
    chmod, zero-length writes) are counted (`noops`) and dropped. Temp file ids say what the file is FOR, not
    which API or name it got: 0 = it receives / is renamed as the model's state dict, 1 = the optimizer's
    (undetermined ones: in order of creation). `crashed`: the process died in this update -> `torn` = the
    change it died in the middle of (a temp file whose content is not a complete state dict, a history line
    without its end), else None.
    `after`: the events made while the interrupt that killed the process unwound (soft deaths) -> "after": the
    same vocabulary + ["remove", "tmp", i] (a temp file of THIS update removed again).
    -> {"ops": [...], "torn": op | None, "after": [...], "noops": int, "events": [kind, ...]}"""
    mn, on = names(case, n)
    mk, ok = keys_of(mn), keys_of(on)
    sd, cp = os.path.abspath(state_dir), os.path.abspath(csv_path)

    def where(p):
        if p == cp:
            return ["csv"]
        if p.startswith(sd + os.sep):
            b = os.path.relpath(p, sd)
            if b in mn:
                return ["model", mk[mn.index(b)]]
            if b in on:
                return ["optim", ok[on.index(b)]]
            return ["tmp", p]
        return ["?", os.path.relpath(p, os.path.dirname(sd))]

    order, chunks, role, replaced = [], {}, {}, set()
    out, pend, noops, kinds = [], "", 0, []

    def ref(p):
        w = where(p)
        if w[0] == "tmp":
            return ["tmp", ("T", p)] if p in order else ["?", os.path.basename(p)]
        return w

    n_main = len(events)
    mark = None
    for j, ev in enumerate(list(events) + list(after)):
        kind = ev[0]
        if j == n_main:
            mark = len(out)
        if j < n_main:
            kinds.append("write_header" if kind == "write" and is_header_line(ev[2]) else kind)
        if kind in NOOP_EVENTS:
            noops += 1
        elif kind == "create":
            w = where(ev[1])
            if w == ["csv"]:
                out.append(["open_a"])
            elif w[0] == "tmp":
                order.append(ev[1])
                out.append(["mktemp", ("T", ev[1])])
            else:
                out.append(["?", "create"] + w)
        elif kind == "write":
            w, data = where(ev[1]), ev[2]
            if w == ["csv"]:
                if data is None:
                    out.append(["?", "write", "csv"])
                    continue
                pend += data if isinstance(data, str) else bytes(data).decode("utf-8", "replace")
                while "\n" in pend:
                    line, pend = pend.split("\n", 1)
                    out.append(["hwrite", _line_kind(line)])
            elif w[0] == "tmp" and ev[1] in order:
                if ev[1] not in chunks:
                    out.append(["write", "tmp", ("T", ev[1])])
                chunks.setdefault(ev[1], []).append(data)
            else:
                out.append(["?", "write"] + (w if w[0] != "tmp" else ["tmp", os.path.basename(ev[1])]))
        elif kind == "replace":
            src, dst = ref(ev[1]), where(ev[2])
            if src[0] == "tmp" and dst[0] in ("model", "optim"):
                replaced.add(ev[1])
                role.setdefault(ev[1], 0 if dst[0] == "model" else 1)
                out.append(["replace"] + src + dst)
            else:
                out.append(["?", "replace"] + src + (dst if dst[0] != "tmp" else ["tmp", os.path.basename(ev[2])]))
        elif kind == "remove":
            w = where(ev[1])
            if w[0] in ("model", "optim"):
                out.append(["remove"] + w)
            elif w[0] == "tmp" and ev[1] in order:
                out.append(["remove", "tmp", ("T", ev[1])])
            else:
                out.append(["?", "remove"] + ref(ev[1]))
        else:
            out.append(["?"] + [str(x) if not isinstance(x, str) else os.path.basename(x) for x in ev[:3]])
    # what every temp file holds (all the bytes written to it), hence what it is for and whether it is complete
    incomplete = set()
    for p, cs in chunks.items():
        c = classify_content(p) if any(x is None for x in cs) else classify_bytes(b"".join(bytes(x) if not isinstance(x, str) else x.encode() for x in cs))
        if c[0] == "model":
            role.setdefault(p, 0)
        elif c[0] == "optim":
            role.setdefault(p, 1)
        elif p not in replaced or c[0] != "missing":
            incomplete.add(p)
    free = [i for i in range(len(order) + 2) if i not in role.values()]
    seen = set()
    for p in order:
        if p not in role or role[p] in seen:
            role[p] = free.pop(0)
        seen.add(role[p])

    def fin(op):
        op = [role[x[1]] if isinstance(x, tuple) else x for x in op]
        return op
    torn = None
    ops = []
    if mark is None:
        mark = len(out)
    aft = [fin(op) for op in out[mark:]]
    out = out[:mark]
    for i, op in enumerate(out):
        p = next((x[1] for x in op if isinstance(x, tuple)), None)
        o = fin(op)
        if op[0] == "write" and p in incomplete:
            if crashed and i == len(out) - 1 and not pend:
                torn = o + ["torn"]
                continue
            o = o + ["torn"]
        ops.append(o)
    if pend:
        if crashed and torn is None:
            torn = ["hwrite", "torn"]
        else:
            ops.append(["hwrite", "torn"])
    return {"ops": ops, "torn": torn, "after": aft, "noops": noops, "events": kinds}


def effective_events(evs):
    """Events that change something, for a message: [kind, base names...]."""
    out = []
    for ev in evs:
        if ev[0] in NOOP_EVENTS:
            continue
        out.append([ev[0]] + [os.path.basename(x) for x in ev[1:3] if isinstance(x, str) and os.sep in x])
    return out


_BASE = [None]


def _base_dir():
    """One directory per harness process (removed at exit); workspaces live inside. On /dev/shm when
    there is one (the crashes are simulated, nothing needs a real disk, and file-system calls are
    several times faster there), else under /tmp."""
    import atexit
    if _BASE[0] is None or not os.path.isdir(_BASE[0]):
        root = "/dev/shm" if os.path.isdir("/dev/shm") and os.access("/dev/shm", os.W_OK) else "/tmp"
        _BASE[0] = tempfile.mkdtemp(prefix="c16_", dir=root)
        atexit.register(shutil.rmtree, _BASE[0], True)
    return _BASE[0]


class Workspace:
    """A fresh place for one scenario: <base>/w<n>/hist.csv and <base>/w<n>/states (not created: the
    library's makedirs does that). Everything is deleted on close."""
    _n = 0

    def __init__(self):
        Workspace._n += 1
        self.base = os.path.join(_base_dir(), f"w{Workspace._n % 4}")
        if os.path.isdir(self.base):
            self._wipe()
        else:
            os.mkdir(self.base)
        self.state_dir = os.path.join(self.base, "states")
        self.csv = os.path.join(self.base, "hist.csv")

    def _wipe(self):
        for root, dirs, files in os.walk(self.base, topdown=False):
            for f in files:
                os.unlink(os.path.join(root, f))
            for d in dirs:
                os.rmdir(os.path.join(root, d))

    def close(self):
        self._wipe()

    def __enter__(self):
        return self

    def __exit__(self, *a):
        self.close()


USER_ENTRY = "note"


def user_value(e):
    return 7 * e + 1


def session(case, ws, crash=None, record=None, ref=None):
    """One process lifetime. crash = (epoch, k, torn[, soft]) or None. Returns dict describing what happened.
    `record`, when given, receives one entry per completed update: its abstract trace, a disk snapshot,
    the identity of the state held in memory afterwards, the learning rate the history row of the epoch
    records, and — `ref` (the uninterrupted run, see C16.reference) given — where the full in-memory state
    differs from the uninterrupted run's after the same epoch (without `ref`: the full state itself)."""
    import warnings
    vals = case["vals"]
    n = len(vals)
    tr = Tracer(root=ws.base)
    tr.atomic = is_header_line      # a torn header line is not modelled (see the design note)
    tr.line_paths = {os.path.abspath(ws.csv)}   # a history line reaches the file whole (or torn on purpose)
    out = {"crashed": False}

    def trace_of(crashed):
        return abstract_trace(case, n, ws.state_dir, ws.csv, tr.ops, crashed, tr.after if crashed else ())
    with warnings.catch_warnings():
        warnings.simplefilter("ignore")
        with instrumented(tr) as training:
            try:
                ctrl = training.TrainingStateController(make_params(case), ws.csv, ws.state_dir, warn=False)
            except Exception as e:
                out["init_error"] = type(e).__name__
                return out
            m, o = fresh_model_opt(case)
            try:
                if case.get("user_entry"):
                    ctrl.add_entry(USER_ENTRY, int)     # re-reads the history with the extra column
            except Exception as e:
                out["init_error"] = type(e).__name__
                return out
            try:
                ctrl.load_model_and_optimizer_for_epoch(m, o)
            except Exception as e:
                out["load_error"] = type(e).__name__
                return out
            e = ctrl.get_last_epoch()
            out["start_epoch"] = e
            out["start_state"] = list(get_state(m, o))
            if ref is None:
                out["start_full"] = full_state(m, o)
                out["start_row_lr"] = ctrl.get_info(e)["lr"]
            else:
                out["start_diff"] = diff_vs_ref(full_state(m, o), ref, e)
            while e < n:
                e += 1
                train_epoch(e, m, o)
                tm, vm = vals[e - 1]
                if crash is not None and crash[0] == e:
                    tr.arm(crash[1], bool(crash[2]), bool(crash[3]) if len(crash) > 3 else False)
                else:
                    tr.arm(None)
                kw = {}
                if case.get("user_entry"):
                    kw[USER_ENTRY] = user_value(e)
                if case.get("explicit_epoch"):
                    kw["epoch"] = e
                try:
                    ctrl.update_for_epoch(m, o, mval(tm), mval(vm),
                                          best_is_train=bool(case.get("best_is_train", False)), **kw)
                except Crash:
                    out["crashed"] = True
                    out["crash_epoch"] = e
                    out["trace"] = trace_of(True)
                    break
                except Exception as ex:
                    if tr.dead:
                        out["crashed"] = True
                        out["crash_epoch"] = e
                        out["trace"] = trace_of(True)
                        out["masked_by"] = type(ex).__name__
                        break
                    out["update_error"] = [e, type(ex).__name__]
                    out["trace"] = trace_of(False)
                    break
                finally:
                    tr.disarm()
                if record is not None:
                    r = {"epoch": e, "trace": trace_of(False),
                         "disk": snapshot(case, n, ws.state_dir, ws.csv),
                         "mem": list(get_state(m, o)), "row_lr": ctrl.get_info(e)["lr"]}
                    if ref is None:
                        r["mem_full"] = full_state(m, o)
                    else:
                        r["mem_diff"] = diff_vs_ref(full_state(m, o), ref, e)
                    record.append(r)
            out["end_epoch"] = e if not out["crashed"] and "update_error" not in out else e - 1
            out["final_state"] = list(get_state(m, o))
            if ref is not None and not out["crashed"] and "update_error" not in out:
                out["final_diff"] = diff_vs_ref(full_state(m, o), ref, e)
    idle = effective_events(tr.idle)
    if idle:
        out["idle_ops"] = idle[:6]
    return out


def recover(case, ws, ref=None):
    """What a controller started now on these files sees and can load (no instrumentation): the identity
    of the state loaded for the last and for the best epoch and where the FULL loaded state (model state
    dict, optimizer param_groups and per-parameter state) differs from what the uninterrupted run `ref`
    held in memory after that epoch."""
    import warnings
    from pydrobert.torch import training
    out = {}
    with warnings.catch_warnings():
        warnings.simplefilter("ignore")
        try:
            ctrl = training.TrainingStateController(make_params(case), ws.csv, ws.state_dir, warn=False)
        except Exception as e:
            return {"init_error": type(e).__name__}
        rows = sorted(k for k in ctrl.cache_hist if k != 0)
        out["rows"] = rows
        out["row_vals"] = [[ctrl.cache_hist[k]["train_met"], ctrl.cache_hist[k]["val_met"]] for k in rows]
        out["row_lrs"] = [ctrl.cache_hist[k]["lr"] for k in rows]
        last = ctrl.get_last_epoch()
        best = ctrl.get_best_epoch(bool(case.get("best_is_train", False)))
        out["last"], out["best"] = last, best
        for nm, ep in (("last", last), ("best", best)):
            m, o = fresh_model_opt(case)
            try:
                ctrl.load_model_and_optimizer_for_epoch(m, o, ep)
                out["load_" + nm] = list(get_state(m, o))
                out["load_" + nm + "_diff"] = diff_vs_ref(full_state(m, o), ref, ep)
            except Exception as e:
                out["load_" + nm] = ["error", type(e).__name__]
        m, o = fresh_model_opt(case)
        try:
            ctrl.load_model_for_epoch(m)        # documented default: best by validation metric
            out["load_best_default"] = get_state(m, o)[0]
        except Exception as e:
            out["load_best_default"] = ["error", type(e).__name__]
        out["best_val"] = ctrl.get_best_epoch()
        if case.get("user_entry"):
            try:
                ctrl.add_entry(USER_ENTRY, int)
                out["user_vals"] = [ctrl.cache_hist[k].get(USER_ENTRY) for k in rows]
            except Exception as e:
                out["user_vals"] = ["error", type(e).__name__]
    return out


def read_csv(ws):
    if not os.path.exists(ws.csv):
        return None
    with open(ws.csv) as f:
        return f.read()
