"""C16 — a crash during an epoch update never loses the last or best checkpoint.

One case = controller parameters (keep_last_and_best_only, the two file-name formats — with {epoch},
constant, or formatted from a metric —, best_is_train, optionally early-stopping / reduce-lr
parameters, a user entry, explicit epoch= argument), a metric history and a crash schedule
[[epoch, k, torn(, soft)], ...]: session i is a NEW controller on the files left behind, loads the
last recorded epoch, trains on and is killed at file-system MUTATION number k of the update for `epoch`
(c16_fs: every route to the file system — builtins.open / io.open / os.open + os.fdopen / os.write,
tempfile.NamedTemporaryFile and mkstemp, torch.save to a path or a file object, os.replace / rename,
os.remove / unlink, os.mkdir, shutil, pathlib — is intercepted where it ends, on the owning modules;
file objects are proxied with full delegation; every line written to the history file is a mutation
of its own; torch.save into a BytesIO is none). A last session runs to the end and one more controller
reads what it left. How many mutations an update makes, in which order it runs the two temp-file
pipelines of the save, through which API: the implementation's business — crash points are enumerated
from the uninterrupted run of the implementation under test.

Correspondence, on STATES: per session the directory and history file left behind, what a new
controller reads and loads; per completed update the disk after it — against the Lean model
(Model/Checkpoint.lean, repaired variant). The model is told which effective file-system changes
(c16_run.abstract_trace: "a temp file appears", "it has its content", "it is renamed onto the model
checkpoint of epoch 2", "a line is appended to the history", "a checkpoint is removed"; no-op calls
dropped) the killed update made, in the implementation's order, and MATCHES them against the orders it
admits (any interleaving of the two pipelines, then the history lines, then the clean-up in any
order — `crashMatch`, proved to accept only sequences that leave a recoverable disk:
C16_crashMatch_rec); what is not admitted is a disagreement (`trace_ok`).
Property (on the implementation alone): after every crash a new controller reads a prefix of the
uninterrupted history, loads exactly the states saved for the last and the best recorded epoch —
the FULL state: every entry of the model's state dict, every hyper-parameter of every parameter
group of the optimizer (the learning rate the controller itself rewrites included) and every
per-parameter state tensor, bit for bit what the uninterrupted run held after that epoch —,
and the continued run, which makes genuine optimizer steps (their size depends on the learning
rate and on the momentum / moment buffers), ends with the uninterrupted history file (byte for
byte) and the uninterrupted final state (bit for bit);
after every completed update of a keep-last-and-best run the directory holds exactly those
epochs' files; a keep-everything run keeps every recorded epoch loadable.
"""
import json
from string import Formatter

from common.framework import PropertyCheck

import c16_run as R

DEFAULT = ("model_{epoch:03d}.pt", "optim_{epoch:03d}.pt")
FORMATS = {
    "default": DEFAULT,
    "short": ("m{epoch}.pt", "o{epoch}.pt"),
    "const": ("model.pt", "optim.pt"),
    "const_model": ("model.pt", "optim_{epoch:03d}.pt"),
    "const_optim": ("model_{epoch:03d}.pt", "optim.pt"),
    "metric": ("model_{val_met:.3f}.pt", "optim_{val_met:.3f}.pt"),
    "metric_model": ("m_{val_met:.3f}_{train_met:.1f}.pt", "optim_{epoch:03d}.pt"),
    # names with a directory part, model and optimizer in directories of their own: each pipeline of the save
    # has to make its own directory (and a temp file must live next to its destination for the rename)
    "subdirs": ("m/{epoch}.pt", "o/e{epoch:02d}.pt"),
}
MAX_OPS = 15  # 8 (save) + 3 (history: open, header line, data row) + at most 4 removals

LEAK = "C16.leak.tmp_or_superseded_after_crash"
WINDOW = "C16.format_without_epoch.window"
TORN = "C16.history.torn_row"
NAME_RAW = "C16.metric_named_format.name_from_unrecorded_digits"
DECIDE_RAW = "C16.resume.decision_on_unrecorded_digits"
# a format that names the metric with MORE digits than the history file records
FMT_METRIC8 = ("m_{val_met:.7e}.pt", "o_{val_met:.7e}.pt")

# parameters that make the early-stopping / learning-rate columns of a history row (and the optimizer's
# lr) change from epoch to epoch: the continued run must reproduce them byte for byte
ES_RLR = {"early_stopping_threshold": 0.05, "early_stopping_patience": 2, "early_stopping_burnin": 1,
          "reduce_lr_threshold": 0.05, "reduce_lr_patience": 2, "reduce_lr_factor": 0.5,
          "reduce_lr_cooldown": 1, "reduce_lr_burnin": 1, "log10_learning_rate": -1.0}


# learning-rate reduction alone, patience 1, no cool-down: a reduction at EVERY epoch that does not improve by
# the threshold (several reductions in one run; the rate comes from the optimizer's defaults, 0.5, and is
# halved: every value is dyadic and has at most 5 significant digits, so neither float arithmetic nor the
# '{:.4e}' of the history file rounds — rounding of the persisted rate is C15's known finding)
RLR = {"reduce_lr_threshold": 0.05, "reduce_lr_patience": 1, "reduce_lr_factor": 0.5,
       "reduce_lr_cooldown": 0, "reduce_lr_burnin": 0}
OPTIMS = ("sgd", "adam")


def has_epoch(fmt):
    return any(x[1] == "epoch" for x in Formatter().parse(fmt))


def raw_metrics(case):
    """The deciding column (validation, or training with best_is_train) as handed to update_for_epoch."""
    col = 0 if case.get("best_is_train") else 1
    return [R.mval(v[col]) for v in case["vals"]]


def rec_metrics(case):
    """The deciding column AS RECORDED in the history file: what any controller started later knows, and
    what `best` is defined on (get_best_epoch: "the lowest recorded validation metric, ties: the earlier")."""
    return [R.recorded_value(x) for x in raw_metrics(case)]


def best_epoch(ms, k):
    """first strict minimum among epochs 1..k of the recorded values (inf is never best), 0 if none"""
    be, bv = 0, float("inf")
    for e in range(1, k + 1):
        v = ms[e - 1]
        if v < bv:
            be, bv = e, v
    return be


def off_grid(case):
    return any(isinstance(x, float) for v in case["vals"] for x in v)


def pt(sign, m, off, p):
    """The metric  sign * m * 10**(p-4)  +  off * 10**(p-8)  for a 5-digit mantissa m (10000..99999): `off` is the
    distance from the grid point m of the history file's 5-significant-digit format in 1/10000 of the grid
    spacing — |off| < 5000 stays in the cell of m (recorded as m), 5000 < off < 15000 is recorded as m + 1, ...
    The same `off` moves the value in the same direction for either sign (lower off = lower = better metric)."""
    q = m * 10000 + (off if sign > 0 else -off)
    return float(f"{'-' if sign < 0 else ''}{q}e{p - 8}")


MAGS = tuple(range(-7, 7))          # decades 1e-7 .. 1e+6
OFFS_IN = (-4996, -4500, -3000, -400, 0, 0, 400, 2000, 3000, 4500, 4996)      # same recorded value
OFFS_OUT = (5004, 5500, 7000, 9600, 10000, 14000, 20000)                      # 1 or 2 grid points away
# recorded m, m, m, m-1, m+7: epochs 2 and 3 are LOWER than epoch 1 only beyond the recorded precision (best stays
# 1), epoch 4 differs from epoch 3 by a tenth of the grid spacing and is a new best by one grid point, 5 is worse
PAT_DOWN = (3000, 400, -4500, -5500, 70000)
# recorded m, m, m+1, m-3, m-3: higher inside the cell, a near-tie that separates upwards, a tie from above
PAT_UP = (400, 3000, 5500, -30000, -25004)


def rank_table(case):
    """Order-preserving integers for the Lean model: every finite metric of the case, raw and recorded, gets its
    rank in the sorted set of all of them. -> (rank of, [[rank x, rank recorded(x)] ..])"""
    xs = set()
    for v in case["vals"]:
        for x in v:
            x = R.mval(x)
            if x != float("inf"):
                xs.add(x)
                xs.add(R.recorded_value(x))
                xs.add(R.recorded_value(R.recorded_value(x)))
    order = sorted(xs)
    rk = {x: i for i, x in enumerate(order)}
    return rk, [[rk[x], rk[R.recorded_value(x)]] for x in order]


def norm_content(c, tab=None):
    """A file's content as the model describes it: ["model", w] / ["optim", tag, lr]. Implementation side:
    the digest of the full state dict is dropped; model side (`tab` given): the learning-rate id becomes
    the learning rate."""
    c = list(c)
    if c and c[0] == "model":
        return c[:2]
    if c and c[0] == "optim":
        lr = c[2] if len(c) > 2 else None
        if tab is not None:
            lr = tab[lr] if isinstance(lr, int) and 0 <= lr < len(tab) else ["lr-id", lr]
        return [c[0], c[1], lr]
    return c


def norm_disk(d, tab=None):
    return {"files": sorted([list(x[:2]) + [norm_content(x[2], tab)] for x in d["files"]], key=json.dumps),
            "tmps": sorted([norm_content(x, tab) for x in d["tmps"]], key=json.dumps),
            "csv": d["csv"]}


def norm_state(st, tab):
    if isinstance(st, list) and len(st) == 3 and isinstance(st[2], int) and 0 <= st[2] < len(tab):
        return [st[0], st[1], tab[st[2]]]
    return st


def leak_predicted(dm, da, tab):
    """The model's disk `dm` after a completed update is the implementation's `da`: same checkpoint files with the
    same content, same history, the same files that are no checkpoint (by content, as a multiset; the model
    follows the temp files an implementation removes again while an interrupt unwinds)."""
    return norm_disk(da) == norm_disk(dm, tab)


class C16(PropertyCheck):
    pid = "C16"
    rule = ("histories (hand-made corner cases + random, 1..6 epochs, metrics on a 3-decimal grid, inf at "
            "epoch 1, ties with the best / with the previous epoch; + metrics OFF the grid of the 5 significant "
            "digits the history file records, every decade 1e-7..1e+6, mixed decades, either sign, 0: values "
            "inside one cell of the recorded grid in descending / ascending order (ties that exist only in the "
            "recorded history), raw near-ties on both sides of a cell boundary (one grid point apart as recorded), "
            "mantissas at the ends of a decade; `best` and exactness are judged on the history AS RECORDED) "
            "x keep_last_and_best_only x 8 file-name "
            "format pairs (with {epoch}, constant, formatted from a metric, with a directory part) x best_is_train x variants "
            "(early-stopping + reduce-lr parameters active, a user entry, explicit epoch= argument; reduce-lr alone "
            "with 1..4 reductions of the optimizer's learning rate in one run, the rate taken from the parameters "
            "or from the optimizer's defaults, reduction epochs that are / are not the best epoch) x optimizer "
            "(SGD with momentum + weight decay, Adam; two parameter groups; genuine steps every epoch) x crash "
            "schedules: none; EVERY file-system mutation k of EVERY update as single crash point (enumerated from "
            "the uninterrupted run of the implementation under test: creation of a file, every write of bytes to "
            "a file, rename, removal, mkdir, opening a file for writing - whichever Python API makes it; the "
            "creation of the history file, its header line and its data row are three separate points), torn "
            "writes of a state dict and torn data row, hard kills (later mutations suppressed) and soft "
            "interrupts (unwinding handlers run); second crashes (quick: in the next two updates after "
            "recovery, thorough: everywhere); after the schedule the run is continued to the end and one more "
            "controller reads the result. + a format pair with a directory part of its own per file. "
            "non-trivial: a crash fired after >= 1 executed file-system event; distinct by the case")
    assumptions = [
        "a crash is simulated in-process: BaseException at file-system mutation k (intercepted on builtins / io / "
        "os / torch, i.e. below tempfile, shutil, pathlib, os.fdopen; file objects proxied with full delegation); "
        "hard: every later mutation suppressed, soft: the library's unwinding code runs (the model admits the "
        "removal of the killed update's temp files there, nothing else). Bytes written to a file reach it at "
        "once (write-through); the history file is line-buffered: a line reaches it when it is complete, however "
        "many write() calls it took (what the `with` block flushes on an interrupt between two lines)",
        "the correspondence is on states: the implementation's effective file-system changes are matched against "
        "the orders the Lean model admits (any interleaving of the two temp-file pipelines of the save, history "
        "lines, clean-up in any order; no-op calls - makedirs, open of an existing file, removal of a missing "
        "file, chmod - dropped), C16_crashMatch_rec; an order outside that set is reported as a disagreement",
        "a history line reaches the file whole or not at all (the torn data row is exercised, predicted by "
        "the model and reported as known finding C16.history.torn_row; a torn header line is not modelled)",
        "os.replace is atomic; torch.save/torch.load round-trip a state dict; tempfile names are fresh and "
        "never equal a checkpoint name",
        "training is deterministic (the state saved for epoch e is a function of e); history rows are a "
        "function of the metric history (C15)",
        "the recorded value of a metric x is float('{:.4e}'.format(x)) (the documented format of the history "
        "file); the best epoch is the first minimum of the RECORDED values of the deciding column; off-grid "
        "metrics are combined with formats that contain {epoch} and with the default early-stopping / reduce-lr "
        "parameters (thresholds 0: those rules compare raw with recorded values after a restart - C15's subject)",
        "full states are compared bit for bit with the uninterrupted run of the SAME implementation (same float "
        "operations in the same order); learning rates are dyadic or decimal-short so that the 5-significant-"
        "digit learning-rate column of the history is exact (its rounding is C15's known finding)",
        "non-distributed controller (rank -1); epochs are consecutive (epoch=None)",
    ]
    exhaustive = {"quick": False, "thorough": False}
    quick_budget_s = 150
    thorough_budget_s = 1500

    def __init__(self):
        self._impl = {}
        self._ref = {}

    # ------------------------------------------------------------------ generators
    def histories(self, rng, tier):
        """-> list of (validation metrics, format names to combine with)"""
        ALL = tuple(FORMATS)
        EPOCHLESS = ("const", "metric")
        if tier == "quick":
            hs = [([500], ("default",)), ([None], ("default", "const", "metric")),
                  ([500, 400], ("default", "const")), ([400, 500], ("default", "const", "short")),
                  ([500, 500], ("default", "metric")), ([None, 500, 400], ("default",)),
                  ([500, 400, 450], ALL), ([400, 400, 300, 300], ("default",)),
                  ([500, 600, 600], ("metric",)), ([500, 600, 500], ("metric",)),
                  ([500, 400, 450, 300, 350, 360], ("default",))]
            nrand, nmax = 1, 4
        else:
            hs = [(h, ALL) for h in (
                [500], [None], [500, 400], [400, 500], [500, 500], [500, 400, 450], [500, 400, 300],
                [300, 400, 500], [None, 500, 400], [500, 400, 450, 300, 350, 360], [400, 400, 300, 300],
                [500, 600, 550, 540], [None, None, 300], [300, 300, 300], [500, 600, 600], [500, 600, 500],
                [500, 400, 500, 300])]
            nrand, nmax = (12, 6) if tier == "thorough" else (60, 7)
        for i in range(nrand):
            n = rng.randint(2, nmax)
            h = [rng.choice([None, 100, 200, 300]) if rng.random() < 0.15 else
                 rng.choice([100, 200, 300]) if rng.random() < 0.2 else rng.randrange(100, 1000)
                 for _ in range(n)]
            hs.append((h, ("default",) if tier == "quick" else ("default",) + EPOCHLESS if i % 3 else ALL))
        return [([[rng.randrange(100, 1000), v] for v in h], fs) for h, fs in hs]

    @staticmethod
    def offgrid_column(rng, n):
        """One metric column of n epochs off the 3-decimal grid: decades 1e-7..1e+6 (mixed inside one history),
        either sign, zero, inf; values that share the recorded value of an earlier epoch while being lower or
        higher (ties that exist only after the rounding of the history file), values one or two grid points
        away from an earlier epoch, mantissas at the ends of a decade (carry into the next one)."""
        cells, out = [], []
        for _ in range(n):
            u = rng.random()
            if u < 0.05:
                out.append(None)
            elif u < 0.09:
                out.append(0.0)
            else:
                if cells and u < 0.75:
                    sg, m, p = rng.choice(cells)
                    off = rng.choice(OFFS_IN) if rng.random() < 0.55 else rng.choice((-1, 1)) * rng.choice(OFFS_OUT)
                else:
                    sg = -1 if rng.random() < 0.15 else 1
                    m = rng.choice((10000, 99999, rng.randrange(10000, 100000), rng.randrange(10000, 100000)))
                    p = rng.choice(MAGS)
                    off = rng.choice(OFFS_IN)
                    cells.append((sg, m, p))
                out.append(pt(sg, m, off, p))
        return out

    @staticmethod
    def pattern_history(rng, p, sign=1, deciding_train=False, n=5):
        """(train, val) pairs at decade p: the deciding column follows PAT_DOWN, the other one PAT_UP."""
        m1, m2 = rng.randrange(10010, 99990), rng.randrange(10010, 99990)
        dec = [pt(sign, m1, o, p) for o in (PAT_DOWN if n >= 5 else PAT_DOWN[:2] + PAT_DOWN[3:])[:n]]
        oth = [pt(sign, m2, o, p) for o in PAT_UP[:n]]
        return [[d, o] if deciding_train else [o, d] for d, o in zip(dec, oth)]

    def offgrid_bases(self, rng, tier):
        """Bases whose every crash point is exercised: metrics off the 3-decimal grid, formats with {epoch}
        (a name formatted from a metric would be formatted from the raw value by the process that wrote it
        and from the recorded one by every later process: see design note)."""
        mf, of = FORMATS["default"]
        out = []
        pats = [rng.choice(MAGS[8:])] if tier == "quick" else list(MAGS[::3]) + [rng.choice(MAGS)]
        for i, p in enumerate(pats):
            bit = i % 2 == 1
            c = {"keep_lb": True, "model_fmt": mf, "optim_fmt": of, "sched": [],
                 "vals": self.pattern_history(rng, p, -1 if i % 5 == 4 else 1, bit, 4 if tier == "quick" else 5)}
            if bit:
                c["best_is_train"] = True
            out.append(c)
        nr = {"quick": 2, "thorough": 5}.get(tier, 30)
        for i in range(nr):
            n = 3 if tier == "quick" else rng.randint(2, 6)
            tcol, vcol = self.offgrid_column(rng, n), self.offgrid_column(rng, n)
            c = {"keep_lb": i % 2 == 0, "model_fmt": mf, "optim_fmt": of, "sched": [],
                 "vals": [[t, v] for t, v in zip(tcol, vcol)]}
            if i % 3 == 1:
                c["best_is_train"] = True
            if i % 2 == 1:
                c["optim"] = "adam"
                c["model_fmt"], c["optim_fmt"] = FORMATS["short"]
            out.append(c)
        return out

    def magnitude_sweep(self, rng, tier):
        """Every decade 1e-7..1e+6: the pattern history, crash-free (exactness of the directory after every
        completed update, and the controller started at the end must find the best RECORDED epoch) and with one
        random crash point (the restarted controller knows the earlier epochs as recorded, its own ones raw)."""
        mf, of = FORMATS["default"]
        neg = set(rng.sample(MAGS, 3))
        for p in MAGS:
            for sign in ((1, -1) if p in neg or tier != "quick" else (1,)):
                bit = (p + (sign < 0)) % 2 == 1
                keeps = (True,) if tier == "quick" and p % 4 else (True, False)
                for keep in keeps:
                    c = {"keep_lb": keep, "model_fmt": mf, "optim_fmt": of, "sched": [],
                         "vals": self.pattern_history(rng, p, sign, bit)}
                    if bit:
                        c["best_is_train"] = True
                    yield c
                    yield dict(c, sched=[[rng.randint(2, 5), rng.randrange(0, 13), False]])

    def base_cases(self, rng, tier):
        hists = self.histories(rng, tier)
        for hi, (h, fs) in enumerate(hists):
            for fname in fs:
                mf, of = FORMATS[fname]
                for keep in (True, False):
                    c = {"keep_lb": keep, "model_fmt": mf, "optim_fmt": of, "vals": h, "sched": []}
                    if fname == "default" and hi % 4 == 3:
                        c["best_is_train"] = True
                    if hi % 3 == 2:
                        c["optim"] = "adam"
                    yield c
        # variants of the call: options that change what a history row holds / how update_for_epoch is called
        mf, of = FORMATS["default"]
        var_h = [h for h, _ in hists if len(h) >= 3]
        for h in (var_h[:1] if tier == "quick" else var_h[:6]):
            for keep in (True, False):
                yield {"keep_lb": keep, "model_fmt": mf, "optim_fmt": of, "vals": h, "sched": [],
                       "user_entry": True, "explicit_epoch": True, "best_is_train": not keep}
        # early stopping + learning-rate reduction: with these metrics the lr is halved at epoch 3 (and the
        # optimizer's param groups rewritten), the countdown columns change at every epoch; the rate comes
        # from TrainingStateParams (0.1), the fresh optimizer of every process is built with a junk rate
        es_h = [[[rng.randrange(100, 1000), v] for v in h] for h in
                ([[500, 510, 520, 530, 300]] if tier == "quick" else
                 [[500, 510, 520, 530, 300], [500, 520, 530, 540, 300, 560], [500, 400, 450, 300, 350, 360]])]
        for h in es_h:
            for keep, opt in ((True, "sgd"), (False, "adam")):
                yield {"keep_lb": keep, "model_fmt": mf, "optim_fmt": of, "vals": h, "sched": [],
                       "extra_params": dict(ES_RLR), "optim": opt}
        # learning-rate reduction alone, the rate taken from the optimizer's defaults: several reductions in
        # one run, so that every crash point of the update FOLLOWING a reduction restarts from a checkpoint
        # whose optimizer must carry the reduced rate; [500, 490, 480, ..]: the reduction epochs 2 and 3 are
        # new best epochs too (improvement below the threshold); [400, 500, 300, 350]: best epoch 3 is not a
        # reduction epoch, the last one is; + random walks around the threshold
        rl = [[500, 490, 480, 600, 610], [400, 500, 300, 350]]
        for _ in range(1 if tier == "quick" else 6):
            h = [rng.choice([300, 500, 700])]
            for _ in range(rng.randint(2, 3 if tier == "quick" else 5)):
                h.append(max(100, h[-1] + rng.choice([-100, -60, -20, -10, 10, 30, 80])))
            rl.append(h)
        for i, h in enumerate(rl):
            hh = [[rng.randrange(100, 1000), v] for v in h]
            for keep, opt in (((i % 2 == 0, OPTIMS[(i + 1) % 2]),) if tier == "quick" else
                              ((True, OPTIMS[i % 2]), (False, OPTIMS[(i + 1) % 2]))):
                yield {"keep_lb": keep, "model_fmt": mf, "optim_fmt": of, "vals": hh, "sched": [],
                       "extra_params": dict(RLR), "optim": opt}

    @staticmethod
    def collides(case):
        mn, on = R.names(case, len(case["vals"]))
        return len(set(mn[:-1])) < len(mn[:-1]) or len(set(on[:-1])) < len(on[:-1])

    @classmethod
    def predicted_calls(cls, case, e):
        """Number of mutating calls the update of epoch e makes in a run that never crashed (only used to
        prune crash indices that cannot fire; one index beyond it is kept, which checks the count)."""
        hdr = 1 if e == 1 else 0
        if not case["keep_lb"] or cls.collides(case):
            return MAX_OPS - 1 if case["keep_lb"] else 10 + hdr
        ms = rec_metrics(case)
        lb, cb = best_epoch(ms, e - 1), best_epoch(ms, e)
        if cb == e - 1:
            return 10 + hdr
        rm = {e - 1} | ({lb} if lb != cb else set())
        return 10 + hdr + 2 * len([j for j in rm if j >= 1])

    def calls_of(self, case, e):
        """Kinds of the file-system events the update of epoch e makes in the uninterrupted run of the
        implementation UNDER TEST (c16_fs events, no-op ones included; None: that run did not complete the
        update). Crash points are enumerated from what the implementation really does, not from a count the
        harness believes in."""
        evs = self.reference(case).get("events", [])
        return evs[e - 1] if 0 <= e - 1 < len(evs) else None

    def ncalls(self, case, e):
        evs = self.calls_of(case, e)
        return len(evs) if evs is not None else self.predicted_calls(case, e)

    @staticmethod
    def first_refusal(case):
        """First epoch whose update raises 'would overwrite best ... checkpoint' in an uninterrupted run
        (None if there is none): no crash point of it or of a later epoch can fire. Only used for pruning;
        what the implementation really does is observed, not assumed."""
        if not case["keep_lb"]:
            return None
        n = len(case["vals"])
        mn, on = R.names(case, n)
        ms = rec_metrics(case)
        for e in range(1, n + 1):
            cb = best_epoch(ms, e)
            if cb != e and (mn[e] == mn[cb] or on[e] == on[cb]):
                return e
        return None

    def torn_points(self, case, e):
        """Events that can be executed half-way: every write of bytes to a file (the state dicts, the data row of
        the history; the header line is atomic, see the design note)."""
        evs = self.calls_of(case, e)
        if evs is not None:
            return tuple(i for i, k in enumerate(evs) if k == "write")
        if self.collides(case):      # the row may come first: row at 1 (2 behind a header), saves shifted by it
            return (2, 5, 8, 10) if e == 1 else (1, 2, 4, 5, 7, 9)
        return (2, 5, 10) if e == 1 else (2, 5, 9)

    @staticmethod
    def soft_base(case, tier):
        """Bases whose every crash point is repeated as a soft interrupt (unwinding handlers run)."""
        if case.get("extra_params") or case.get("user_entry"):
            return False
        fm = (case["model_fmt"], case["optim_fmt"])
        n = len(case["vals"])
        if tier != "quick":
            return fm in (FORMATS["default"], FORMATS["const"], FORMATS["metric"]) and n <= 4
        if any(v[1] is None for v in case["vals"]) or case.get("best_is_train"):
            return False
        return (fm == FORMATS["default"] and n in (1, 3)) or (fm == FORMATS["const"] and n == 2 and not case["keep_lb"])

    def cases(self, rng, tier):
        bases = list(self.base_cases(rng, tier)) + self.offgrid_bases(rng, tier)
        # 0. metrics of every magnitude, off the grid of the recorded digits: crash-free + one crash
        yield from self.magnitude_sweep(rng, tier)
        # 1. crash-free runs and every single crash point
        for b in bases:
            yield b
            n = len(b["vals"])
            soft = self.soft_base(b, tier)
            stop = self.first_refusal(b)
            for e in range(1, n + 1):
                if stop is not None and e >= stop:
                    if e == stop:       # one schedule confirms that nothing of this update can be interrupted
                        yield dict(b, sched=[[e, 0, False]])
                    continue
                for k in range(self.ncalls(b, e) + 2):
                    yield dict(b, sched=[[e, k, False]])
                    if soft:
                        yield dict(b, sched=[[e, k, False, True]])
                for k in self.torn_points(b, e):
                    yield dict(b, sched=[[e, k, True]])
        # 2. second crashes
        pool = [b for b in bases if len(b["vals"]) >= 2]
        rng.shuffle(pool)
        budget = {"quick": 200, "thorough": 9000, "search": 30000}[tier]
        per = max(8, budget // max(1, len(pool)))
        for b in pool:
            n = len(b["vals"])
            stop = self.first_refusal(b)
            if stop is not None:
                n = stop - 1
            allp = [[e1, k1, e2, k2] for e1 in range(1, n + 1) for k1 in range(1, self.ncalls(b, e1) + 1)
                    for e2 in range(e1, n + 1) for k2 in range(0, max(MAX_OPS, self.ncalls(b, e2) + 1))]
            if len(allp) > per:
                # prefer the second crash in the update that is repeated or the next one
                near = [x for x in allp if x[2] - x[0] <= 1]
                far = [x for x in allp if x[2] - x[0] > 1]
                allp = rng.sample(near, min(len(near), (3 * per) // 4))
                allp += rng.sample(far, min(len(far), per - len(allp)))
            for e1, k1, e2, k2 in allp:
                yield dict(b, sched=[[e1, k1, False, rng.random() < 0.15], [e2, k2, rng.random() < 0.1]])
        # 3. three and four crashes (sample)
        for b in pool[: (6 if tier == "quick" else 60)]:
            n = len(b["vals"])
            for _ in range(10 if tier == "quick" else 40):
                sch = []
                e = 1
                for _ in range(rng.choice((3, 3, 4))):
                    e = rng.randint(e, n)
                    sch.append([e, rng.randrange(MAX_OPS), rng.random() < 0.2])
                yield dict(b, sched=sch)

    # ------------------------------------------------------------------ implementation
    def reference(self, case):
        """Uninterrupted run with the same parameters and metrics: history text, what happened, and for
        every epoch e it completed (0 = right after the initialising load): `mem[e]` the full state held
        in memory after update e (canonical, bit exact), `ids[e]` its identity (w, tag, lr), `lrs[e]` the
        learning rate the history row records, `digs[e]` the digests of the two state dicts (= what the
        checkpoint files of epoch e must hold)."""
        key = json.dumps({k: case[k] for k in case if k != "sched"}, sort_keys=True)
        if key not in self._ref:
            with R.Workspace() as ws:
                ups = []
                s = R.session(dict(case, sched=[]), ws, None, record=ups)
                ref = {"csv": R.read_csv(ws), "mem": [], "ids": [], "lrs": [], "digs": [],
                       "events": [u["trace"]["events"] for u in ups]}
            if "start_full" in s and s.get("start_epoch") == 0:
                ref["mem"] = [s.pop("start_full")] + [u.pop("mem_full") for u in ups]
                ref["ids"] = [s["start_state"]] + [u["mem"] for u in ups]
                lr0 = s.get("start_row_lr")
                ref["lrs"] = [lr0 if lr0 is not None else s["start_state"][2]] + [u["row_lr"] for u in ups]
                ref["digs"] = [[R.digest(x["model"]), R.digest(x["optim"])] for x in ref["mem"]]
            ref["status"] = s
            self._ref[key] = ref
            if len(self._ref) > 4000:
                self._ref.pop(next(iter(self._ref)))
        return self._ref[key]

    def lr_plan(self, case):
        """-> (lrs, tab, red): the learning rate after every epoch 0..n of the uninterrupted run (beyond
        the epochs it completed: the last one), the table of distinct rates in order of appearance (what
        the Lean model's learning-rate ids stand for; id 0 = the initial rate), and for every epoch
        1..n the id the update writes into the optimizer (None: the rate does not change)."""
        n = len(case["vals"])
        lrs = list(self.reference(case)["lrs"])[: n + 1] or [R.lr0_of(case)]
        lrs += [lrs[-1]] * (n + 1 - len(lrs))
        tab, red = [lrs[0]], []
        for e in range(1, n + 1):
            if lrs[e] != lrs[e - 1]:
                if lrs[e] not in tab:
                    tab.append(lrs[e])
                red.append(tab.index(lrs[e]))
            else:
                red.append(None)
        return lrs, tab, red

    @staticmethod
    def _sess_obs(s, disk, rec, ups):
        if s.get("crashed"):
            status = "crashed"
        elif "update_error" in s:
            status = "refused" if s["update_error"][1] == "ValueError" else "error:" + s["update_error"][1]
        elif "init_error" in s:
            status = "stuck_init"
        elif "load_error" in s:
            status = "stuck_load"
        else:
            status = "completed"
        ep = s.get("crash_epoch")
        if status.startswith("refused") or status.startswith("error"):
            ep = s["update_error"][0]
        if status == "completed":
            ep = s.get("end_epoch")
        tr = s.get("trace") or {}
        o = {"status": status, "start": s.get("start_epoch"), "epoch": ep,
             "trace": tr.get("ops", []) if status == "crashed" else [],
             "torn": tr.get("torn") if status == "crashed" else None,
             "events": tr.get("events", []) if status == "crashed" else [],
             "after": tr.get("after", []) if status == "crashed" else [],
             "updates": ups, "disk": disk, "rec": rec, "final_state": s.get("final_state"),
             "start_state": s.get("start_state"), "start_diff": s.get("start_diff"),
             "final_diff": s.get("final_diff")}
        if s.get("masked_by"):
            o["masked_by"] = s["masked_by"]
        if s.get("idle_ops"):
            o["idle_ops"] = s["idle_ops"]
        return o

    def run_impl(self, case):
        n = len(case["vals"])
        ref = self.reference(case)
        sessions = []
        with R.Workspace() as ws:
            for cr in case["sched"]:
                ups = []
                s = R.session(case, ws, tuple(cr), record=ups, ref=ref)
                sessions.append(self._sess_obs(s, R.snapshot(case, n, ws.state_dir, ws.csv),
                                               R.recover(case, ws, ref), ups))
            ups = []
            s = R.session(case, ws, None, record=ups, ref=ref)
            fin = self._sess_obs(s, R.snapshot(case, n, ws.state_dir, ws.csv), R.recover(case, ws, ref), ups)
            csv = R.read_csv(ws)
        lrs, tab, _ = self.lr_plan(case)
        obs = {"sessions": sessions, "final": fin, "csv_same": csv == ref["csv"],
               "ref_lrs": lrs,
               "ref_completed": ref["status"].get("end_epoch") == n and "update_error" not in ref["status"]}
        self._impl[self.key(case)] = obs
        if len(self._impl) > 500:
            self._impl.pop(next(iter(self._impl)))
        return obs

    # ------------------------------------------------------------------ model
    def model_request(self, case):
        n = len(case["vals"])
        mn, on = R.names(case, n)
        obs = self._impl.get(self.key(case))
        # What the model is told about a session: WHETHER the implementation was killed in it and, if so, in
        # which update and after which file-system CHANGES (effective ones, in the model's vocabulary, in the
        # implementation's order) — never a call index: how many calls an update makes, through which API, is
        # the implementation's business. The model matches the changes against the orders it admits.
        def hint(ops):
            return None if any("?" in [x for x in op if isinstance(x, str)] for op in ops) else ops

        def sess_in(o, crash):
            d = {"crash": None, "updates": []}
            if o is None:
                return d
            d["updates"] = [{"epoch": u["epoch"], "ops": hint(u["trace"]["ops"])} for u in o["updates"]]
            if crash and o["status"] == "crashed":
                d["crash"] = {"epoch": o["epoch"], "ops": hint(o["trace"]), "n_ops": len(o["trace"]),
                              "torn": o.get("torn"), "after": hint(o.get("after") or [])}
            return d
        sched = []
        for i, cr in enumerate(case["sched"]):
            o = obs["sessions"][i] if obs is not None and i < len(obs["sessions"]) else None
            sched.append(sess_in(o, True))
        final = sess_in(obs["final"] if obs is not None else None, False)
        # metrics go to the model as order-preserving integers (ranks), RAW, together with the rounding of the
        # history file's format as a table rank(x) -> rank(recorded(x)): the model's controller compares the
        # values it has cached (recorded ones for the epochs it read from the file, raw ones for its own), rounded
        rk, tab = rank_table(case)
        return {"op": "c16.run", "case": {
            "quirks": "fixed", "keep_lb": bool(case["keep_lb"]),
            "mkeys": R.keys_of(mn), "okeys": R.keys_of(on),
            "metrics": [[rk.get(R.mval(v[0])), rk.get(R.mval(v[1]))] for v in case["vals"]],
            "rounding": {"file": tab, "mem": tab},
            "best_is_train": bool(case.get("best_is_train", False)), "red": self.lr_plan(case)[2],
            "sched": sched, "final": final}}

    @staticmethod
    def _cmp_session(tag, a, b, out, tab):
        if a["status"] != b["status"]:
            out.append(f"{tag}: status impl={a['status']} model={b['status']}")
            return
        if a["status"] in ("stuck_init",):
            return
        if a["status"] != "stuck_load" and a["start"] != b["start"]:
            out.append(f"{tag}: start epoch impl={a['start']} model={b['start']}")
        if a["status"] != "stuck_load" and a["epoch"] != b["epoch"]:
            out.append(f"{tag}: epoch impl={a['epoch']} model={b['epoch']}")
        if a["status"] == "crashed" and not b.get("trace_ok", True):
            out.append(f"{tag}: the file-system changes the killed update of epoch {a['epoch']} made, "
                       f"{a['trace']}{' + half of ' + str(a['torn']) if a.get('torn') else ''}, are not the beginning "
                       f"of any order the model admits (any interleaving of the two temp-file pipelines, then the "
                       f"history lines, then the clean-up in any order — or history first when the names collide); "
                       f"the model's own order up to there: {b['trace']}")
        if len(a["updates"]) != len(b["updates"]):
            out.append(f"{tag}: completed updates impl={len(a['updates'])} model={len(b['updates'])}")
        for ua, ub in zip(a["updates"], b["updates"]):
            if ua["epoch"] != ub["epoch"] or not ub.get("trace_ok", True):
                out.append(f"{tag}: update {ua['epoch']}: file-system changes impl={ua['trace']['ops']} are not an "
                           f"order the model admits; the model's own order: {ub['trace']}")
            if norm_disk(ua["disk"]) != norm_disk(ub["disk"], tab):
                out.append(f"{tag}: disk after update {ua['epoch']} impl={norm_disk(ua['disk'])} "
                           f"model={norm_disk(ub['disk'], tab)}")
        da, db = norm_disk(a["disk"]), norm_disk(b["disk"], tab)
        if a["disk"].get("other"):
            out.append(f"{tag}: directories inside the state directory {a['disk']['other']}")
        if da != db:
            out.append(f"{tag}: disk impl={da} model={db}")
        ra, rb = a["rec"], b["rec"]
        a_readable = "init_error" not in ra and ra.get("rows") == list(range(1, len(ra.get("rows", [])) + 1))
        if a_readable != rb["readable"]:
            out.append(f"{tag}: history readable impl={a_readable} model={rb['readable']}")
        elif a_readable:
            if len(ra["rows"]) != rb["k"] or ra["last"] != rb["k"]:
                out.append(f"{tag}: recorded epochs impl={ra['rows']} last={ra['last']} model k={rb['k']}")
            if ra["best"] != rb["best"]:
                out.append(f"{tag}: best epoch impl={ra['best']} model={rb['best']}")
            for nm in ("load_last", "load_best"):
                va = None if ra[nm] and ra[nm][0] == "error" else ra[nm]
                if va != norm_state(rb[nm], tab):
                    out.append(f"{tag}: {nm} impl={ra[nm]} model={norm_state(rb[nm], tab)}")
        if a.get("idle_ops"):
            out.append(f"{tag}: file-system changes outside update_for_epoch (constructor / add_entry / load), the "
                       f"model has none: {a['idle_ops']}")
        bad_after = [op for op in a.get("after") or [] if op[:2] != ["remove", "tmp"]]
        if bad_after:
            out.append(f"{tag}: file-system changes made while the interrupt unwinds other than the removal of the "
                       f"killed update's own temp files (the model admits nothing else): {bad_after}")

    def compare(self, case, impl, model):
        if "error" in impl:
            return [f"harness-level exception {impl['error']}: {impl.get('message')}"]
        out = []
        tab = self.lr_plan(case)[1]
        if not model.get("rounding_consistent", True):
            out.append("the rounding of the history file's metric format is not idempotent on the metrics of this "
                       "case (hypothesis `Rounding.Consistent` of the *_rounded theorems)")
        for i, (a, b) in enumerate(zip(impl["sessions"], model["sessions"])):
            self._cmp_session(f"session {i}", a, b, out, tab)
        self._cmp_session("final session", impl["final"], model["final"], out, tab)
        return out[:6]

    # ------------------------------------------------------------------ the property on the implementation
    def predicate(self, case, impl, model):
        if "error" in impl:
            return [(f"harness-level exception {impl['error']}: {impl.get('message')}", "C16.harness")]
        n = len(case["vals"])
        lrs, tab, _ = self.lr_plan(case)
        # identity of the state saved for epoch e: (w, tag) by the training formula, the learning rate the
        # uninterrupted history records for e
        U = [[w, t, lrs[e]] for e, (w, t) in enumerate(R.uninterrupted_states(n))]
        digs = self.reference(case)["digs"]     # digests of the uninterrupted run's state dicts per epoch
        ms = rec_metrics(case)      # `best` is judged on the history AS RECORDED (5 significant digits)
        mn, on = R.names(case, n)
        mk, ok = R.keys_of(mn), R.keys_of(on)

        def want_files(j):
            """What the two checkpoint files of epoch j must hold (digest None: the uninterrupted run did
            not get that far, only the identity is known)."""
            dm, do = digs[j] if j < len(digs) else (None, None)
            return ["model", U[j][0], dm], ["optim", U[j][1], U[j][2], do]

        def holds(c, want):
            return c is not None and list(c[:len(want) - 1]) == want[:-1] and (want[-1] is None or c[-1] == want[-1])
        # epoch 0 (the dummy entry) has a file name too: it takes part in the path comparisons of the update
        injective = len(set(mn[:n + 1])) == n + 1 and len(set(on[:n + 1])) == n + 1
        no_epoch = not has_epoch(case["model_fmt"]) or not has_epoch(case["optim_fmt"])
        keep = bool(case["keep_lb"])
        fails = []
        window_seen = [False]

        def add(what, sig=None):
            fails.append((what, sig))

        all_sessions = [(f"session {i}", s) for i, s in enumerate(impl["sessions"])] + [("final session", impl["final"])]
        msess = None
        if isinstance(model, dict) and "sessions" in model:
            msess = list(model["sessions"]) + [model["final"]]

        def model_session(idx):
            return msess[idx] if msess is not None and idx < len(msess) else None

        def wsig(kind, idx):
            """Known finding 'format without {epoch}': only for formats that really collide, only for the
            symptoms of the collision (refusal to overwrite the best checkpoint; the history names an epoch
            whose checkpoint path holds another epoch's state, a mixture, or nothing yet; consequences of
            having resumed from such a state), and only when the model of the colliding update shows the
            same symptom in the same session."""
            if injective or not no_epoch:
                return None
            m = model_session(idx)
            if m is None:
                return None
            if kind == "refused":
                return WINDOW if m["status"] == "refused" else None
            if kind in ("other_epoch", "missing", "stuck_load"):
                if m["rec"].get("readable") and not m["rec"].get("rec"):
                    window_seen[0] = True
                    return WINDOW
                return None
            if kind in ("tainted", "final"):
                return WINDOW if window_seen[0] else None
            return None

        def tsig(idx):
            """Known finding 'torn data row': the history file of THIS session ends in / contains a partial
            line, and the model, given the same schedule, has the torn row in the same session and says
            that no controller can read the file."""
            j = idx
            while j >= 0:
                lines = all_sessions[j][1]["disk"]["csv"] or []
                m = model_session(j)
                if "torn" in lines and m is not None and "torn" in (m["disk"]["csv"] or []) \
                        and not m["rec"].get("readable"):
                    return TORN
                if all_sessions[j][1]["status"] != "stuck_init":
                    break
                j -= 1
            return None

        def is_mix(st):
            return (isinstance(st, list) and len(st) == 3 and st[0] in [u[0] for u in U]
                    and st[1] in [u[1] for u in U] and st[2] in lrs)

        def load_kind(got):
            if is_mix(got):
                return "other_epoch"
            if got == ["error", "FileNotFoundError"]:
                return "missing"
            if isinstance(got, list) and len(got) == 3 and got[0] != "error":
                return "tainted"
            return "x"

        crashed_before = False
        # names of the files in the state directory that are no checkpoint of any epoch and appeared during an
        # update that was killed (whatever API created them): the only files the known finding "temp files leak
        # after a crash" is about
        leftover, prev_names = set(), set()
        for idx, (tag, s) in enumerate(all_sessions):
            ms_ = model_session(idx)
            # ---- exactness / loadability after every COMPLETED update of this process
            for u in s["updates"]:
                k = u["epoch"]
                b = best_epoch(ms, k)
                files = {(f[0], f[1]): f[2] for f in u["disk"]["files"]}
                if keep and injective:
                    want = {}
                    for j in (k, b):
                        if j >= 1:
                            want[("model", mk[j])], want[("optim", ok[j])] = want_files(j)
                    missing = [p for p in want if not holds(files.get(p), want[p])]
                    extra = [p for p in files if p not in want]
                    tmps = u["disk"]["tmps"]
                    if missing:
                        add(f"{tag}: after the completed update of epoch {k} the files {missing} of the last/best "
                            f"epoch are missing or hold other content: "
                            + "; ".join(f"{p[0]} file of epoch {p[1]} holds {files.get(p)}, the uninterrupted run "
                                        f"had {want[p]} ([kind, w | optimizer tag, learning rate, digest of the whole state dict])"
                                        for p in missing[:2]),
                            "C16.exact.missing")
                    if extra or tmps or u["disk"]["other"]:
                        recorded_keys = {("model", mk[j]) for j in range(1, k + 1)} | {("optim", ok[j]) for j in range(1, k + 1)}
                        superseded = all(p in recorded_keys for p in extra)
                        from_crash = all(nm in leftover for nm in u["disk"]["tmp_names"])
                        mu = None
                        if ms_ is not None:
                            mu = next((x for x in ms_["updates"] if x["epoch"] == k), None)
                        predicted = mu is not None and leak_predicted(mu["disk"], u["disk"], tab)
                        sig = (LEAK if (crashed_before and superseded and from_crash and not u["disk"]["other"]
                                        and predicted) else "C16.exact.extra")
                        fresh = [nm for nm in u["disk"]["tmp_names"] if nm not in leftover]
                        add(f"{tag}: after the completed update of epoch {k} the state directory holds more than the "
                            f"last ({k}) and best ({b}) epochs' files: extra={extra} files that are no checkpoint="
                            f"{len(tmps)}" + (f", of which {fresh} did not come from an interrupted update" if fresh else ""),
                            sig)
                prev_names = set(u["disk"]["tmp_names"])
                if not keep and injective:
                    bad = [j for j in range(1, k + 1)
                           if not holds(files.get(("model", mk[j])), want_files(j)[0])
                           or not holds(files.get(("optim", ok[j])), want_files(j)[1])]
                    if bad:
                        j = bad[0]
                        add(f"{tag}: keep-everything run: after the update of epoch {k} recorded epochs {bad} are "
                            f"not loadable with their own state: the files of epoch {j} hold "
                            f"{files.get(('model', mk[j]))} / {files.get(('optim', ok[j]))}, the uninterrupted run "
                            f"had {want_files(j)[0]} / {want_files(j)[1]} ([kind, w | optimizer tag, learning rate, "
                            f"digest of the whole state dict])", "C16.keepall.unloadable")
                # ---- what the process holds in memory after the update
                if u.get("mem") is not None and u["mem"][2] != u.get("row_lr"):
                    add(f"{tag}: after the completed update of epoch {k} the optimizer's parameter groups have "
                        f"learning rate {u['mem'][2]}, the history row of the epoch records {u.get('row_lr')}",
                        wsig("tainted", idx) or "C16.lr.optimizer_vs_history")
                if u.get("mem") is not None and (u["mem"] != U[k] or u.get("mem_diff")):
                    add(f"{tag}: after the completed update of epoch {k} the process holds {u['mem']} "
                        f"{u.get('mem_diff') or ''}, the uninterrupted run {U[k]}",
                        wsig("tainted", idx) or "C16.resume.state_after_update")
            if s.get("start_diff"):
                add(f"{tag}: the state a new process holds after loading the last recorded epoch {s['start']} "
                    f"differs from the uninterrupted run's after that epoch: {s['start_diff']}",
                    wsig("tainted", idx) or "C16.resume.start_state")
            # ---- the process itself
            st = s["status"]
            if st == "refused":
                add(f"{tag}: update_for_epoch({s['epoch']}) raised ValueError (would overwrite the best checkpoint)",
                    wsig("refused", idx) or "C16.update.refused")
            elif st.startswith("error"):
                add(f"{tag}: update_for_epoch({s['epoch']}) raised {st[6:]}", "C16.update.raised")
            elif st == "stuck_init":
                add(f"{tag}: a controller cannot be constructed on the files left behind",
                    tsig(idx) or "C16.recover.init")
            elif st == "stuck_load":
                add(f"{tag}: the last recorded epoch cannot be loaded ({s['rec'].get('load_last')})",
                    wsig("stuck_load", idx) or "C16.recover.stuck_load")
            if s.get("masked_by"):
                add(f"{tag}: the crash was swallowed and replaced by {s['masked_by']}", "C16.crash_swallowed")
            # ---- what a new controller sees afterwards
            r = s["rec"]
            csvl = s["disk"]["csv"]
            if csvl and csvl[0] != "header":
                add(f"{tag}: the history file has no header line (lines: {csvl})", "C16.history.no_header")
            if csvl and ("header" in csvl[1:] or "junk" in csvl):
                add(f"{tag}: the history file holds a second header / a line that is no data row "
                    f"(lines: {csvl})", "C16.history.bad_line")
            if "init_error" in r:
                add(f"{tag}: new controller on the files raises {r['init_error']}", tsig(idx) or "C16.recover.init")
            else:
                k = len(r["rows"])
                if r["rows"] != list(range(1, k + 1)) or k > n:
                    add(f"{tag}: recorded epochs {r['rows']} are not a prefix of 1..{n}", "C16.history.not_prefix")
                else:
                    want_rows = [[R.recorded_value(R.mval(case["vals"][j][0])),
                                  R.recorded_value(R.mval(case["vals"][j][1]))] for j in range(k)]
                    if r["row_vals"] != want_rows:
                        add(f"{tag}: recorded metrics {r['row_vals']} differ from the metrics of the run rounded to "
                            f"the history file's 5 significant digits {want_rows}", "C16.history.metrics")
                    b = best_epoch(ms, k)
                    if r["last"] != k or r["best"] != b:
                        add(f"{tag}: last/best epoch {r['last']}/{r['best']}, expected {k}/{b} (first minimum of the "
                            f"recorded values {ms[:k]})", "C16.recover.which_epoch")
                    checks = [("last", k, r["load_last"])]
                    if injective or keep:
                        checks.append(("best", b, r["load_best"]))
                    for nm, ep, got in checks:
                        if got != list(U[ep]):
                            add(f"{tag}: history records {k} epochs; loading the {nm} epoch {ep} gives {got} "
                                f"(w, optimizer tag, learning rate), saved for it was {list(U[ep])}",
                                wsig(load_kind(got), idx) or "C16.recover.load_" + nm)
                        elif r.get("load_" + nm + "_diff"):
                            add(f"{tag}: history records {k} epochs; the state loaded for the {nm} epoch {ep} "
                                f"is not the one the uninterrupted run had after that epoch: "
                                f"{r['load_' + nm + '_diff']}", "C16.recover.state_" + nm)
                    if r.get("row_lrs") != lrs[1:k + 1]:
                        add(f"{tag}: recorded learning rates {r.get('row_lrs')} differ from the uninterrupted "
                            f"history's {lrs[1:k + 1]}", "C16.history.lr")
                    if case.get("user_entry") and r.get("user_vals") != [R.user_value(j) for j in r["rows"]]:
                        add(f"{tag}: user entries read back {r.get('user_vals')}, written "
                            f"{[R.user_value(j) for j in r['rows']]}", "C16.history.user_entry")
                    if (injective or keep) and not case.get("best_is_train"):
                        if r["load_best_default"] != U[r["best_val"]][0]:
                            g = r["load_best_default"]
                            kind = ("other_epoch" if g in [u[0] for u in U] else
                                    "missing" if g == ["error", "FileNotFoundError"] else
                                    "tainted" if not isinstance(g, list) else "x")
                            add(f"{tag}: load_model_for_epoch() gives {g}, expected {U[r['best_val']][0]}",
                                wsig(kind, idx) or "C16.recover.load_best_default")
            if st == "crashed":
                crashed_before = True
                leftover |= set(s["disk"]["tmp_names"]) - prev_names
            prev_names = set(s["disk"]["tmp_names"])
        fin = impl["final"]
        if fin["status"] == "completed":
            if fin["epoch"] != n:
                add(f"the continued run stops at epoch {fin['epoch']} of {n}", "C16.resume.stops")
            if not impl["csv_same"]:
                add("the continued run's history file differs from the uninterrupted run's", "C16.resume.history")
            if fin["final_state"] != list(U[n]) or fin.get("final_diff"):
                add(f"the continued run ends in state {fin['final_state']} {fin.get('final_diff') or ''}, "
                    f"uninterrupted: {list(U[n])}",
                    wsig("final", len(all_sessions) - 1) or "C16.resume.state")
        return fails

    # ------------------------------------------------------------------ names formatted from a metric
    def extra_checks(self, rng, tier, report):
        """File names formatted from a metric, metrics off the grid of the recorded digits: the Lean model
        takes a file name for a function of the epoch (`Params.km/ko`), which needs the name a LATER controller
        computes for a recorded epoch (from the recorded value) to be the name the writing process used (from
        the raw float). Probe, on the real controller alone: one process records epoch 1, a new controller
        must load it. Fails on /repo exactly when the two formatted names differ: an OBSERVATION outside the quantifier (off-grid metric), counted only; formerly NAME_RAW,
        assigned only to that symptom (FileNotFoundError, the checkpoint is there under the raw value's name,
        nothing under the recorded value's name); anything else is a violation."""
        from common.framework import Failure
        import os
        probes = []
        for _ in range(6 if tier == "quick" else 60):
            off = rng.choice(OFFS_IN + OFFS_OUT) * rng.choice((-1, 1))
            probes.append((FMT_METRIC8, pt(rng.choice((1, 1, -1)), rng.randrange(10010, 99990), off, rng.choice(MAGS))))
        for _ in range(4 if tier == "quick" else 40):
            k = rng.randrange(100, 999)      # 0.kkk5 -/+ 4e-8: '{:.3f}' of the raw and of the recorded value may differ
            probes.append((FORMATS["metric"], float(f"0.{k}{rng.choice(('49996', '50004', '5', '3', ''))}")))
        stats = {"probes": 0, "names_differ": 0, "load_failed": 0}
        for (mf, of), x in probes:
            case = {"keep_lb": bool(rng.getrandbits(1)), "model_fmt": mf, "optim_fmt": of,
                    "vals": [[0.5, x]], "sched": []}
            info_raw = {"epoch": 1, "train_met": 0.5, "val_met": x}
            info_rec = {"epoch": 1, "train_met": 0.5, "val_met": R.recorded_value(x)}
            raw_names = (mf.format(**info_raw), of.format(**info_raw))
            rec_names = (mf.format(**info_rec), of.format(**info_rec))
            with R.Workspace() as ws:
                st = R.session(case, ws, None)
                rec = R.recover(case, ws, None)
                on_disk = sorted(os.listdir(ws.state_dir)) if os.path.isdir(ws.state_dir) else []
            stats["probes"] += 1
            stats["names_differ"] += raw_names != rec_names
            want = [1, 1, R.lr0_of(case)]
            got = rec.get("load_last", rec.get("init_error"))
            if st.get("end_epoch") != 1 or st.get("crashed") or "update_error" in st:
                report["failures"].append(Failure(case, f"metric-named format: the single update did not complete: {st}",
                                                  "C16.update.raised"))
                continue
            if got == want and rec.get("last") == 1:
                continue
            stats["load_failed"] += 1
            specific = (raw_names != rec_names and got == ["error", "FileNotFoundError"]
                        and all(nm in on_disk for nm in raw_names) and not any(nm in on_disk for nm in rec_names))
            if specific:
                # the metric is OFF the grid of the recorded digits: outside the property's quantifier ("metric
                # sequences on a grid exactly representable in the history file's printed precision"); counted
                # in the evidence as an observation, not a failure of C16 (DESIGN 11.3b)
                stats["off_grid_name_mismatch"] = stats.get("off_grid_name_mismatch", 0) + 1
                continue
            report["failures"].append(Failure(
                case, f"format {mf!r}, validation metric {x!r} (recorded as {R.recorded_value(x)!r}): the process that "
                f"ran the update saved epoch 1 as {raw_names[0]!r}; a controller started afterwards looks for "
                f"{rec_names[0]!r}: loading the last recorded epoch gives {got}, directory = {on_disk}",
                "C16.recover.load_last"))
        report["extra"]["c16_metric_named_probes"] = stats
        self.decision_probes(rng, tier, report)

    def decision_probes(self, rng, tier, report):
        """Early stopping / reduce-lr with a threshold, metrics off the recorded grid: the running controller
        compares the RAW metric of an earlier epoch with the new one, a controller restarted in between the
        RECORDED one. Probe: [a, b, b] with a - b within the recorded precision of the threshold, uninterrupted
        vs. a plain restart before epoch 2 (new controller, load, go on): the history files must be equal.
        Observation outside the quantifier (counted only; formerly DECIDE_RAW) only when raw and recorded difference lie on different sides of the threshold
        and the metric columns of the two files agree; any other difference is a violation."""
        from common.framework import Failure
        mf, of = FORMATS["default"]
        stats = {"probes": 0, "sides_differ": 0, "history_differs": 0}
        for i in range(6 if tier == "quick" else 60):
            scale = 10.0 ** rng.choice((-3, 0, 0, 2))
            thr = 0.05 * scale
            g = rng.randrange(200, 900) / 1000.0
            da, db = rng.choice((-4e-7, 4e-7, -3e-7, 0.0)), rng.choice((0.0, 0.0, 2e-7, -2e-7))
            a, b = (g + 0.05 + da) * scale, (g + db) * scale
            extra = ({"early_stopping_threshold": thr, "early_stopping_patience": 2} if i % 2 == 0 else
                     {"reduce_lr_threshold": thr, "reduce_lr_patience": 1, "reduce_lr_factor": 0.5})
            case = {"keep_lb": bool(i % 3), "model_fmt": mf, "optim_fmt": of, "extra_params": extra,
                    "vals": [[0.5, a], [0.5, b], [0.5, b]], "sched": [[2, 0, False]]}
            ref = self.reference(case)
            with R.Workspace() as ws:
                R.session(case, ws, (2, 0, False), ref=ref)
                fin = R.session(case, ws, None, ref=ref)
                csv = R.read_csv(ws)
            stats["probes"] += 1
            raw_side = max(a - b, 0) < thr
            rec_side = max(R.recorded_value(a) - b, 0) < thr
            stats["sides_differ"] += raw_side != rec_side
            if csv == ref["csv"] and fin.get("end_epoch") == ref["status"].get("end_epoch"):
                continue
            stats["history_differs"] += 1

            def cols(text, idx):
                return [ln.split(",")[idx] for ln in (text or "").splitlines()]
            same_metrics = cols(csv, 6) == cols(ref["csv"], 6) and cols(csv, 7) == cols(ref["csv"], 7)
            if raw_side != rec_side and same_metrics:
                # off-grid metric within the recorded precision of the threshold: outside the quantifier (see above)
                stats["off_grid_decision_differs"] = stats.get("off_grid_decision_differs", 0) + 1
                continue
            report["failures"].append(Failure(
                case, f"threshold {thr!r} ({'early stopping' if i % 2 == 0 else 'reduce lr'}), validation metrics "
                f"{[a, b, b]!r}: epoch 1 is recorded as {R.recorded_value(a)!r}; a - b < threshold is {raw_side} on the "
                f"raw values and {rec_side} for a controller restarted after epoch 1: the continued run's history "
                f"{(csv or '').splitlines()[1:]} differs from the uninterrupted run's {(ref['csv'] or '').splitlines()[1:]}",
                "C16.resume.history"))
        report["extra"]["c16_decision_probes"] = stats

    # ------------------------------------------------------------------ evidence
    def nontrivial(self, case, impl):
        if "error" in impl:
            return False
        return any(s["status"] == "crashed" and len(s["events"]) >= 1 for s in impl["sessions"])

    def tags(self, case, impl):
        t = ["keep_lb" if case["keep_lb"] else "keep_all", f"crashes={len(case['sched'])}",
             f"epochs={len(case['vals'])}"]
        for name, (mf, of) in FORMATS.items():
            if (mf, of) == (case["model_fmt"], case["optim_fmt"]):
                t.append("fmt=" + name)
        if case.get("best_is_train"):
            t.append("best_is_train")
        for k in ("user_entry", "explicit_epoch"):
            if case.get(k):
                t.append(k)
        t.append("optim=" + case.get("optim", "sgd"))
        if off_grid(case):
            t.append("metrics=off_grid")
            raw, rec = raw_metrics(case), rec_metrics(case)
            for x in raw:
                if x == float("inf"):
                    t.append("metric=inf")
                elif x == 0:
                    t.append("metric=0")
                else:
                    t.append("metric_decade=1e%+03d" % int(("%e" % abs(x)).split("e")[1]))
                    if x < 0:
                        t.append("metric<0")
            for e in range(2, len(raw) + 1):
                rb, cb = best_epoch(raw, e), best_epoch(rec, e)
                if rb != cb:
                    t.append("lowest_raw_metric_is_not_the_best_recorded_epoch")
                if cb and cb != e and rec[e - 1] == rec[cb - 1]:
                    t.append("recorded_tie_with_best:" + ("raw_lower" if raw[e - 1] < raw[cb - 1] else
                                                          "raw_higher" if raw[e - 1] > raw[cb - 1] else "raw_equal"))
                if cb == e and any(0 < raw[j] - raw[e - 1] < 0.2 * (rec[j] - rec[e - 1]) for j in range(e - 1)):
                    t.append("new_best_separated_from_a_raw_near_tie_by_the_rounding")
        else:
            t.append("metrics=3_decimal_grid")
        if case.get("extra_params"):
            t.append("early_stop+reduce_lr" if "early_stopping_threshold" in case["extra_params"] else "reduce_lr_only")
            t.append("lr_from=" + ("params" if case["extra_params"].get("log10_learning_rate") is not None
                                   else "optimizer_defaults"))
        if any(len(c) > 3 and c[3] for c in case["sched"]):
            t.append("soft_interrupt")
        lrs = self.lr_plan(case)[0]
        red_at = [e for e in range(1, len(lrs)) if lrs[e] != lrs[e - 1]]
        if red_at:
            t.append("lr_reduced_during_run")
            t.append(f"lr_reductions={len(red_at)}")
        if "error" in impl:
            return t
        for s in impl["sessions"] + [impl["final"]]:
            if s.get("start") in red_at and s["status"] != "stuck_init":
                t.append("restart_from_lr_reduction_epoch")
            r = s["rec"]
            if "init_error" not in r and r.get("best") in red_at and r.get("best") != r.get("last"):
                t.append("best_epoch_is_lr_reduction_epoch")
        for s in impl["sessions"]:
            if s["status"] == "crashed":
                if s.get("after"):
                    t.append("temp_files_removed_while_the_interrupt_unwinds")
                t.append(f"crash_after_events={len(s['events'])}")
                t.append(f"crash_after_changes={len(s['trace'])}")
                if s["events"] and s["events"][-1] in R.NOOP_EVENTS:
                    t.append("crash_right_after_a_no_op_event")
                if any(x[2] == ["torn"] for x in s["disk"]["files"]) or ["torn"] in s["disk"]["tmps"]:
                    t.append("torn_write")
                if "torn" in (s["disk"]["csv"] or []):
                    t.append("torn_history_row")
                if s["disk"]["csv"] == ["header"]:
                    t.append("header_only_history")
            else:
                t.append("crash_point_not_reached")
        for s in impl["sessions"] + [impl["final"]]:
            if s["status"] == "refused":
                t.append("refused_overwrite_best")
            for u in s["updates"]:
                ops = u["trace"]["ops"]
                nrm = sum(1 for op in ops if op[0] == "remove")
                first = ops[0][0] if ops else "?"
                hdr = any(op[:2] == ["hwrite", "header"] for op in ops)
                t.append(f"branch:{'info_first' if first in ('open_a', 'hwrite') else 'save_first'}:rm{nrm}{':hdr' if hdr else ''}")
                sv = [{"mktemp": "c", "write": "w", "replace": "r"}[op[0]] + str(op[1] if op[0] == "mktemp" else op[2])
                      for op in ops if op[0] in ("mktemp", "write", "replace") and len(op) > 2 - (op[0] == "mktemp")]
                t.append("save_order:" + "".join(sv))
        return sorted(set(t))

    def shrink(self, case):
        sch = case["sched"]
        for i in range(len(sch)):
            yield dict(case, sched=sch[:i] + sch[i + 1:])
        n = len(case["vals"])
        if n > 1 and all(c[0] < n for c in sch):
            yield dict(case, vals=case["vals"][:-1])
        if n > 1:
            # drop the first epoch when no crash refers to it
            if all(c[0] > 1 for c in sch):
                yield dict(case, vals=case["vals"][1:], sched=[[c[0] - 1] + list(c[1:]) for c in sch])
        for i, c in enumerate(sch):
            if c[2]:
                yield dict(case, sched=sch[:i] + [[c[0], c[1], False] + list(c[3:])] + sch[i + 1:])
            if len(c) > 3 and c[3]:
                yield dict(case, sched=sch[:i] + [list(c[:3])] + sch[i + 1:])
        for k in ("best_is_train", "user_entry", "explicit_epoch", "extra_params", "optim"):
            if case.get(k):
                c = dict(case)
                c.pop(k)
                yield c


CHECK = C16()
