"""C05 — SIZE CLASSES: wide beams, large vocabularies, long inputs, large batches.

Every other stream of the check stays small (V <= 3, T <= 7, N <= 3, width <= 50) because its oracle is the
enumeration of all (V+1)^T alignments.  A library may legitimately take another code path above a size
threshold (a cheaper formula for a large intermediate tensor, a chunked loop, a pre-allocated buffer), and such
a path is never entered by a small case.  This file generates a FEW cases per run in which one or two of the
sizes that `ctc_prefix_search_advance` / `CTCPrefixSearch.forward` compute with are large, for every entry
point: the module on random scores (tolerance + the exact oracle of the caller's scores), the module on
{0,-inf} scores (exact), the module with a fused language model, the step function driven directly on the
exact grid k/den (optionally with per-prefix extension scores, the width changing between calls), the step
function started from a caller-given state.

Sizes that are varied (the tensors of the code in brackets):
  width K'   32, 63, 64, 65, 100, 128, 200          (every per-slot tensor; K' x K' prefix matrix)
  V          3, 8, 17, 33, 64, 65, 128, 257         (K' x V candidates; the (K', K', V) one-hot of the merge)
  K'*K'*V    bands (1e3, 1e4], (1e4, 65536], (65536, 1e5], > 1e5   (the largest intermediate)
  T          64, 100, 128, 200, 257, 300 with small V / width       (the loop, the token buffer y)
  N          16, 33, 64, 128                                        (the flattened (N*K') LM batch, valid masks)

How such a case is judged (`case["judge"]`, see `c05.judge_of`) — nothing is compared more loosely than in the
small streams, but the enumeration of all alignments is out of reach:
  * correspondence with the Lean array model call by call, as everywhere (`model: true`) — except the very
    largest cases (K' = 200, K'*K'*V beyond a few 1e5, tolerance runs of more than 64 frames: the replies alone
    are tens of megabytes), which are judged by the specification only (`model: false`);
  * the Lean prefix-beam recursion with the implementation's survivors (reported mass = recursion's mass, every
    kept prefix reported, legitimate top-K on the exact streams) — evaluated with hash maps in the driver
    (`specStepFast`), the same function that is cross-checked against the literal definitions on every small case;
  * TRUE MASS of every reported prefix by the forward algorithm (`massPos`, cross-checked against the recursion
    with prefix-closed survivors — theorem `C05_closed_survivors` — and against the enumeration on the small
    streams): never more than the true mass; off (`dp: false`) only for tolerance runs of more than 32 frames,
    where "never more" follows from reported = recursion (checked) and `C05_sub` (proved);
  * the predicates that need no oracle on EVERY element: distinct prefixes, order, no NaN, batched = alone,
    step contract (prefix matrix, last tokens), repeatability, caller's tensors untouched, totals <= 1;
  * large batches: a sample of the elements goes through Lean (`elements`), all of them through the rest.
"""
import math

import c05_gen

NEG = float("-inf")
WIDTHS = (32, 63, 64, 65, 100, 128, 200)
VOCABS = (3, 8, 17, 33, 64, 65, 128, 257)
LONG_T = (64, 100, 128, 200, 257, 300)
BATCHES = (16, 33, 64, 128)
BANDS = (1000, 10000, 65536, 100000)


def band(x):
    """which of the thresholds 1e3 / 1e4 / 65536 / 1e5 a size exceeds"""
    if x <= BANDS[0]:
        return "<=1e3"
    if x <= BANDS[1]:
        return "(1e3,1e4]"
    if x <= BANDS[2]:
        return "(1e4,65536]"
    if x <= BANDS[3]:
        return "(65536,1e5]"
    return ">1e5"


def pairs(lo, hi, wmax=200):
    return [(w, V) for w in WIDTHS for V in VOCABS if lo < w * w * V <= hi and w <= wmax]


def fill_frames(V, width):
    """frames after which the beam can hold `width` distinct prefixes"""
    n, x, t = 1, 1, 0
    while n < width:
        x *= V
        n += x
        t += 1
    return t


def model_ok(width, V, T, stream, tier):
    """can the Lean array model replay the case within the budget of the tier? (else: specification only)"""
    cap_w, cap = (130, 320000) if tier == "quick" else (200, 700000)
    if stream == "tol" and T > 64:
        return False
    return width <= cap_w and width * width * V <= cap and T * width <= 1300


def logit_rows(chk, rng, V, T, dtype, style):
    """`gauss`: the scores of the other streams; `peaky`: one dominant label per frame (a long run keeps masses
    well above the underflow range and a beam with real competition: runner-up labels a few nats below)"""
    rows = []
    for _t in range(T):
        if style == "gauss":
            rows.append([chk.rand_logit(rng, dtype) for _ in range(V + 1)])
            continue
        if style == "few":
            # a few hot labels per frame (often the blank among them), the rest of the vocabulary far below:
            # what the posteriors of a trained model look like; a wide beam then fills with the combinations of
            # the hot labels, i.e. with prefixes that share tokens position by position and extend one another
            hot = rng.sample(range(V + 1), min(V + 1, rng.choice([2, 3, 3, 4])))
            if rng.random() < 0.5 and V not in hot:
                hot[0] = V
            row = [c05_gen.round_dtype(rng.gauss(-4.0, 1.0), dtype) for _ in range(V + 1)]
            for i in hot:
                row[i] = c05_gen.round_dtype(rng.gauss(1.0, 0.7), dtype)
            rows.append(row)
            continue
        top = rng.randrange(V + 1)
        if rng.random() < 0.35:
            top = V
        row = [c05_gen.round_dtype(rng.gauss(0.0, 1.0), dtype) for _ in range(V + 1)]
        row[top] = c05_gen.round_dtype(rng.choice([2.0, 3.0, 4.5]) + rng.random(), dtype)
        rows.append(row)
    return rows


def merges(frames, width, V):
    """GENERATOR AID (no oracle): the textbook recursion in plain floats; how many extensions are merged into a
    prefix that is already in the beam, counted over the frames at which the beam is full.  Wide-beam cases are
    drawn a few times and the draw with the most merges is kept: the merge of coinciding candidates is what the
    largest intermediate of the step function is for."""
    beam = {(): (0.0, 1.0)}
    count = 0
    for p in frames:
        cand = {}
        full = len(beam) >= width
        for pref, (nb, b) in beam.items():
            o = cand.get(pref, (0.0, 0.0))
            cand[pref] = (o[0] + (nb * p[pref[-1]] if pref else 0.0), o[1] + (nb + b) * p[V])
            for v in range(V):
                m = b * p[v] if (pref and pref[-1] == v) else (nb + b) * p[v]
                if m <= 0.0:
                    continue
                q = pref + (v,)
                o = cand.get(q, (0.0, 0.0))
                cand[q] = (o[0] + m, o[1])
                if full and q in beam:
                    count += 1
        beam = dict(sorted(cand.items(), key=lambda kv: -(kv[1][0] + kv[1][1]))[:width])
    return count


def richest(rng, make, to_probs, width, V, tries=4):
    best, score = None, -1
    for _ in range(tries):
        x = make()
        sc = merges(to_probs(x), width, V)
        if sc > score:
            best, score = x, sc
    return best


def enc(x):
    return "-inf" if x == NEG else float(x)


def sample_elements(rng, N, lens, k):
    """the elements of a large batch that go through Lean: the first, the last, a longest one, random ones"""
    if N <= k:
        return None
    ln = lens or [1] * N
    pick = {max(range(N), key=lambda n: ln[n])}
    for n in (N - 1, 0):
        if len(pick) < k:
            pick.add(n)
    while len(pick) < k:
        pick.add(rng.randrange(N))
    return sorted(pick)


def full_lens(chk, rng, N, T, whole):
    """lengths of a batch; `whole`: one element (at least) keeps all its frames or all but one - a case that is
    meant to reach a size must not be cut short by its own lengths; large batches: ragged lengths (the freezing of
    finished elements is what a batch is about), rarely None"""
    lens = chk.gen_lens(rng, N, T) if N > 1 or rng.random() < 0.5 else None
    if N >= 16 and lens is None and rng.random() < 0.8:
        lens = [rng.randint(0, T) for _ in range(N)]
        lens[rng.randrange(N)] = T
    if lens is not None and whole and max(lens) < T - 1:
        lens[rng.randrange(N)] = rng.choice([T, T, T - 1])
    return lens


def module_tol(chk, rng, tier, V, width, T, N, dtype, lm=False, style="gauss", keep_elems=3, vary=True, model=True):
    logits = [[None] * N for _ in range(T)]
    for n in range(N):
        if style == "mixed":    # wide beams: a merge-rich draw (generator aid, see `merges`)
            rows = richest(rng, lambda: logit_rows(chk, rng, V, T, dtype, rng.choice(["gauss", "peaky", "few", "few"])),
                           lambda rs: [c05_gen.softmax(r) for r in rs], width, V)
        else:
            rows = logit_rows(chk, rng, V, T, dtype, style)
        for t in range(T):
            logits[t][n] = [enc(x) for x in rows[t]]
    lens = full_lens(chk, rng, N, T, N < 16)
    if lens is not None and N >= 16:
        for _ in range(rng.choice([1, 2, 3])):        # some empty, some full elements in a large batch
            lens[rng.randrange(N)] = 0
            lens[rng.randrange(N)] = T
    lm_spec = None
    if lm:
        lm_spec = chk.gen_lm(rng, N)
        if lm_spec["beta"] == "0":
            lm_spec["beta"] = "1/2"
        if N * width * V > 20000 and lm_spec["kind"] not in ("hash", "hist"):
            # (the three-tensor / shallow-fusion LMs score row by row in python: minutes for 1e5 scores)
            lm_spec = {k: v for k, v in lm_spec.items() if k not in ("second", "inner")}
            lm_spec["kind"] = rng.choice(["hash", "hist"])
            if lm_spec["kind"] == "hist":
                lm_spec.pop("init", None)
    case = {"kind": "module", "stream": "tol", "V": V, "width": width, "dtype": dtype, "logits": logits, "N": N,
            "lens": lens, "lm": lm_spec, "gen": "size"}
    judge = {}
    if not model or not model_ok(width, V, T, "tol", tier):
        judge["model"] = False
    if T > 32:
        judge["dp"] = False
    el = sample_elements(rng, N, lens, keep_elems)
    if el is not None:
        judge["elements"] = el
    if judge:
        case["judge"] = judge
    if not vary:
        return case
    case = chk.vary_module(rng, case)
    if N * width > 4000 or N * T > 2000:
        case.pop("life", None)      # (every call of an object's life is a full search of the large batch)
    return case


def module_exact(chk, rng, tier, V, width, T, N, dtype="f64", keep_elems=3):
    """{0,-inf} scores: the softmax of a frame is 1/2^k on 2^k labels; every mass is a multiple of 2^-bits with
    bits = sum of k over the frames: float-exact while bits <= 50 (f64) / 22 (f32).  Long runs: most frames are
    certain (one label), the branching frames are spread over the run."""
    budget = 50 if dtype == "f64" else 22
    logits = [[None] * N for _ in range(T)]
    for n in range(N):
        ks = [0] * T
        left = budget
        order = list(range(T))
        rng.shuffle(order)
        for t in order:
            kmax = min(left, int(math.log2(V + 1)), 4)
            k = rng.choice([0, 1, 1, 2, 3, 4][: kmax + 2]) if kmax > 0 else 0
            k = min(k, kmax)
            if T > 24 and rng.random() < 0.5:
                k = 0
            ks[t] = k
            left -= k
        for t in range(T):
            zs = set(rng.sample(range(V + 1), 2 ** ks[t]))
            logits[t][n] = [enc(0.0 if i in zs else NEG) for i in range(V + 1)]
    lens = full_lens(chk, rng, N, T, N < 16)
    case = {"kind": "module", "stream": "exact", "V": V, "width": width, "dtype": dtype, "logits": logits, "N": N,
            "lens": lens, "lm": None, "gen": "size"}
    judge = {}
    if not model_ok(width, V, T, "exact", tier):
        judge["model"] = False
    el = sample_elements(rng, N, lens, keep_elems)
    if el is not None:
        judge["elements"] = el
    if judge:
        case["judge"] = judge
    return chk.vary_module(rng, case)


def advance_exact(chk, rng, tier, V, width, T, long_run=False):
    """the step function driven directly on the grid k/den (float64): den = 64 for short runs (64^T <= 2^48);
    long runs: den = 4 and at most 24 frames that are not certain, so that the numerators stay below 2^53"""
    if long_run:
        den = 4
        branching = set(rng.sample(range(T), min(T, 24)))
        frames = []
        for t in range(T):
            parts = [0] * (V + 1)
            if t in branching:
                a, b = rng.sample(range(V + 1), 2)
                parts[a], parts[b] = rng.choice([(2, 2), (1, 2), (2, 1), (1, 1), (3, 1)])
            else:
                parts[rng.randrange(V + 1)] = rng.choice([4, 4, 2])
            frames.append({"tok": parts[:V], "blank": parts[V]})
        ext_seed = None
    else:
        den = 64
        rows = richest(rng, lambda: [chk.grid_row(rng, V, den) for _t in range(T)],
                       lambda rs: [[x / den for x in r] for r in rs], width, V)
        frames = [{"tok": parts[:V], "blank": parts[V]} for parts in rows]
        ext_seed = rng.choice([None, rng.randrange(1 << 16)])
    case = {"kind": "advance", "stream": "exact", "V": V, "width": width, "dtype": "f64", "denom": den,
            "frames": frames, "ext_seed": ext_seed, "lm": None, "lens": None, "gen": "size"}
    if rng.random() < 0.4:
        case["widths"] = [max(1, width + rng.choice([-1, 0, 0, 1, -width // 2])) for _ in range(T)]
        case["width"] = case["widths"][-1]
    wmax = max(case.get("widths") or [width])
    if not model_ok(wmax, V, T, "exact", tier):
        case["judge"] = {"model": False}
    return case


def roster(chk, rng, tier):
    """The size-class cases of one run.

    quick — eight cases.  ALWAYS: (1) the module beyond K'*K'*V = 1e5; (2) the module with a fused LM beyond 65536;
    (3) another entry point (exact module / step function / caller-given state) beyond 65536; (4) a large
    vocabulary (64..257) with K'*K'*V in (1e4, 65536] on one of the four entry points; (5) an exact run of 128 / 200
    frames with the array model; (6) large input / output tensors (T*N*(V+1) beyond 1e5, T*N*K' beyond 1e4);
    (7) a large batch x a beam of width 32 / 100 with ragged lengths (N*K' beyond 1e3, N*K'*(V+1) beyond 1e4 / 1e5).
    ROTATING (one per run): the very largest (specification only) / a tolerance run of 33..64 frames with the
    array model / of 100..200 frames without / a directly driven exact run of 100..200 frames / a fused run of
    24..40 frames / a large batch with everything else small.
    thorough / search: every class for every entry point, several times."""
    quick = tier == "quick"
    reps = 1 if quick else 2 if tier == "thorough" else 4
    wmax = 130 if quick else 200

    def wide(lo, hi, kind, **kw):
        # (fused: V <= 33 - the per-prefix tables of exact LM scores are K' x V decimals per frame, three times)
        # (and K'*V > 1e3 LM scores per element)
        w, V = rng.choice([x for x in pairs(lo, hi, kw.pop("wmax", wmax))
                           if kind != "fused" or (x[1] <= 33 and (x[0] * x[1] > 1000 or hi <= 65536))])
        T = max(3, fill_frames(V, w) + rng.choice([2, 2, 3]))
        if kind == "tol":
            return module_tol(chk, rng, tier, V, w, T, 1 if quick else rng.choice([1, 1, 2]), rng.choice(["f64", "f64", "f32"]),
                              style="mixed", **kw)
        if kind == "fused":
            return module_tol(chk, rng, tier, V, w, min(T, 4), 1 if quick else rng.choice([1, 1, 2]),
                              rng.choice(["f64", "f32"]), lm=True, style="mixed")
        if kind == "exact":
            return module_exact(chk, rng, tier, V, w, T, rng.choice([1, 2]))
        if kind == "advance":
            return advance_exact(chk, rng, tier, V, w, min(T, 6))
        if kind == "state":
            return next(chk.gen_state_advance(rng, 1, size={"V": V, "Kp": w, "S": rng.choice([2, 3]), "width": w}))
        raise ValueError(kind)

    def vocab(kind, narrow):
        V = rng.choice([64, 65, 128, 257])
        if narrow:
            w = rng.choice([1, 2, 3, 5, 8])
        else:   # K'*K'*V in (1e4, 65536]
            w = rng.choice([w for w in (8, 12, 16, 20, 30) if 10000 < w * w * V <= 65536])
        T = rng.choice([3, 4, 5])
        if kind in ("tol", "fused"):
            return module_tol(chk, rng, tier, V, w, T, rng.choice([1, 2]), rng.choice(["f64", "f32"]), lm=kind == "fused")
        if kind == "advance":
            return advance_exact(chk, rng, tier, V, w, T)
        return module_exact(chk, rng, tier, V, w, T, rng.choice([1, 2]))

    def huge():
        # the very largest: specification only (K' = 200, K'*K'*V up to 3e6)
        big = [(w, V) for w in WIDTHS for V in VOCABS if 330000 < w * w * V <= 3000000 and w * V <= 13000]
        w, V = rng.choice(big)
        T = max(3, fill_frames(V, w) + 1)
        if rng.random() < 0.5:
            return module_tol(chk, rng, "quick", V, w, T, 1, "f64", vary=False, style="mixed")
        return advance_exact(chk, rng, "quick", V, w, T)

    longs = [t for t in LONG_T if t <= (200 if quick else 300)]

    def long_run(kind):
        V, w = rng.choice([1, 2, 2, 3]), rng.choice([1, 2, 3, 4, 6])
        if kind == "exact":
            return module_exact(chk, rng, tier, V, min(w, 4) if quick else w,
                                rng.choice(LONG_T[2:4] if quick else LONG_T[2:]), 1 if quick else rng.choice([1, 2]))
        if kind == "tol64":     # with the array model: f32 / f64, up to 64 frames
            return module_tol(chk, rng, tier, V, w, rng.choice([33, 48, 64]), rng.choice([1, 2]),
                              rng.choice(["f32", "f64"]), style="peaky")
        if kind == "tol":       # specification only, hundreds of frames (float64: 3^-300 is a normal number)
            return module_tol(chk, rng, tier, V, w, rng.choice([t for t in longs if t > 64]), 1 if quick else rng.choice([1, 2]),
                              "f64", style=rng.choice(["peaky", "gauss"]))
        if kind == "advance":
            return advance_exact(chk, rng, tier, V, w, rng.choice(longs), long_run=True)
        return module_tol(chk, rng, tier, min(V, 2), min(w, 3), rng.choice([24, 32, 40]), 1, "f64", lm=True, style="peaky")

    def volume():
        # large input / output tensors with everything else narrow: T*N*(V+1) (logits) beyond 1e5 and T*N*K' (token
        # buffer) beyond 1e4 / 1e5; one or two (quick) / three elements go through Lean, the rest is judged by the result
        # (quick: without the array model - the class is about the tensors around the step function)
        # (the quick tier's two are beyond 1e5 in BOTH)
        T, N, V, w = rng.choice([(100, 64, 17, 16), (100, 128, 8, 8)] + (
            [] if quick else [(200, 64, 8, 8), (100, 33, 33, 32), (40, 64, 64, 4), (100, 33, 33, 4), (64, 33, 64, 8)]))
        return module_tol(chk, rng, tier, V, w, T, N, "f64" if T > 64 else rng.choice(["f32", "f64", "f64"]),
                          style="peaky", keep_elems=(1 if T > 64 else 2) if quick else 3, model=not quick)

    def batch_wide(N, w, V, keep=2):
        # large batches x a beam of moderate width: N*K' beyond 1e3 / 1e4, N*K'*(V+1) (candidates, extension scores,
        # LM scores) beyond 1e4 / 1e5; ragged lengths
        return module_tol(chk, rng, tier, V, w, max(3, fill_frames(V, w) + 1), N, "f64", keep_elems=keep, style="mixed",
                          lm=V <= 64 and rng.random() < 0.5)

    # (N, K', V); the first: N*K' = 12800, N*K'*(V+1) = 115200, K'*K'*V = 80000 at once
    BW = [(128, 100, 8), (33, 32, 17), (64, 32, 17), (33, 32, 128), (64, 32, 64), (128, 100, 3)]

    def batch_small(kind):
        N = rng.choice(BATCHES if not quick else BATCHES[1:3])
        if kind == "tol":
            return module_tol(chk, rng, tier, rng.choice([1, 2, 3]), rng.choice([1, 2, 4, 6, 20]), rng.choice([2, 3, 5]),
                              N, rng.choice(["f32", "f64"]), keep_elems=6)
        if kind == "exact":
            return module_exact(chk, rng, tier, rng.choice([1, 2, 3]), rng.choice([1, 2, 4, 6, 20]), rng.choice([2, 3, 5]),
                                N, rng.choice(["f32", "f64"]), keep_elems=6)
        return module_tol(chk, rng, tier, 2, rng.choice([1, 2, 4]), rng.choice([2, 3, 4]), N, "f64", lm=True, keep_elems=4)

    for _ in range(reps):
        others = ["exact", "advance", "state"]
        rng.shuffle(others)
        kinds4 = ["tol", "fused", "advance", "exact"]
        # --- wide beams: the (K', K', V) intermediate beyond 1e5 / beyond 65536 (N*K'*V LM scores beyond 1e3)
        yield wide(100000, 330000, "tol")
        yield wide(65536, 330000, "fused")
        yield wide(65536, 330000, others[0])
        if quick:
            yield vocab(rng.choice(kinds4), narrow=False)
            yield long_run("exact")
            yield volume()
            yield batch_wide(*BW[0], keep=1)    # with / without a fused LM: every other run
            yield rng.choice([huge, lambda: long_run("tol64"), lambda: long_run("tol"), lambda: long_run("advance"),
                              lambda: long_run("fused"), lambda: batch_small(rng.choice(["tol", "exact", "fused"]))])()
            continue
        yield wide(65536, 100000, others[1])
        yield wide(10000, 65536, others[2])
        yield wide(1000, 10000, others[0])
        yield wide(100000, 330000, others[1])
        yield wide(1000, 10000, "fused")
        for kind in ("advance", "exact", "state"):
            yield wide(65536, 330000, kind)
        yield huge()
        for kind in kinds4:
            yield vocab(kind, narrow=False)
            yield vocab(kind, narrow=True)
        for kind in ("exact", "tol64", "tol", "advance", "fused"):
            yield long_run(kind)
        for _i in range(2):
            yield volume()
        for x in BW:
            yield batch_wide(*x)
        for kind in ("tol", "exact", "fused"):
            yield batch_small(kind)
