"""C18 — normalisation statistics, deltas and returns equal their defining formulas.

Four case kinds, all run against the real `pydrobert.torch` code in-process:

* ``mvn``     MeanVarianceNormalization: one pool of integer-valued tensors, one *history*
              (an ordering of the tensors cut into contiguous chunks, each chunk concatenated and
              given to one ``accumulate`` call), ``store(bessel)``, ``forward`` with the stored
              statistics, with the input's own statistics, and with only one of the two stored.
* ``cli``     ``compute-mvn-stats-for-torch-feat-data-dir`` on a temporary directory
              (``--num-workers 0``), optionally with ``--id2gid`` groups.
* ``deltas``  ``feat_deltas`` / ``FeatureDeltas`` for one (shape, dim, time_dim, concatenate, order,
              width, pad_mode).
* ``return``  ``time_distributed_return`` / ``TimeDistributedReturn``.

Exactness: features, rewards and pad values are small integers; the accumulators, the width-1
deltas and the returns for dyadic gamma are then exact in float32/float64 and compared as
rationals.  Means, variances, normalised outputs and width>1 deltas (the kernel k/sum(k^2) is
not dyadic) go through the tolerance stream: the Lean model computes them exactly and the
difference must stay below a bound far above float rounding and far below any real change.
"""
import itertools
import math
import os
import tempfile
from fractions import Fraction

from common.framework import PropertyCheck, frac_str

PAD_MODES = ("replicate", "constant", "reflect", "circular")
SIG_SINGLE = "C18.store.single_frame_rejected"
SIG_NAN = "C18.return.nonfinite_underflow"


# ------------------------------------------------------------------------------- helpers
def prod(shape):
    p = 1
    for s in shape:
        p *= s
    return p


def F(s):
    return Fraction(s)


def fl(xs):
    return [frac_str(float(v)) for v in xs]


def tcase(t):
    return {"shape": list(t.shape), "data": [int(v) for v in t.flatten().tolist()]}


def mk(tc, dtype):
    import torch
    dt = torch.float32 if dtype == "float32" else torch.float64
    return torch.tensor(tc["data"], dtype=dt).view(tc["shape"])


def close(a, b, rtol, atol):
    """a, b exact rationals (Fractions or 'n/d')."""
    if a in ("nan", "inf", "-inf") or b in ("nan", "inf", "-inf"):
        return False
    a, b = Fraction(a), Fraction(b)
    return abs(a - b) <= atol + rtol * max(abs(a), abs(b))


def all_close(xs, ys, rtol, atol):
    return len(xs) == len(ys) and all(close(x, y, rtol, atol) for x, y in zip(xs, ys))


def first_bad(xs, ys, rtol, atol):
    if len(xs) != len(ys):
        return f"lengths {len(xs)} vs {len(ys)}"
    for i, (x, y) in enumerate(zip(xs, ys)):
        if not close(x, y, rtol, atol):
            try:
                return f"[{i}] impl={float(Fraction(x)):.9g} model={float(Fraction(y)):.9g}"
            except Exception:
                return f"[{i}] impl={x} model={y}"
    return None


def compositions(n):
    """All ways to cut range(n) into contiguous non-empty chunks (as lists of lengths)."""
    if n == 0:
        yield []
        return
    for mask in range(1 << (n - 1)):
        out, cur = [], 1
        for g in range(n - 1):
            if mask >> g & 1:
                out.append(cur)
                cur = 1
            else:
                cur += 1
        out.append(cur)
        yield out


def cut(order, comp):
    out, i = [], 0
    for c in comp:
        out.append(list(order[i:i + c]))
        i += c
    return out


class C18(PropertyCheck):
    pid = "C18"
    rule = ("mvn: pools of <= 6 integer-valued tensors (ranks 1-4, every normalised dim incl. negative "
            "aliases, float32/float64), every ordering x every cut into chunks for <= 4 tensors (quick; <= 5 "
            "thorough) and sampled for more, store(bessel) both ways, forward with stored / own / half-stored "
            "statistics; cli: the directory command with --num-workers 0, with and without groups; deltas: "
            "orders 0-3 x widths 1-3 x 4 pad modes, every legal (dim, time_dim, concatenate) on rank 2-4 inputs "
            "incl. negative aliases, functional and module, plus a malformed stream; returns: gamma in "
            "{0, +-1/2, 1/4, +-1, 2} x T <= 8 x both layouts exact, real gammas within tolerance, long horizons "
            "oracle-only. non-trivial: >= 2 chunks / order >= 1 / gamma != 0 and T >= 2; distinct by case.")
    assumptions = [
        "float rounding is not modelled: accumulators, width-1 deltas and dyadic-gamma returns are compared "
        "exactly on integer-valued inputs; means, variances, normalised outputs, width>1 deltas and "
        "real-gamma returns within a tolerance against the exact model",
        "sqrt is a trusted primitive: theorems are stated for the variance (std*std = var); the driver uses an "
        "IEEE double sqrt only to produce normalised outputs for the tolerance comparison",
        "accumulate() sums each chunk in the input's dtype before adding into the double buffers; precision "
        "loss inside a float32 chunk of real-valued features is float behaviour, not modelled",
        "overflow of gamma^t (|gamma| > 1, long horizons) is float behaviour, not modelled; the long-horizon "
        "oracle stream uses |gamma| < 1 where every R_t is representable",
        "torch primitives (transpose/flatten/view/movedim, F.pad, conv1d, matmul, pow, tril/triu) at their "
        "documented meaning",
    ]
    quick_budget_s = 150
    thorough_budget_s = 900

    # ================================================================ generators
    def cases(self, rng, tier):
        big = tier != "quick"
        yield from self.gen_return(rng, big)
        yield from self.gen_mvn(rng, big)
        yield from self.gen_cli(rng, big)
        yield from self.gen_deltas(rng, big)

    # ---------------------------------------------------------------- mvn
    def rand_pool(self, rng, n, rank=None, dim=None, dtype=None, X=None):
        rank = rank or rng.choice([1, 2, 2, 3, 3, 4])
        if dim is None:
            dim = rng.randrange(-rank, rank)
        d = dim % rank
        X = X or rng.choice([1, 2, 3])
        dtype = dtype or rng.choice(["float32", "float64"])
        others = [a for a in range(rank) if a != d]
        cat_axis = rng.choice(others) if others else None
        base = [rng.choice([1, 2]) for _ in range(rank)]
        base[d] = X
        tensors = []
        for i in range(n):
            shape = list(base)
            if cat_axis is not None:
                shape[cat_axis] = rng.choice([1, 1, 2, 3]) if rng.random() > 0.06 else 0
            kind = rng.random()
            if kind < 0.1:
                data = [rng.randrange(-8, 9)] * prod(shape)          # constant: zero variance
            else:
                data = [rng.randrange(-8, 9) for _ in range(prod(shape))]
            tensors.append({"shape": shape, "data": data})
        return {"kind": "mvn", "dtype": dtype, "dim": dim, "cat_axis": cat_axis, "tensors": tensors}

    def gen_mvn(self, rng, big):
        full_upto = 5 if big else 4
        npools = 3 if big else 2
        for n in range(1, full_upto + 1):
            for p in range(npools if n < 5 else 1):
                pool = self.rand_pool(rng, n)
                if pool["cat_axis"] is None:
                    comps = [[1] * n]
                else:
                    comps = list(compositions(n))
                k = 0
                for order in itertools.permutations(range(n)):
                    for comp in comps:
                        for bessel in ((False, True) if n <= 3 else (bool(k & 1),)):
                            yield dict(pool, history=cut(order, comp), bessel=bessel)
                        k += 1
        # larger pools: sampled histories
        for n in ((5, 6) if not big else (6,)):
            for p in range(2 if not big else 4):
                pool = self.rand_pool(rng, n)
                for k in range(40 if not big else 400):
                    order = list(range(n))
                    rng.shuffle(order)
                    comp = [1] * n if pool["cat_axis"] is None else rng.choice(list(compositions(n)))
                    yield dict(pool, history=cut(order, comp), bessel=bool(k & 1))
        # every normalised dimension (negative aliases too) of ranks 1..4, both dtypes
        for rank in (1, 2, 3, 4):
            for dim in range(-rank, rank):
                for dtype in ("float32", "float64"):
                    for rep in range(3 if big else 1):
                        n = rng.choice([2, 3])
                        pool = self.rand_pool(rng, n, rank=rank, dim=dim, dtype=dtype)
                        order = list(range(n))
                        rng.shuffle(order)
                        comp = [1] * n if pool["cat_axis"] is None else rng.choice(list(compositions(n)))
                        yield dict(pool, history=cut(order, comp), bessel=rng.random() < 0.5)
        # too few frames: one frame in total (biased: allowed; Bessel: RuntimeError), no frame at all
        for bessel in (False, True):
            yield {"kind": "mvn", "dtype": "float64", "dim": -1, "cat_axis": 0, "bessel": bessel,
                   "tensors": [{"shape": [1, 2], "data": [3, -1]}], "history": [[0]]}
            yield {"kind": "mvn", "dtype": "float32", "dim": 0, "cat_axis": None, "bessel": bessel,
                   "tensors": [{"shape": [3], "data": [3, -1, 2]}], "history": [[0]]}
            yield {"kind": "mvn", "dtype": "float32", "dim": 1, "cat_axis": 0, "bessel": bessel,
                   "tensors": [{"shape": [0, 2], "data": []}], "history": [[0]]}
            yield {"kind": "mvn", "dtype": "float32", "dim": 1, "cat_axis": 0, "bessel": bessel,
                   "tensors": [{"shape": [0, 2], "data": []}, {"shape": [2, 2], "data": [1, 2, 5, 4]}],
                   "history": [[0], [1]]}

    # ---------------------------------------------------------------- cli
    def gen_cli(self, rng, big):
        for k in range(60 if big else 20):
            nfiles = rng.randrange(1, 6)
            rank = rng.choice([2, 2, 3])
            dim = rng.choice([-1, -1, 0, 1, -2]) if rank >= 2 else -1
            d = dim % rank
            X = rng.choice([1, 2, 3])
            files = []
            for i in range(nfiles):
                shape = [rng.choice([1, 2, 3]) for _ in range(rank)]
                shape[d] = X
                files.append({"id": f"u{rng.randrange(100):02d}x{i}", "shape": shape,
                              "data": [rng.randrange(-8, 9) for _ in range(prod(shape))]})
            groups = None
            if rng.random() < 0.4:
                groups = {f["id"]: rng.choice(["g1", "g2"]) for f in files}
            yield {"kind": "cli", "dim": dim, "bessel": rng.random() < 0.5, "files": files, "groups": groups,
                   "prefix": rng.choice(["", "p-"]), "suffix": rng.choice([".pt", ".feat"]),
                   "dtype": rng.choice(["float32", "float64"])}

    # ---------------------------------------------------------------- deltas
    def delta_case(self, rng, shape, dim, time_dim, concatenate, order, width, mode, dtype=None, value=None):
        D = len(shape)
        td = time_dim % D
        shape = list(shape)
        pad = order * width
        need = {"reflect": pad + 1, "circular": max(pad, 1), "replicate": 1, "constant": 1}[mode]
        if shape[td] < need:
            shape[td] = need + rng.choice([0, 0, 1, 2])
        if value is None:
            value = rng.choice([0, 0, 1, -3]) if mode == "constant" else 0
        return {"kind": "deltas", "shape": shape, "data": [rng.randrange(-8, 9) for _ in range(prod(shape))],
                "dim": dim, "time_dim": time_dim, "concatenate": concatenate, "order": order, "width": width,
                "pad_mode": mode, "value": value, "dtype": dtype or rng.choice(["float32", "float32", "float64"])}

    def layouts(self, D, negatives):
        for td in range(D):
            for cat in (True, False):
                for dm in range(D if cat else D + 1):
                    yield td, dm, cat
                    if negatives:
                        yield td - D, dm - (D if cat else D + 1), cat

    def rand_shape(self, rng, D):
        return [rng.choice([1, 2, 2, 3]) for _ in range(D)]

    def gen_deltas(self, rng, big):
        # (a) every legal layout, every pad mode, a rotating (order, width)
        ow = [(o, w) for o in range(4) for w in (1, 2, 3)]
        k = 0
        for D in (2, 3, 4):
            for li, (td, dm, cat) in enumerate(self.layouts(D, negatives=True)):
                # quick: two of the four modes per layout (rotating); thorough: all four, three shapes
                for mode in (PAD_MODES if big else (PAD_MODES[li % 4], PAD_MODES[(li + 2 + li // 4) % 4])):
                    for rep in range(3 if big else 1):
                        o, w = ow[k % len(ow)]
                        k += 5
                        yield self.delta_case(rng, self.rand_shape(rng, D), dm, td, cat, o, w, mode)
        # (b) every (order, width, mode) on a few layouts per rank, time extents from minimal up
        for D in (2, 3) if not big else (2, 3, 4):
            lay = list(self.layouts(D, negatives=False))
            for o in range(4):
                for w in (1, 2, 3):
                    for mode in PAD_MODES:
                        for rep in range(4 if big else 2):
                            td, dm, cat = rng.choice(lay)
                            shape = self.rand_shape(rng, D)
                            shape[td] = rng.choice([1, 2, 3, 4, 6])
                            yield self.delta_case(rng, shape, dm, td, cat, o, w, mode)
        # (c) rank 1 (time is the only axis) and default arguments
        for o in range(4):
            for mode in PAD_MODES:
                yield self.delta_case(rng, [rng.choice([1, 2, 5])], 0, 0, False, o, rng.choice([1, 2, 3]), mode)
                yield self.delta_case(rng, [rng.choice([1, 2, 5])], 0, 0, True, o, rng.choice([1, 2, 3]), mode)
                yield self.delta_case(rng, [2, 4, 3], -1, -2, True, o, 2, mode)
        # (d) malformed: illegal pads, dims out of range, width 0, negative order
        for D in (2, 3):
            for rep in range(6 if big else 3):
                shape = self.rand_shape(rng, D)
                td = rng.randrange(D)
                o, w = rng.choice([(1, 2), (2, 1), (2, 2), (1, 3), (3, 1)])
                shape[td] = rng.randrange(1, o * w + 1)
                c = self.delta_case(rng, [9] * D, rng.randrange(D), td, True, o, w, "constant")
                c.update(shape=shape, data=[rng.randrange(-8, 9) for _ in range(prod(shape))],
                         pad_mode="reflect")
                yield c
                if shape[td] < o * w:
                    yield dict(c, pad_mode="circular")
                good = self.delta_case(rng, self.rand_shape(rng, D), 0, 0, True, 1, 1, "replicate")
                yield dict(good, dim=D)
                yield dict(good, dim=-D - 1)
                yield dict(good, time_dim=D)
                yield dict(good, time_dim=-D - 1)
                yield dict(good, concatenate=False, dim=D + 1)
                yield dict(good, width=0)
                yield dict(good, order=-1)

    # ---------------------------------------------------------------- returns
    def gen_return(self, rng, big):
        gammas = ["0", "1/2", "1", "2", "-1/2", "-1", "1/4"]
        for T in range(0, 9):
            for N in ((1, 2, 3) if big else (1, 2)):
                for g in gammas:
                    for bf in (False, True):
                        for rep in range(2 if big else 1):
                            r = [[rng.randrange(-8, 9) for _ in range(N)] for _ in range(T)]
                            if bf:
                                r = [[r[t][n] for t in range(T)] for n in range(N)]
                            yield {"kind": "return", "r": r, "rows": N if bf else T, "cols": T if bf else N,
                                   "gamma": g, "batch_first": bf, "stream": "exact",
                                   "dtype": rng.choice(["float32", "float64"])}
        for rep in range(120 if big else 30):
            T, N = rng.randrange(1, 41), rng.randrange(1, 4)
            bf = rng.random() < 0.5
            g = rng.choice([0.9, 0.99, 0.3, 1.1, -0.7, 0.5, 1.0])
            r = [[rng.randrange(-8, 9) for _ in range(T if bf else N)] for _ in range(N if bf else T)]
            yield {"kind": "return", "r": r, "rows": len(r), "cols": T if bf else N, "gamma": frac_str(g),
                   "batch_first": bf, "stream": "tol", "dtype": rng.choice(["float32", "float64"])}
        # long horizons (oracle only): every R_t is representable, gamma^t alone underflows
        for T, g in ((200, 0.5), (1000, 0.9), (1200, 0.5)) + (((3000, 0.95), (1500, -0.9)) if big else ()):
            for bf in (False, True):
                yield {"kind": "return", "long": True, "T": T, "N": 2, "gamma": frac_str(g), "batch_first": bf,
                       "stream": "oracle", "seed": rng.randrange(1 << 30), "dtype": "float32"}

    # ================================================================ implementation
    def run_impl(self, case):
        return getattr(self, "impl_" + case["kind"])(case)

    # ---------------------------------------------------------------- mvn
    def chunks_of(self, case):
        import torch
        ts = [mk(t, case["dtype"]) for t in case["tensors"]]
        out = []
        for ch in case["history"]:
            if case["cat_axis"] is None:
                assert len(ch) == 1
                out.append(ts[ch[0]])
            else:
                out.append(torch.cat([ts[i] for i in ch], case["cat_axis"]))
        return ts, out

    def pooled_of(self, case, ts):
        import torch
        if case["cat_axis"] is None:
            return torch.stack(ts, 0), -1     # rank 1: the frames stacked; coefficient axis is last
        return torch.cat(ts, case["cat_axis"]), case["dim"]

    def col_stats(self, y, dim):
        yc = y.double().movedim(dim, 0).flatten(1)
        if yc.size(1) == 0:
            return {"m1": [], "m2": []}
        return {"m1": fl(yc.mean(1).tolist()), "m2": fl((yc * yc).mean(1).tolist())}

    def impl_mvn(self, case):
        import torch
        from pydrobert.torch.modules import MeanVarianceNormalization
        from pydrobert.torch.functional import mean_var_norm
        ts, chunks = self.chunks_of(case)
        pooled, pdim = self.pooled_of(case, ts)
        mvn = MeanVarianceNormalization(case["dim"])
        for c in chunks:
            mvn.accumulate(c)
        obs = {"acc": {"count": frac_str(mvn.count.item()), "sum": fl(mvn.sum.tolist()),
                       "sumsq": fl(mvn.sumsq.tolist())},
               "buffers_double": all(b.dtype == torch.float64 for b in (mvn.count, mvn.sum, mvn.sumsq))}
        frames = pooled.numel() // max(pooled.size(pdim), 1)
        obs["frames"] = frames
        if frames:
            own = MeanVarianceNormalization(pdim)(pooled)
            obs["own"] = {"y": fl(own.flatten().tolist()), "stats": self.col_stats(own, pdim),
                          "dtype_ok": own.dtype == pooled.dtype and own.shape == pooled.shape}
        try:
            mvn.store(delete_stats=False, bessel=case["bessel"])
        except RuntimeError as e:
            obs["store"] = None
            obs["store_error"] = str(e)[:80]
            return obs
        mean, std = mvn.mean, mvn.std
        mvn2 = MeanVarianceNormalization(pdim, mean, std)
        y = mvn2(pooled)
        obs["store"] = {
            "mean": fl(mean.tolist()), "std": fl(std.tolist()),
            "y": fl(y.flatten().tolist()), "stats": self.col_stats(y, pdim),
            "y_mean_only": fl(mean_var_norm(pooled, pdim, mean, None).flatten().tolist()),
            "y_std_only": fl(mean_var_norm(pooled, pdim, None, std).flatten().tolist()),
            "same_via_self": bool(torch.equal(mvn.to(pooled.device)(pooled) if pdim == case["dim"] else y, y)),
        }
        # store(delete_stats=True) must forget the buffers
        mvn.store(delete_stats=True, bessel=case["bessel"])
        obs["store"]["deleted"] = mvn.count is None and mvn.sum is None and mvn.sumsq is None
        return obs

    def req_mvn(self, case):
        ts, chunks = self.chunks_of(case)
        pooled, pdim = self.pooled_of(case, ts)
        if pooled.numel() // max(pooled.size(pdim), 1) == 0:
            # no frame at all: only the accumulators / the store error are specified
            pooled = pooled.new_zeros([1 if i != pdim % pooled.dim() else pooled.size(pdim)
                                       for i in range(pooled.dim())])
        from pydrobert.torch import config
        # the module is built with case["dim"]; the pooled tensor of a rank-1 pool is rank 2 with dim -1.
        return {"op": "c18.mvn", "case": {
            "dim": case["dim"], "pooled_dim": pdim, "bessel": case["bessel"], "eps": frac_str(config.TINY),
            "chunks": [tcase(c) for c in chunks], "pooled": tcase(pooled)}}

    # ---------------------------------------------------------------- cli
    def impl_cli(self, case):
        import torch
        from pydrobert.torch import command_line
        with tempfile.TemporaryDirectory(prefix="c18-") as td:
            d = os.path.join(td, "feat")
            os.mkdir(d)
            for f in case["files"]:
                torch.save(mk(f, case["dtype"]), os.path.join(d, case["prefix"] + f["id"] + case["suffix"]))
            # a file that must be ignored (different suffix)
            torch.save(torch.full((2, 7), 99.0), os.path.join(d, "stray.ignored"))
            out = os.path.join(td, "out.pt")
            args = [d, out, "--num-workers", "0", "--dim", str(case["dim"]),
                    "--file-prefix", case["prefix"], "--file-suffix", case["suffix"]]
            if case["bessel"]:
                args.append("--bessel")
            if case["groups"] is not None:
                gp = os.path.join(td, "id2gid")
                with open(gp, "w") as fh:
                    for k, v in case["groups"].items():
                        fh.write(f"{k} {v}\n")
                args += ["--id2gid", gp]
            rc = command_line.compute_mvn_stats_for_torch_feat_data_dir(args)
            if rc:
                return {"rc": rc}
            res = torch.load(out)
        if case["groups"] is None:
            res = {"": res}
        return {"rc": 0, "groups": [
            {"gid": g, "mean": fl(v["mean"].tolist()), "std": fl(v["std"].tolist())}
            for g, v in sorted(res.items())]}

    def req_cli(self, case):
        files = sorted(case["files"], key=lambda f: f["id"])
        if case["groups"] is None:
            groups = [{"gid": "", "files": [{"shape": f["shape"], "data": f["data"]} for f in files]}]
        else:
            gids = sorted(set(case["groups"].values()))
            groups = [{"gid": g, "files": [{"shape": f["shape"], "data": f["data"]} for f in files
                                           if case["groups"][f["id"]] == g]} for g in gids]
        return {"op": "c18.cli", "case": {"dim": case["dim"], "bessel": case["bessel"], "groups": groups}}

    # ---------------------------------------------------------------- deltas
    def impl_deltas(self, case):
        import torch
        from pydrobert.torch.functional import feat_deltas
        from pydrobert.torch.modules import FeatureDeltas
        x = mk(case, case["dtype"])
        args = (case["dim"], case["time_dim"], case["concatenate"], case["order"], case["width"],
                case["pad_mode"], float(case["value"]))
        try:
            y = feat_deltas(x, *args)
        except (RuntimeError, IndexError, ValueError) as e:
            return {"raised": type(e).__name__, "message": str(e)[:120]}
        obs = {"shape": list(y.shape), "data": fl(y.flatten().tolist()), "dtype_ok": y.dtype == x.dtype}
        try:
            ym = FeatureDeltas(*args).to(x.dtype)(x)   # the filter buffer follows the module's dtype
            obs["module_equal"] = bool(ym.shape == y.shape and torch.equal(ym, y))
        except Exception as e:
            obs["module_equal"] = f"module raised {type(e).__name__}: {e}"[:160]
        return obs

    def req_deltas(self, case):
        return {"op": "c18.deltas", "case": {
            "x": {"shape": case["shape"], "data": case["data"]}, "dim": case["dim"],
            "time_dim": case["time_dim"], "concatenate": case["concatenate"], "order": case["order"],
            "width": case["width"], "pad_mode": case["pad_mode"], "value": frac_str(case["value"])}}

    # ---------------------------------------------------------------- returns
    def long_rewards(self, case):
        import random
        rr = random.Random(case["seed"])
        T, N = case["T"], case["N"]
        r = [[rr.randrange(-4, 5) for _ in range(N)] for _ in range(T)]
        if case["batch_first"]:
            r = [[r[t][n] for t in range(T)] for n in range(N)]
        return r

    def impl_return(self, case):
        import torch
        from pydrobert.torch.functional import time_distributed_return
        from pydrobert.torch.modules import TimeDistributedReturn
        dt = torch.float32 if case["dtype"] == "float32" else torch.float64
        g = float(Fraction(case["gamma"]))
        if case.get("long"):
            r = torch.tensor(self.long_rewards(case), dtype=dt)
            R = time_distributed_return(r, g, case["batch_first"])
            if not case["batch_first"]:
                r, R = r.t(), R.t()
            r, R = r.double(), R.double()
            T = r.size(1)
            finite = bool(torch.isfinite(R).all())
            nonfinite = int((~torch.isfinite(R)).sum())
            # residual of the recursion R_t - (r_t + g R_{t+1}), R_T = 0, relative to the scale
            nxt = torch.cat([R[:, 1:], torch.zeros_like(R[:, :1])], 1)
            res = (R - (r + g * nxt)).abs()
            res = torch.where(torch.isfinite(res), res, torch.full_like(res, float("inf")))
            return {"finite": finite, "nonfinite": nonfinite, "T": T,
                    "first_bad_t": int((~torch.isfinite(R)).any(0).nonzero()[0]) if nonfinite else None,
                    "max_residual": float(res.max()) if T else 0.0}
        rows, cols = case["rows"], case["cols"]
        r = torch.tensor(case["r"], dtype=dt).view(rows, cols)
        R = time_distributed_return(r, g, case["batch_first"])
        Rm = TimeDistributedReturn(g, case["batch_first"])(r)
        return {"shape": list(R.shape), "R": [fl(row) for row in R.tolist()],
                "module_equal": bool(torch.equal(R, Rm) or (R != R).any()), "dtype_ok": R.dtype == r.dtype}

    def req_return(self, case):
        if case.get("long"):
            return None
        return {"op": "c18.return", "case": {"r": case["r"], "cols": case["cols"], "gamma": case["gamma"],
                                             "batch_first": case["batch_first"]}}

    def model_request(self, case):
        return getattr(self, "req_" + case["kind"])(case)

    # ================================================================ correspondence
    def compare(self, case, impl, model):
        if isinstance(impl, dict) and "error" in impl:
            if case["kind"] == "cli" and any(g["stats"] is None for g in model) and impl["error"] == "RuntimeError":
                return []           # store() raises for a group with too few frames: model agrees
            return [f"implementation raised {impl['error']}: {impl.get('message')}"]
        return getattr(self, "cmp_" + case["kind"])(case, impl, model)

    def tol(self, case):
        return (2e-4, 2e-5) if case.get("dtype") == "float32" else (1e-9, 1e-10)

    def cmp_mvn(self, case, impl, model):
        out = []
        a, b = impl["acc"], model["acc"]
        if (F(a["count"]), [F(v) for v in a["sum"]], [F(v) for v in a["sumsq"]]) != \
                (F(b["count"]), [F(v) for v in b["sum"]], [F(v) for v in b["sumsq"]]):
            out.append(f"accumulators differ: impl={a} model={b}")
        rt, at = self.tol(case)
        if impl["frames"]:
            bad = first_bad(impl["own"]["y"], model["own"]["y"], rt, at)
            if bad:
                out.append(f"forward with own statistics differs: {bad}")
        if (impl["store"] is None) != (model["store"] is None):
            out.append(f"store: impl {'raised' if impl['store'] is None else 'stored'}, "
                       f"model {'raises' if model['store'] is None else 'stores'}")
            return out
        if impl["store"] is None:
            return out
        s, m = impl["store"], model["store"]
        bad = first_bad(s["mean"], m["mean"], 1e-12, 1e-12)
        if bad:
            out.append(f"stored mean differs: {bad}")
        count = F(a["count"])
        if count > 0 and count.denominator == 1 and (count.numerator & (count.numerator - 1)) == 0:
            if [F(v) for v in s["mean"]] != [F(v) for v in m["mean"]]:
                out.append("stored mean not exact although count is a power of two")
        bad = first_bad([frac_str(F(v) * F(v)) for v in s["std"]], m["var"], 1e-10, 1e-10)
        if bad:
            out.append(f"stored std^2 differs from the variance: {bad}")
        for k in ("y", "y_mean_only", "y_std_only"):
            bad = first_bad(s[k], m[k], rt, at)
            if bad:
                out.append(f"forward ({k}) differs: {bad}")
        return out

    def cmp_cli(self, case, impl, model):
        out = []
        want_err = any(g["stats"] is None for g in model)
        if impl.get("rc"):
            return [f"command returned {impl['rc']}"]
        if want_err:
            return ["command succeeded although a group has too few frames"]
        if [g["gid"] for g in impl["groups"]] != [g["gid"] for g in model]:
            return [f"groups differ: impl={[g['gid'] for g in impl['groups']]} model={[g['gid'] for g in model]}"]
        for a, b in zip(impl["groups"], model):
            bad = first_bad(a["mean"], b["stats"]["mean"], 1e-12, 1e-12)
            if bad:
                out.append(f"group {a['gid']!r} mean: {bad}")
            bad = first_bad([frac_str(F(v) * F(v)) for v in a["std"]], b["stats"]["var"], 1e-10, 1e-10)
            if bad:
                out.append(f"group {a['gid']!r} std^2: {bad}")
        return out

    def delta_tol(self, case):
        scale = 1 + max([abs(v) for v in case["data"]] + [abs(case["value"])])
        return 0.0, 2e-5 * scale

    def cmp_deltas(self, case, impl, model):
        if model["model"] == "error":
            return [] if "raised" in impl else ["model raises, implementation returned a value"]
        if "raised" in impl:
            return [f"implementation raised {impl['raised']}: {impl['message']}; model has a value"]
        m = model["model"]
        out = []
        if impl["shape"] != m["shape"]:
            return [f"shape impl={impl['shape']} model={m['shape']}"]
        if case["width"] == 1 or case["order"] == 0:
            if [F(v) for v in impl["data"]] != [F(v) for v in m["data"]]:
                out.append("exact stream: " + str(first_bad(impl["data"], m["data"], 0, 0)))
        else:
            rt, at = self.delta_tol(case)
            bad = first_bad(impl["data"], m["data"], rt, at)
            if bad:
                out.append(f"tolerance stream: {bad}")
        if impl["module_equal"] is not True:
            out.append(f"FeatureDeltas module differs from the functional: {impl['module_equal']}")
        return out

    def cmp_return(self, case, impl, model):
        if case.get("long"):
            return []
        m = model["model"]
        if case["stream"] == "exact":
            if [[F(v) for v in row] for row in impl["R"]] != [[F(v) for v in row] for row in m]:
                return [f"exact stream: impl={impl['R']} model={m}"]
            return []
        scale = 1 + max([abs(F(v)) for row in m for v in row] + [0])
        rt, at = (1e-4, 1e-5 * float(scale)) if case["dtype"] == "float32" else (1e-9, 1e-10 * float(scale))
        for i, (a, b) in enumerate(zip(impl["R"], m)):
            bad = first_bad(a, b, rt, at)
            if bad:
                return [f"tolerance stream row {i}: {bad}"]
        return []

    # ================================================================ the property on the implementation
    def predicate(self, case, impl, model):
        if isinstance(impl, dict) and "error" in impl:
            if case["kind"] == "cli" and model is not None and any(g["stats"] is None for g in model) \
                    and impl["error"] == "RuntimeError":
                return []           # too few frames in a group: documented RuntimeError of store()
            if case["kind"] == "cli" and impl["error"] == "RuntimeError" and not case["bessel"] \
                    and "Too few" in str(impl.get("message")) and self.cli_has_single_frame_group(case):
                return [("cli: store(bessel=False) rejected a group holding exactly one frame", SIG_SINGLE)]
            return [(f"{case['kind']}: implementation raised {impl['error']}: {impl.get('message')}", None)]
        return getattr(self, "pred_" + case["kind"])(case, impl, model)

    def pred_mvn(self, case, impl, model):
        fails = []
        spec = model["spec"]
        frames = impl["frames"]
        if not impl["buffers_double"]:
            fails.append(("accumulation buffers are not double precision", None))
        a = impl["acc"]
        if F(a["count"]) != frames:
            fails.append((f"count {a['count']} is not the number of frames {frames}", None))
        need = 2 if case["bessel"] else 1
        if frames < need:
            if impl["store"] is not None:
                fails.append((f"store() succeeded with {frames} frame(s), bessel={case['bessel']}", None))
            return fails
        if impl["store"] is None:
            sig = SIG_SINGLE if (frames == 1 and not case["bessel"]) else None
            fails.append((f"store(bessel={case['bessel']}) raised with {frames} frame(s) accumulated: "
                          f"{impl.get('store_error')}", sig))
            return fails
        s = impl["store"]
        n = Fraction(frames)
        bad = first_bad(s["mean"], spec["mean"], 1e-12, 1e-12)
        if bad:
            fails.append((f"stored mean is not the pooled mean: {bad}", None))
        bad = first_bad([frac_str(F(v) * F(v)) for v in s["std"]], spec["var"], 1e-10, 1e-10)
        if bad:
            fails.append((f"stored std^2 is not the pooled {'Bessel' if case['bessel'] else 'biased'} "
                          f"variance: {bad}", None))
        if not s["deleted"]:
            fails.append(("store(delete_stats=True) kept the buffers", None))
        if not s["same_via_self"]:
            fails.append(("the module's own forward differs from a module built from its mean/std", None))
        rt, at = self.tol(case)
        pt = 50 * at * (1 + float(n))
        # normalising the pooled data with the stored statistics: zero mean, unit variance
        scale = n / (n - 1) if case["bessel"] else Fraction(1)
        for i, v in enumerate(spec["var"]):
            if F(v) <= 0:
                continue
            if not close(s["stats"]["m1"][i], 0, 0, pt):
                fails.append((f"normalised coefficient {i} has mean {float(F(s['stats']['m1'][i])):.3g}", None))
            if not close(F(s["stats"]["m2"][i]) * scale, 1, 0, pt):
                fails.append((f"normalised coefficient {i} has variance "
                              f"{float(F(s['stats']['m2'][i]) * scale):.6g}", None))
        for i, v in enumerate(spec["own_var"]):
            o = impl["own"]["stats"]
            if F(v) <= 0:
                continue
            if not close(o["m1"][i], 0, 0, pt) or not close(o["m2"][i], 1, 0, pt):
                fails.append((f"own-statistics forward: coefficient {i} has mean "
                              f"{float(F(o['m1'][i])):.3g}, variance {float(F(o['m2'][i])):.6g}", None))
        if not impl["own"]["dtype_ok"]:
            fails.append(("forward changed dtype or shape", None))
        return fails

    def cli_has_single_frame_group(self, case):
        frames = {}
        for f in case["files"]:
            g = "" if case["groups"] is None else case["groups"][f["id"]]
            D = len(f["shape"])
            frames[g] = frames.get(g, 0) + prod(f["shape"]) // max(f["shape"][case["dim"] % D], 1)
        return any(v == 1 for v in frames.values())

    def pred_cli(self, case, impl, model):
        if impl.get("rc"):
            return [(f"command returned {impl['rc']}", None)]
        fails = []
        for a, b in zip(impl["groups"], model):
            if b["stats"] is None:
                fails.append((f"group {a['gid']!r}: statistics written although too few frames", None))
                continue
            if not all_close(a["mean"], b["stats"]["mean"], 1e-12, 1e-12):
                fails.append((f"group {a['gid']!r}: mean is not the pooled mean", None))
            if not all_close([frac_str(F(v) * F(v)) for v in a["std"]], b["stats"]["var"], 1e-10, 1e-10):
                fails.append((f"group {a['gid']!r}: std^2 is not the pooled variance", None))
        return fails

    def pred_deltas(self, case, impl, model):
        if model["spec"] == "error":
            return [] if "raised" in impl else [("illegal arguments accepted", None)]
        if "raised" in impl:
            return [(f"feat_deltas raised {impl['raised']} on legal arguments: {impl['message']}", None)]
        spec = model["spec"]
        if impl["shape"] != spec["shape"]:
            return [(f"output shape {impl['shape']}, expected {spec['shape']}", None)]
        rt, at = self.delta_tol(case)
        bad = first_bad(impl["data"], spec["data"], rt, at)
        fails = []
        if bad:
            fails.append((f"deltas differ from the recursive regression formula on the padded input: {bad}", None))
        if not impl["dtype_ok"]:
            fails.append(("dtype changed", None))
        return fails

    def pred_return(self, case, impl, model):
        g = float(F(case["gamma"]))
        if case.get("long"):
            if not impl["finite"]:
                return [(f"{impl['nonfinite']} non-finite returns (first at t={impl['first_bad_t']}) for "
                         f"gamma={g}, T={impl['T']} although every R_t is bounded by 4/(1-|gamma|)", SIG_NAN)]
            if impl["max_residual"] > 1e-3:
                return [(f"R_t - (r_t + gamma R_t+1) reaches {impl['max_residual']:.3g}", None)]
            return []
        spec = model["spec"]
        fails = []
        if impl["shape"] != [case["rows"], case["cols"]]:
            fails.append((f"shape {impl['shape']}", None))
        scale = 1 + max([abs(F(v)) for row in spec for v in row] + [0])
        if case["stream"] == "exact":
            rt, at = 0, 0
        else:
            rt, at = (1e-4, 1e-5 * float(scale)) if case["dtype"] == "float32" else (1e-9, 1e-10 * float(scale))
        for i, (a, b) in enumerate(zip(impl["R"], spec)):
            bad = first_bad(a, b, rt, at)
            if bad:
                fails.append((f"returns differ from R_t = r_t + gamma R_t+1, R_T = 0: row {i} {bad}", None))
                break
        if not impl["module_equal"]:
            fails.append(("TimeDistributedReturn differs from the functional", None))
        if not impl["dtype_ok"]:
            fails.append(("dtype changed", None))
        return fails

    # ================================================================ evidence
    def nontrivial(self, case, impl):
        k = case["kind"]
        if k == "mvn":
            return len(case["history"]) >= 2
        if k == "cli":
            return len(case["files"]) >= 2
        if k == "deltas":
            return case["order"] >= 1 and isinstance(impl, dict) and "data" in impl
        return case["gamma"] != "0" and (case.get("T") or len(case["r"]) * case["cols"]) >= 2

    def tags(self, case, impl):
        k = case["kind"]
        t = [f"kind={k}"]
        if k == "mvn":
            t += [f"mvn.chunks={len(case['history'])}", f"mvn.tensors={len(case['tensors'])}",
                  f"mvn.rank={len(case['tensors'][0]['shape'])}", f"mvn.dim={case['dim']}",
                  f"mvn.bessel={case['bessel']}", f"mvn.dtype={case['dtype']}"]
            if isinstance(impl, dict) and impl.get("store", 1) is None:
                t.append("mvn.store_raises")
        elif k == "cli":
            t += [f"cli.groups={case['groups'] is not None}", f"cli.bessel={case['bessel']}", f"cli.dim={case['dim']}"]
        elif k == "deltas":
            D = len(case["shape"])
            t += [f"deltas.order={case['order']}", f"deltas.width={case['width']}", f"deltas.pad={case['pad_mode']}",
                  f"deltas.rank={D}", f"deltas.layout=D{D}:td{case['time_dim']}:dim{case['dim']}:"
                  f"{'cat' if case['concatenate'] else 'stack'}",
                  "deltas.stream=" + ("exact" if case["width"] == 1 or case["order"] == 0 else "tolerance")]
            if isinstance(impl, dict) and "raised" in impl:
                t.append("deltas.raised=" + impl["raised"])
        else:
            t += [f"return.gamma={case['gamma'] if case['stream'] == 'exact' else 'real'}",
                  f"return.batch_first={case['batch_first']}", f"return.stream={case['stream']}"]
        return t

    def shrink(self, case):
        k = case["kind"]
        if k == "mvn":
            n = len(case["tensors"])
            for drop in range(n):
                if n <= 1:
                    break
                ren = {i: (i if i < drop else i - 1) for i in range(n) if i != drop}
                hist = [[ren[i] for i in ch if i != drop] for ch in case["history"]]
                hist = [ch for ch in hist if ch]
                yield dict(case, tensors=[t for i, t in enumerate(case["tensors"]) if i != drop], history=hist)
            if any(len(ch) > 1 for ch in case["history"]):
                yield dict(case, history=[[i] for ch in case["history"] for i in ch])
            for i, t in enumerate(case["tensors"]):
                if any(v not in (0, 1) for v in t["data"]):
                    ts = list(case["tensors"])
                    ts[i] = dict(t, data=[max(0, min(1, v)) for v in t["data"]])
                    yield dict(case, tensors=ts)
        elif k == "cli":
            if len(case["files"]) > 1:
                for i in range(len(case["files"])):
                    fs = case["files"][:i] + case["files"][i + 1:]
                    g = None if case["groups"] is None else {f["id"]: case["groups"][f["id"]] for f in fs}
                    yield dict(case, files=fs, groups=g)
            if case["groups"] is not None:
                yield dict(case, groups=None)
        elif k == "deltas":
            if case["order"] > 0:
                yield dict(case, order=case["order"] - 1)
            if case["width"] > 1:
                yield dict(case, width=case["width"] - 1)
            for ax, s in enumerate(case["shape"]):
                if s > 1:
                    shape = list(case["shape"])
                    shape[ax] = s - 1
                    yield dict(case, shape=shape, data=case["data"][:prod(shape)])
            if any(v not in (0, 1) for v in case["data"]):
                yield dict(case, data=[1 if i == 0 else 0 for i in range(len(case["data"]))])
        elif k == "return":
            if case.get("long"):
                if case["T"] > 2:
                    yield dict(case, T=case["T"] // 2)
                    yield dict(case, T=case["T"] - 1)
                if case["N"] > 1:
                    yield dict(case, N=1)
                return
            rows, cols = case["rows"], case["cols"]
            if rows > 1:
                yield dict(case, r=case["r"][:-1], rows=rows - 1)
                yield dict(case, r=case["r"][1:], rows=rows - 1)
            if cols > 1:
                yield dict(case, r=[row[:-1] for row in case["r"]], cols=cols - 1)


CHECK = C18()
